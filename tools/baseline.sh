#!/bin/sh
# Runs the repository's baseline test suite (no verif build tag; the checks use overlays only)
# and compares the set of passing tests with /root/.vp/BASELINE.json (stable_pass).
cd /repo || exit 2
unset GOSUMDB
export GOFLAGS=-mod=mod GOPROXY=off
OUT=${1:-/tmp/verif-baseline.json}
go test -json -vet=off -count=1 -timeout 25m ./... > "$OUT" 2>/dev/null
python3 - "$OUT" <<'PY'
import json,sys
passed=set()
for line in open(sys.argv[1]):
    try: e=json.loads(line)
    except Exception: continue
    if e.get("Action")=="pass" and e.get("Test"):
        passed.add(e["Package"]+"::"+e["Test"])
try:
    base=set(json.load(open("/root/.vp/BASELINE.json"))["stable_pass"])
except Exception:
    base=None
print("passed:",len(passed))
if base is not None:
    missing=sorted(base-passed)
    print("baseline:",len(base),"missing:",len(missing))
    for m in missing[:20]: print("  MISSING",m)
    sys.exit(1 if missing else 0)
PY
