#!/usr/bin/env python3
"""Runs the registered quick (or thorough) check of a property against each kept seeded change.

The change is applied in a scratch worktree of /repo's HEAD under /tmp/seedrun (never in /repo
itself: other work may be reading /repo), the check is pointed at it with VERIF_REPO, and the
outcome (exit code, VIOLATION labels) is written back into /verif/seeded/<name>/meta.json
under detected_by. Evidence files are restored afterwards (they must describe /repo itself).

usage: run_seeds.py [--tier quick|thorough] [name ...]      (default: all seeds)
"""
import json, os, shutil, subprocess, sys, time

V = "/verif"
tier = "quick"
args = sys.argv[1:]
if args[:1] == ["--tier"]:
    tier = args[1]
    args = args[2:]
names = args or sorted(os.listdir(V + "/seeded"))
claimed = {c["property_id"] for c in json.load(open(V + "/MANIFEST.json"))["checks"]}
for name in names:
    d = os.path.join(V, "seeded", name)
    meta = json.load(open(d + "/meta.json"))
    prop = meta["property"]
    if not any(f.startswith(prop.lower() + "_") for _, _, fs in os.walk(V + "/harness") for f in fs):
        print("%-8s %s: no harness yet" % (name, prop))
        continue
    wt = "/tmp/seedrun/" + name
    subprocess.run("git -C /repo worktree remove --force %s; rm -rf %s" % (wt, wt), shell=True, capture_output=True)
    os.makedirs("/tmp/seedrun", exist_ok=True)
    r = subprocess.run("git -C /repo worktree add --detach %s HEAD" % wt, shell=True, capture_output=True, text=True)
    if r.returncode:
        print(name, "worktree failed", r.stderr)
        continue
    r = subprocess.run("git apply %s/patch.diff" % d, shell=True, cwd=wt, capture_output=True, text=True)
    if r.returncode:
        r = subprocess.run("git apply -3 %s/patch.diff" % d, shell=True, cwd=wt, capture_output=True, text=True)
    if r.returncode:
        print("%-8s patch no longer applies to HEAD: %s" % (name, r.stderr.strip()[:200]))
        meta["detected_by"] = dict(tier=tier, result="patch does not apply to current HEAD (a later fix: commit touched the same lines)")
        json.dump(meta, open(d + "/meta.json", "w"), indent=1)
        subprocess.run("git -C /repo worktree remove --force %s" % wt, shell=True, capture_output=True)
        continue
    bak = None  # seeded runs write evidence/<id>-alt.json (removed below), never the real evidence file
    t0 = time.time()
    env = dict(os.environ, VERIF_REPO=wt)
    p = subprocess.run(["./check", prop, "--tier", tier, "--jobs", os.environ.get("SEED_JOBS", "8")], cwd=V, env=env,
                       stdout=subprocess.PIPE, stderr=subprocess.STDOUT, text=True)
    out = p.stdout
    viol = [l for l in out.splitlines() if l.startswith("VIOLATION")]
    inc = [l for l in out.splitlines() if l.startswith("INCONCLUSIVE")]
    labels = sorted(set(l.split("label=")[-1] for l in viol))
    res = "DETECTED" if p.returncode == 1 and viol else ("missed (exit 0)" if p.returncode == 0 else "inconclusive (exit %d)" % p.returncode)
    print("%-8s %s %-22s %4.0fs labels=%s %s" % (name, prop, res, time.time() - t0, labels, (inc[0][:160] if inc and not viol else "")))
    meta["detected_by"] = dict(tier=tier, result=res, check="./check %s --tier %s" % (prop, tier), labels=labels,
                               inconclusive=[l[:200] for l in inc[:3]], seconds=round(time.time() - t0),
                               claimed_in_manifest=prop in claimed)
    json.dump(meta, open(d + "/meta.json", "w"), indent=1)
    try:
        os.remove(os.path.join(V, "evidence", prop + "-alt.json"))
    except OSError:
        pass
    # replay vectors of seeded runs are kept separately
    rp = os.path.join(V, "replay", prop + "-alt")
    if os.path.isdir(rp):
        dst = os.path.join(V, "replay", "seed-" + name)
        shutil.rmtree(dst, ignore_errors=True)
        shutil.move(rp, dst)
    subprocess.run("git -C /repo worktree remove --force %s; rm -rf %s" % (wt, wt), shell=True, capture_output=True)
