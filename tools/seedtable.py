#!/usr/bin/env python3
"""prints the markdown table of seeded changes and what the checks made of them (for DESIGN.md)"""
import json, os
print("| seed | property | what the change does (needs to manifest) | registered quick check | labels / remark |")
print("|---|---|---|---|---|")
for n in sorted(os.listdir('/verif/seeded')):
    m = json.load(open('/verif/seeded/%s/meta.json' % n))
    d = m.get('detected_by') or {}
    res = d.get('result') or 'not run'
    what = (m.get('breaks') or '').replace('|', '/').replace('\n', ' ')
    if len(what) > 150:
        what = what[:147] + '...'
    need = (m.get('needs_to_manifest') or '').replace('|', '/').replace('\n', ' ')
    if len(need) > 110:
        need = need[:107] + '...'
    labels = ', '.join(d.get('labels') or [])
    if d.get('inconclusive') and not labels:
        labels = d['inconclusive'][0][:100]
    print("| %s | %s | %s (%s) | %s | %s |" % (n, m['property'], what, need, res, labels))
