#!/bin/sh
# runs the quick tier of the given properties one after another; summary in /tmp/runall.log
cd /verif
for p in "$@"; do
  s=$(date +%s)
  VERIF_TIMEOUT=${VERIF_TIMEOUT:-500} ./check $p --tier quick --jobs ${JOBS:-8} > /tmp/runall_$p.log 2>&1
  rc=$?
  echo "$p exit=$rc $(( $(date +%s) - s ))s $(grep -c INCONCLUSIVE /tmp/runall_$p.log) inconclusive $(grep -c '^VIOLATION' /tmp/runall_$p.log) violations" >> /tmp/runall.log
done
