#!/bin/sh
# runs the thorough tier of the given properties one after another; results in /tmp/thorough.log
cd /verif
for p in "$@"; do
  s=$(date +%s)
  VERIF_TIMEOUT=${VERIF_TIMEOUT:-900} ./check $p --tier thorough --jobs 16 > /tmp/thorough_$p.log 2>&1
  rc=$?
  echo "$p exit=$rc $(( $(date +%s) - s ))s $(grep -c INCONCLUSIVE /tmp/thorough_$p.log) inconclusive $(grep -c '^VIOLATION' /tmp/thorough_$p.log) violations" >> /tmp/thorough.log
done
