#!/usr/bin/env python3
"""Confirms a seeded change produced by a sub-agent, in a scratch worktree outside /repo and /verif:
  1. the demonstration passes on the unchanged tree,
  2. with the patch applied it fails,
  3. with the patch applied the repository's baseline tests (BASELINE.json stable_pass) still pass.
On success the change is kept as /verif/seeded/<name>/ (patch.diff, demo, meta.json).

usage: verify_seed.py <prop> <outdir> [variant-suffix]     e.g. verify_seed.py C27 /tmp/seed/C27-out 2
"""
import json, os, re, shutil, subprocess, sys, time

prop, outdir = sys.argv[1], sys.argv[2]
suf = sys.argv[3] if len(sys.argv) > 3 else ""
name = prop + ("-" + suf if suf else "")
patch = os.path.join(outdir, "patch%s.diff" % suf)
demo = os.path.join(outdir, "zz_seed_demo%s_test.go" % suf)
meta = os.path.join(outdir, "meta%s.json" % suf)
wt = "/tmp/seedv/" + name
ENV = dict(os.environ, GOFLAGS="-mod=mod", GOPROXY="off")
ENV.pop("GOSUMDB", None)


def sh(cmd, cwd=None, timeout=3600):
    p = subprocess.run(cmd, shell=True, cwd=cwd, env=ENV, stdout=subprocess.PIPE, stderr=subprocess.STDOUT, timeout=timeout)
    return p.returncode, p.stdout.decode(errors="replace")


def fail(msg):
    print("SEED %s REJECTED: %s" % (name, msg))
    sh("git -C /repo worktree remove --force " + wt)
    sys.exit(1)


for f in (patch, demo):
    if not os.path.exists(f):
        print("SEED %s: missing %s" % (name, f))
        sys.exit(1)
first = open(demo).readline()
m = re.match(r"//\s*pkgdir:\s*(\S+)", first)
if not m:
    fail("demo has no // pkgdir: line")
pkgdir = m.group(1).strip("./")
sh("git -C /repo worktree remove --force " + wt)
shutil.rmtree(wt, ignore_errors=True)
rc, out = sh("git -C /repo worktree add --detach %s HEAD" % wt)
if rc:
    fail("worktree: " + out)
# embed dummies so dbms/builtin/core tests can build (untracked files; same on both sides)
for f in ("server.crt", "server.key"):
    shutil.copy("/verif/overlay/" + f, os.path.join(wt, "dbms", f))
demodst = os.path.join(wt, pkgdir, os.path.basename(demo))
shutil.copy(demo, demodst)
demorun = "go test -vet=off -count=1 -run 'Seed|seed' ./%s" % pkgdir
rc0, out0 = sh(demorun, cwd=wt)
if rc0 != 0:
    fail("demo does not pass on the unchanged tree:\n" + out0[-1500:])
rc, out = sh("git apply " + patch, cwd=wt)
if rc:
    fail("patch does not apply: " + out)
rc1, out1 = sh(demorun, cwd=wt)
if rc1 == 0:
    fail("demo passes with the patch applied")
os.remove(demodst)
# baseline tests with the patch
t0 = time.time()
rc, out = sh("go test -json -vet=off -count=1 -p 6 -timeout 40m ./... 2>/dev/null", cwd=wt, timeout=4000)
passed = set()
for line in out.splitlines():
    try:
        e = json.loads(line)
    except Exception:
        continue
    if e.get("Action") == "pass" and e.get("Test"):
        passed.add(e["Package"] + "::" + e["Test"])
base = set(json.load(open("/root/.vp/BASELINE.json"))["stable_pass"])
missing = sorted(base - passed)
suite_s = time.time() - t0
if missing:
    # retry the packages of the missing tests once (load-related flakiness)
    pk = sorted(set(m.split("::")[0] for m in missing))
    rc, out = sh("go test -json -vet=off -count=1 -p 2 -timeout 40m %s 2>/dev/null" % " ".join(pk), cwd=wt, timeout=4000)
    for line in out.splitlines():
        try:
            e = json.loads(line)
        except Exception:
            continue
        if e.get("Action") == "pass" and e.get("Test"):
            passed.add(e["Package"] + "::" + e["Test"])
    missing = sorted(base - passed)
if missing:
    fail("baseline tests fail with the patch: %s" % missing[:10])
dst = "/verif/seeded/" + name
shutil.rmtree(dst, ignore_errors=True)
os.makedirs(dst)
shutil.copy(patch, dst + "/patch.diff")
shutil.copy(demo, dst + "/zz_seed_demo_test.go")
am = {}
try:
    am = json.load(open(meta))
except Exception:
    pass
json.dump(dict(property=prop, breaks=am.get("summary", ""), needs_to_manifest=am.get("needs_to_manifest", ""),
               files_changed=am.get("files_changed", []), demo_pkgdir=pkgdir,
               confirmed=dict(demo_passes_unchanged=True, demo_fails_with_patch=True,
                              baseline_stable_pass_with_patch="%d/%d" % (len(base & passed), len(base)),
                              commands=[demorun + " (before and after git apply)", "go test -json -vet=off -count=1 ./... (patched worktree; dummy dbms/server.crt,key added)"],
                              demo_failure_excerpt=out1[-600:], suite_seconds=round(suite_s)),
               detected_by=None), open(dst + "/meta.json", "w"), indent=1)
sh("git -C /repo worktree remove --force " + wt)
shutil.rmtree(wt, ignore_errors=True)
print("SEED %s CONFIRMED (%d/%d baseline tests pass with the patch; %.0fs)" % (name, len(base & passed), len(base), suite_s))
