#!/usr/bin/env python3
"""Generates /verif/MANIFEST.json from the table below (kept in one place so it stays valid)."""
import json, os
V = os.path.dirname(os.path.dirname(os.path.abspath(__file__)))
props = [json.loads(l) for l in open(os.path.join(V, "properties.jsonl"))]

TECH = "bounded symbolic execution of the real go/ssa (own engine symgo) + SMT (z3) verdict per path; counterexamples replayed natively"
NOTE = ("Trusted: the symgo engine (fork of x/tools go/ssa/interp + SMT encoding), z3 4.8.12, the stubs listed per harness in the "
        "evidence file; guarded by native replay of every counterexample and of sampled solver models of passing paths "
        "(conformance). Holds only within the bounds listed per harness in the evidence; nothing outside them is claimed.")

# id -> (claim text, design ref)
CLAIMS = {
 "C07": ("Scenario on the real db19 transaction layer (HeapStor, synchronous checker): table key(a) unique(u), two transactions each "
         "adding a row with arbitrary 0..1-byte values in 5 interleavings (and key() tables; and updates of key/unique value): in every "
         "committed state no two rows share a key (incl. the empty key) or a non-empty unique value, refusals happen exactly on "
         "collisions, index scans and row counts equal the model (solver verdict over all byte values per interleaving).", "4 C07"),
 "C08": ("Scenario on the real db19 transaction layer: target key(k), source index(k) in target with mode block / cascade update / "
         "cascade deletes / cascade; one target row, 1..2 source rows with arbitrary 0..1-byte values, then delete target / change "
         "target key / change source value / insert source: accepted or refused exactly as Foreign Keys.md says, cascades applied, "
         "no orphan in the committed state (solver verdict over all byte values per mode and operation).", "4 C08"),
 "C11": ("ixbuf.Combine equals the specification table for all 40-bit offsets and flag pairs; Merge of 2..3 buffers (small buffers with "
         "arbitrary 1-byte keys; real-size 12/13-slot chunks with free entries at every order type relative to them, exercising "
         "pass-through and flush) with symbolic offsets and change kinds yields sorted unique keys, size bookkeeping, each slot == "
         "fold of Combine over the inputs in order, inputs unchanged; Insert histories and chunk split equal the sequential model.", "4 C11"),
 "C27": ("dnum Add/Sub for all 16-digit coefficient pairs, both signs, exponent differences {0,1,15,16,>=17} (thorough: all 0..16): "
         "|result - exact| <= 1 unit of the 16th digit of the larger operand (or of the result after a carry), via ghost unbounded "
         "integers; Mul for all coefficient pairs within 1 unit of the result (z3 NIA); Div case structure with div128 replaced by its "
         "assumed contract floor(1e16*a/b); overflow to inf / underflow to zero at the exponent limits; Compare == order of exact values.", "4 C27"),
 "C31": ("For every string of 0..2 (thorough 3) arbitrary bytes and each quoting mode, compile.Constant(SuStr(s).String()/Display) "
         "is an equal string; every unterminated literal (quote + 0..2 (thorough 3) arbitrary bytes without a closing quote, with or "
         "without escapes) is tok.Error for the lexer and is rejected by compile.Constant.", "4 C31"),
 "C32": ("For every input of 0..2 (thorough 3) arbitrary bytes the lexer reaches Eof within len+1 tokens without panic, positions "
         "strictly increase and token spans tile the input; compile.Constant on every source of 0..2 arbitrary bytes and of 3 "
         "(thorough 4) characters over a 24-symbol alphabet returns or panics with an ordinary value, never a Go runtime error.", "4 C32"),
 "C39": ("ordset and ranges (node capacity shrunk to 4 so splits/coalescing/leaf removal occur; and real capacity): one Insert from an "
         "arbitrary valid pre-state of stated shapes (0..16 entries, 1..4 leaves, full tree) with arbitrary keys of 0..1 bytes, and "
         "histories from empty: Contains/AnyInRange for an arbitrary probe equal the set / interval-union model, invariants (sorted, "
         "unique/disjoint, separators) re-established, result codes consistent. sortlist, bloom, roaring, shmap, lrucache, cache are "
         "NOT covered.", "4 C39"),
 "C41": ("The real server dispatch (doRequest -> request -> cmds[c]) on an unauthenticated connection: one request with arbitrary "
         "command byte and 0..3 (thorough 4) arbitrary argument bytes, with or without an outstanding nonce: the connection stays "
         "unauthenticated, every command outside {Auth, LibGet, Libraries, Nonce, SessionId, EndSession} is answered with an error, "
         "creates no token, leaves the other connection untouched and never terminates the process; Nonce->Auth as an unknown user, "
         "self-issued Token->Auth and a forged token do not authenticate (crypto/rand arbitrary, sha1 uninterpreted-functional).", "4 C41"),
 "C38": ("For all inputs within the stated lengths (src/sets/strings of 0..3-4 arbitrary bytes): tr.Replace(src, New(from), New(to)) "
         "equals a per-character reference (translate, squeeze, delete, complement, a-b ranges of width<=3); str.ToLower/ToUpper/"
         "Capitalize/CmpLower/EqualCI/CommonPrefix/HasPrefix/BeforeFirst/AfterFirst/BeforeLast/AfterLast/Cut/Subi/Subn/Split/Join "
         "equal their reference definitions; ascii classification/case/Digit for every byte and radix (solver verdict over all byte values).", "4 C38"),
 "C14": ("For every representable value: stor.Writer.Put1..5/PutStr/PutStrs and Reader.Get*, 5-byte small offsets, the mux zig-zag "
         "varint (all int64; length == varint.Len <= 10), size-prefixed strings/lists/records return exactly what was written and "
         "out-of-range Puts panic; records of 1..3 fields (empty, 1-2 arbitrary bytes, or fillers putting the total at the 0x100 "
         "(thorough: 0x10000) header-class boundary) read back field-for-field, Truncate keeps exactly the leading fields, and "
         "tblength/mode arithmetic is right for all nfields<=0x3fff, datasize<=1e6 (solver verdict over all values).", "4 C14"),
 "C12": ("For all records of 1..2 (thorough 3) fields of 0..2 (thorough 3) arbitrary bytes each: byte order of ixkey.Spec.Key == field "
         "order == Spec.Compare, equal keys iff equal tuples (modulo trailing empties), Decode/Decode1 recover the fields, HasPrefix/"
         "SplitPrefixSuffix/JoinPrefixSuffix/TruncFunc and db19.rangeEnd select exactly the keys whose leading fields match, incl. "
         "the Fields2 rule (solver verdict over all byte values per length class).", "4 C12"),
 "C26": ("For all int64 operand pairs of + and -, all int64 operands of unary minus and +1, all int64 x a stated set of "
         "multipliers/divisors for * and /: the integer fast paths of core.OpAdd/OpSub/OpMul/OpDiv/OpAdd1/OpUnaryMinus return the "
         "exact integer when it fits in int64 and never a wrapped integer otherwise (solver verdict over all values).", "4 C26"),
}

NA = {
 "C22": "quantifies over queries x optimizer strategies; needs parser+transform+float cost optimiser+every executor on symbolic tables: a whole-program symbolic run, no kernel states the property (DESIGN.md 5)",
 "C23": "same dependency as C22: contracts of Get/Select/Lookup are only observable by executing optimised query trees (DESIGN.md 5)",
 "C24": "the action code is three loops over query rows; its correctness is the query executor's (C22) plus the transaction layer's (C06) (DESIGN.md 5)",
 "C29": "quantifies over programs; program structure is not a scalar a solver can range over, running a fixed program list concretely would be testing (DESIGN.md 5)",
 "C43": "data-race freedom under the Go memory model: the engine explores interleavings at synchronisation operations only, which presupposes race freedom (DESIGN.md 5)",
}
NOT_YET = "check not built yet in this session (planned in DESIGN.md 4); not claimed"

checks = []
for p in props:
    i = p["id"]
    if i in CLAIMS:
        text, ref = CLAIMS[i]
        checks.append(dict(
            property_id=i,
            quick_cmd="./check %s --tier quick" % i,
            thorough_cmd="./check %s --tier thorough" % i,
            evidence_file="/verif/evidence/%s.json" % i,
            replay_cmd_template="./check --replay {path}",
            engine="symgo",
            level_claimed=dict(category="model_checking", text=text, design_ref="DESIGN.md " + ref),
            level_note=NOTE, technique=TECH))
na = []
for p in props:
    i = p["id"]
    if i not in CLAIMS:
        na.append(dict(property_id=i, reason=NA.get(i, NOT_YET)))
m = dict(
    version=1,
    setup_cmd="sh /verif/setup.sh",
    hooks=dict(guard="verif", enable="none needed: harnesses and the harness runtime are injected with go/packages and `go test -overlay`; no file of /repo is changed by the checks",
               baseline_off_cmd="sh /verif/tools/baseline.sh", source_commits=[], add_only=True),
    engines=[dict(name="symgo", path="/verif/engine", serves_properties=sorted(CLAIMS),
                  kind_free_text="symbolic executor for go/ssa (fork of golang.org/x/tools/go/ssa/interp v0.50.0) with SMT-LIB2 back end (z3 -in), bv and int arithmetic encodings, solver-driven path forking, native replay")],
    checks=checks,
    notes="See DESIGN.md. Fixes of genuine defects are 'fix:' commits in /repo, listed in known_findings.json as fixed.",
    not_applicable=na)
json.dump(m, open(os.path.join(V, "MANIFEST.json"), "w"), indent=1)
print("claimed:", len(checks), "not_applicable:", len(na))
