#!/usr/bin/env python3
"""Generates /verif/MANIFEST.json from the table below (kept in one place so it stays valid)."""
import json, os
V = os.path.dirname(os.path.dirname(os.path.abspath(__file__)))
props = [json.loads(l) for l in open(os.path.join(V, "properties.jsonl"))]

TECH = "bounded symbolic execution of the real go/ssa (own engine symgo) + SMT (z3) verdict per path; counterexamples replayed natively"
NOTE = ("Trusted: the symgo engine (fork of x/tools go/ssa/interp + SMT encoding), z3 4.8.12, the stubs listed per harness in the "
        "evidence file; guarded by native replay of every counterexample and of sampled solver models of passing paths "
        "(conformance). Holds only within the bounds listed per harness in the evidence; nothing outside them is claimed.")

# id -> (claim text, design ref)
CLAIMS = {
 "C25": ("ast EvalRaw (comparison on packed encodings) vs Eval on the row's values for shapes f op c, c op f, f op g, f [not] in (c,d), "
         "in-range, not, and/or of two comparisons, ternary; values boolean, numbers {0,-1,250} and all 3-digit integers of equal sign, "
         "strings of 0..1 bytes, dates/timestamps with arbitrary field bits; the empty-string-vs-non-string order exception assumed "
         "away: same result. The negative-number packed order is a known finding.", "4 C25"),
 "C30": ("The same expression built through the plain Factory and through the Folder and evaluated with the real Eval under one "
         "context: n-ary + - * / with 2..3 literal/identifier operands on the exact-arithmetic domain, unary and comparison "
         "operators, % << >>, and or | & ^ $, ternary, [not] in, range folding and is-or-is -> in, over int8 numbers, 0..1-byte strings "
         "and booleans: same value or both throw. Two folding defects are known findings; PropFold and codegen are NOT covered.", "4 C30"),
 "C17": ("PriorityQueue: one Get or Put from an arbitrary queue of 0..8 messages (real bufSize) with symbolic priorities and every "
         "equality pattern of transaction numbers: Get delivers the highest-priority message among the oldest of each transaction "
         "(ties: the earlier), removes exactly it, keeps the rest in order; concurrent scenario (bufSize shrunk to 2, 2 producers x 2 "
         "Puts, 1 consumer, <=2 pre-emptions, sync.Cond modelled exactly): every message delivered exactly once, per-transaction FIFO, "
         "no deadlock. A violating schedule cannot be forced natively (reported as inconclusive, exit 3).", "4 C17"),
 "C20": ("tools.squeeze removes exactly the fields of deleted columns and trims trailing empties for all 3-field records of 0..1 "
         "arbitrary bytes; compactTable from a cleanly closed in-memory database into another: table key(a) index(b) with 1..2 rows of "
         "arbitrary 1-byte values, empty or non-empty trailing field, optional deleted column: same rows, count and schema text, rows "
         "found through the rebuilt key index. Dump/load files and Compact's file handling are NOT covered.", "4 C20"),
 "C28": ("Compare/Equal/Hash over pairs and triples of values: bool, small int, SuInt64, 16-digit decimals, strings/concats/excepts of "
         "0..2 bytes, dates, timestamps, small objects: antisymmetry, transitivity (numbers |n|<10^16 and decimals), type order "
         "bool<number<string<date<object, Equal symmetric and implies Compare 0 and equal Hash, members found under any Equal key "
         "(number representations, objects with members in either order). The lossy 17-19 digit integer/decimal comparison is a "
         "known finding.", "4 C28"),
 "C34": ("Timestamps: scripts of 4 (thorough 5) events from {server clock tick with an arbitrary reading, direct server request, "
         "client A/B request through the local batching, batch expiry of A/B}, server start at any time of day, clients optionally "
         "mid-batch: all handed-out values pairwise distinct (date, time, extra byte) and each caller's sequence strictly increasing; "
         "the real ticker goroutine applies clock readings as the sequential model assumes. The expiry goroutine's loop body is a "
         "verbatim copy; SuDate.Plus is replaced by its contract at the ms-999 roll-over.", "4 C34"),
 "C36": ("SuObject: one of 17 operations (Add, Insert, Set, Put, Delete, Erase, PopFirst/Last, Find, Unique, Sort, Reverse, DeleteAll, "
         "Slice, Copy, SetDefault, Get) from a state of 0..3 list + 0..2 named members with keys around ListSize and colliding hash "
         "tags, symbolic values, and with fully symbolic int64 keys on small states, equals a Go slice + association list model incl. "
         "the migration of named integer keys into the list; Sort is stable and ordered by Compare; every mutator on a read-only "
         "object/record panics and changes nothing.", "4 C36"),
 "C05": ("repair.search on a store holding 0..4 (thorough 5) state records, each intact or damaged (scanner run to completion first, "
         "checkState replaced for the empty metadata of the harness states): never a Go runtime error, 'none' when no intact state, "
         "the newest intact state and its offset when intact states are the older ones; OpenDbStor opens a store only if it ends "
         "with the shutdown marker (8 arbitrary tail bytes, header only, or no tail): otherwise an error, never a crash or a database. "
         "repair.fix's file copy/rename, the concurrent scanner hand-off and mmap are outside.", "4 C05"),
 "C33": ("SuDate (arith=int, Go's time arithmetic replaced by exact classical-formula intrinsics validated against the real time "
         "package): NewDate accepts exactly the Gregorian dates and packs/unpacks the fields; Plus of a day offset (|k|<=61, thorough "
         "440), of hours/minutes/seconds/ms within +-1 day, of years and of months, from any valid date of years 400..2999 (case-split "
         "by century and month) equals an independent month-walking calendar reference and rejects exactly out-of-range results; "
         "MinusDays/julian day, MinusMs inverse, Compare chronological, String->DateFromLiteral identity, AddMs(k) == Plus(ms=k).", "4 C33"),
 "C04": ("writeState/readState round trip for all 40-bit metadata offsets (records with offsets not below themselves rejected); "
         "scenario: a HeapStor database with one of five schema histories (plain, table created+persisted+dropped, view, alter create, "
         "rename), 1..2 committed rows with arbitrary 1-byte values, merge/persist points chosen, an uncommitted transaction in flight: "
         "after clean Close and OpenDbStor, twice, schema text, views, both indexes, rows and counts equal those before closing; the "
         "dropped table and the uncommitted row do not appear. The mmap file layer is outside.", "4 C04"),
 "C13": ("Packed integers: every int64 (by sign and digit-count class) round-trips, PackSize == length, the bytes match an "
         "independent statement of the number format, SuInt64/decimal/small-int representations pack identically; every valid Dnum "
         "(all 16-digit coefficients, all exponents, zero, infinities) round-trips and pack order == dnum.Compare for non-negative, "
         "mixed-sign and equal-length negative pairs; dates/timestamps (all 32-bit words) and strings of 0..3 bytes round-trip and "
         "order; tag order bool < number < string < date; empty string smallest. The negative-prefix order defect is a known finding. "
         "Containers are NOT covered.", "4 C13"),
 "C01": ("Scenario on the real db19 transaction layer (HeapStor, synchronous checker, deterministic victim choice): one committed "
         "row and two overlapping update transactions, each one read (range scan of the key index, or keyed lookup that may miss) "
         "then one write (insert, or key-changing update) with arbitrary 1-byte values, in 4 interleavings (thorough: every read/write "
         "kind combination, 5 interleavings): every transaction that commits read what it would have read alone at its commit point "
         "(no lost update, phantom or write skew) and the final state equals the serial application in commit order.", "4 C01"),
 "C02": ("Scenario: a read transaction and an update transaction opened before another transaction changes 1 (thorough 1..2) rows and "
         "commits, merges and persists: at every point the reader sees exactly its start state (both indexes, lookups, counts), "
         "repeatedly, the writer sees that snapshot plus its own change, a later transaction sees the new state; arbitrary 1-byte values.", "4 C02"),
 "C03": ("Scenario: a transaction with 1 (thorough 1..2) changes ending by commit, explicit abort, conflict with an overlapping "
         "transaction that commits first, or commit after an unrelated commit: a fresh reader sees all of its changes iff its completion "
         "reported success and none otherwise, a failed transaction stays failed, Nrows/Size equal the visible rows and bytes.", "4 C03"),
 "C06": ("Scenario: table key(a) index(b); after every change of a transaction (output / key-changing or plain update / delete, "
         "2 (thorough 3) changes, arbitrary 1-byte values), after commit, after the merge and after a persist, each index holds exactly "
         "one entry per live row under that row's key in order, both indexes point at the same records, counts and sizes match.", "4 C06"),
 "C09": ("OverIter over a real Builder btree + immutable ixbuf layer + optional mutable layer with symbolic keys and layering-"
         "consistent add/update/delete entries, unrestricted or symbolic range, scripts of 3 Next/Prev steps with one Rewind / new "
         "overlay / modification: each step returns exactly the next live in-range key beyond the previous position with the newest "
         "offset, eof iff none and sticky; btree and ixbuf iterators alone incl. Seek. Skip-scan is NOT covered.", "4 C09"),
 "C10": ("btree Builder (0..8 symbolic ordered keys, split 2..4) and MergeAndSave (trees of 0..3 keys, batches of 1..2 changes, every "
         "placement, 4 split/length configurations): iteration, Check, node walk (separators, fan-out, sizes) and Lookup of a symbolic "
         "probe equal the model map, the old tree is unchanged; RangeFrac in [0,1] and 0 for empty ranges on 12..13-key trees built "
         "four ways.", "4 C10"),
 "C15": ("hamt as a persistent map: 3 keys with symbolic colliding hash digits, 3 ops from Put/Delete/Freeze+Mutable: Get/All on the "
         "current and on every frozen version equal the per-version model; persist cycles (put/drop/persist/reopen scripts, prologue "
         "chains up to maxChain, tombstones, lastMod filtering, flatten): after every WriteChain the original chain is unmodified, chain "
         "length/ages/clock match an independent nmerge model and ReadChain yields exactly the live entries.", "4 C15"),
 "C16": ("Scenario: three commits of one change each with merge and persist split into compute/apply exactly as the background "
         "goroutines split them, a commit landing in the gap, 6 schedules, arbitrary 1-byte values: after every state change both "
         "indexes and the Nrows/Size statistics equal the model of the committed changes applied in order.", "4 C16"),
 "C18": ("Stor.Alloc with 2 (thorough 3) concurrent threads under the engine's scheduler: interleaved at every atomic/lock operation "
         "with at most 2 pre-emptions, sizes and initial fill from a spread around the chunk boundary (thorough: every size 1..16, "
         "chunk 16): every allocation fails loudly or returns exactly n bytes inside one chunk, inside Size(), disjoint from the others. "
         "Exploration is exhaustive over schedules within the bound; a violating schedule cannot be forced natively (reported as "
         "inconclusive, exit 3, not as VIOLATION).", "4 C18"),
 "C19": ("A store with 1..2 (thorough 3) persisted states at fixed base + arbitrary 8-bit (thorough 16-bit) increasing times and "
         "optional filler: for an arbitrary requested time stateAsof / ReadTran.Asof return the newest state at or before it (the oldest "
         "if none) with that state's own offset, and previous/next visit the states in file order and report none past either end.", "4 C19"),
 "C21": ("In-memory Meta: 6 pre-states x 1 request from a pool of 33 (create, ensure, alter create/rename/drop, rename, drop, view; "
         "arbitrary fk mode; optional persist first) and 4 pre-states x 2 requests: a refused request leaves Meta unchanged; after an "
         "accepted one every table has a key, index columns exist, Fk and FkToHere match one-to-one, Schema.Check passes and "
         "Write+ReadMeta agrees with memory on schema text, columns, indexes, Fields, ContainsKey, fk links and views.", "4 C21"),
 "C37": ("36 (thorough 64) concrete patterns of the common subset, each with a hand-built AST for a naive backtracking reference "
         "matcher in the harness; subject = 0..3 (thorough 4) arbitrary bytes: Match/FirstMatch from every start/All/LastMatch at "
         "every position agree with the reference on found, span and groups 1..9; positions outside the subject never panic.", "4 C37"),
 "C42": ("The real builtin Transaction(read:/update:, block) with a recording dbms/transaction and a block that returns, block-"
         "returns, throws, completes or rolls back the transaction itself, or whose commit fails: completed exactly once iff the block "
         "finished, rolled back exactly once iff it threw, untouched if already ended, and the exception always propagates.", "4 C42"),
 "C44": ("Trigger enable/disable counting for every script of up to 4 calls; scenario with two tables linked by a cascading foreign "
         "key and recording triggers: one call per row actually changed (insert, update, delete, cascaded delete/update) in the changed "
         "table with that row's old/new value, none for an identical update or while disabled, and a throwing trigger leaves nothing "
         "committed; arbitrary 1-byte values.", "4 C44"),
 "C07": ("Scenario on the real db19 transaction layer (HeapStor, synchronous checker): table key(a) unique(u), two transactions each "
         "adding a row with arbitrary 0..1-byte values in 5 interleavings (and key() tables; and updates of key/unique value): in every "
         "committed state no two rows share a key (incl. the empty key) or a non-empty unique value, refusals happen exactly on "
         "collisions, index scans and row counts equal the model (solver verdict over all byte values per interleaving).", "4 C07"),
 "C08": ("Scenario on the real db19 transaction layer: target key(k), source index(k) in target with mode block / cascade update / "
         "cascade deletes / cascade; one target row, 1..2 source rows with arbitrary 0..1-byte values, then delete target / change "
         "target key / change source value / insert source: accepted or refused exactly as Foreign Keys.md says, cascades applied, "
         "no orphan in the committed state (solver verdict over all byte values per mode and operation).", "4 C08"),
 "C11": ("ixbuf.Combine equals the specification table for all 40-bit offsets and flag pairs; Merge of 2..3 buffers (small buffers with "
         "arbitrary 1-byte keys; real-size 12/13-slot chunks with free entries at every order type relative to them, exercising "
         "pass-through and flush) with symbolic offsets and change kinds yields sorted unique keys, size bookkeeping, each slot == "
         "fold of Combine over the inputs in order, inputs unchanged; Insert histories and chunk split equal the sequential model.", "4 C11"),
 "C27": ("dnum Add/Sub for all 16-digit coefficient pairs, both signs, exponent differences {0,1,15,16,>=17} (thorough: all 0..16): "
         "|result - exact| <= 1 unit of the 16th digit of the larger operand (or of the result after a carry), via ghost unbounded "
         "integers; Mul for all coefficient pairs within 1 unit of the result (z3 NIA); Div case structure with div128 replaced by its "
         "assumed contract floor(1e16*a/b); overflow to inf / underflow to zero at the exponent limits; Compare == order of exact values.", "4 C27"),
 "C31": ("For every string of 0..2 (thorough 3) arbitrary bytes and each quoting mode, compile.Constant(SuStr(s).String()/Display) "
         "is an equal string; every unterminated literal (quote + 0..2 (thorough 3) arbitrary bytes without a closing quote, with or "
         "without escapes) is tok.Error for the lexer and is rejected by compile.Constant.", "4 C31"),
 "C32": ("For every input of 0..2 (thorough 3) arbitrary bytes the lexer reaches Eof within len+1 tokens without panic, positions "
         "strictly increase and token spans tile the input; compile.Constant on every source of 0..2 arbitrary bytes and of 3 "
         "(thorough 4) characters over a 24-symbol alphabet returns or panics with an ordinary value, never a Go runtime error.", "4 C32"),
 "C39": ("ordset and ranges (node capacity shrunk to 4 so splits/coalescing/leaf removal occur; and real capacity): one Insert from an "
         "arbitrary valid pre-state of stated shapes (0..16 entries, 1..4 leaves, full tree) with arbitrary keys of 0..1 bytes, and "
         "histories from empty: Contains/AnyInRange for an arbitrary probe equal the set / interval-union model, invariants (sorted, "
         "unique/disjoint, separators) re-established, result codes consistent. sortlist (block size shrunk to 4, Finish+Sort path, "
         "0..17 values, two arbitrary): the iterator yields exactly the values in order; cache: Get(k) == getter(k) for every script "
         "of 4 gets incl. a key whose getter panics. bloom, roaring, shmap, lrucache and sortlist's worker goroutine are NOT covered.", "4 C39"),
 "C41": ("The real server dispatch (doRequest -> request -> cmds[c]) on an unauthenticated connection: one request with arbitrary "
         "command byte and 0..3 (thorough 4) arbitrary argument bytes, with or without an outstanding nonce: the connection stays "
         "unauthenticated, every command outside {Auth, LibGet, Libraries, Nonce, SessionId, EndSession} is answered with an error, "
         "creates no token, leaves the other connection untouched and never terminates the process; Nonce->Auth as an unknown user, "
         "self-issued Token->Auth and a forged token do not authenticate (crypto/rand arbitrary, sha1 uninterpreted-functional).", "4 C41"),
 "C38": ("For all inputs within the stated lengths (src/sets/strings of 0..3-4 arbitrary bytes): tr.Replace(src, New(from), New(to)) "
         "equals a per-character reference (translate, squeeze, delete, complement, a-b ranges of width<=3); str.ToLower/ToUpper/"
         "Capitalize/CmpLower/EqualCI/CommonPrefix/HasPrefix/BeforeFirst/AfterFirst/BeforeLast/AfterLast/Cut/Subi/Subn/Split/Join "
         "equal their reference definitions; ascii classification/case/Digit for every byte and radix (solver verdict over all byte values).", "4 C38"),
 "C14": ("For every representable value: stor.Writer.Put1..5/PutStr/PutStrs and Reader.Get*, 5-byte small offsets, the mux zig-zag "
         "varint (all int64; length == varint.Len <= 10), size-prefixed strings/lists/records return exactly what was written and "
         "out-of-range Puts panic; records of 1..3 fields (empty, 1-2 arbitrary bytes, or fillers putting the total at the 0x100 "
         "(thorough: 0x10000) header-class boundary) read back field-for-field, Truncate keeps exactly the leading fields, and "
         "tblength/mode arithmetic is right for all nfields<=0x3fff, datasize<=1e6 (solver verdict over all values).", "4 C14"),
 "C12": ("For all records of 1..2 (thorough 3) fields of 0..2 (thorough 3) arbitrary bytes each: byte order of ixkey.Spec.Key == field "
         "order == Spec.Compare, equal keys iff equal tuples (modulo trailing empties), Decode/Decode1 recover the fields, HasPrefix/"
         "SplitPrefixSuffix/JoinPrefixSuffix/TruncFunc and db19.rangeEnd select exactly the keys whose leading fields match, incl. "
         "the Fields2 rule (solver verdict over all byte values per length class).", "4 C12"),
 "C26": ("For all int64 operand pairs of + and -, all int64 operands of unary minus and +1, all int64 x a stated set of "
         "multipliers/divisors for * and /: the integer fast paths of core.OpAdd/OpSub/OpMul/OpDiv/OpAdd1/OpUnaryMinus return the "
         "exact integer when it fits in int64 and never a wrapped integer otherwise (solver verdict over all values).", "4 C26"),
}

NA = {
 "C22": "quantifies over queries x optimizer strategies; needs parser+transform+float cost optimiser+every executor on symbolic tables: a whole-program symbolic run, no kernel states the property (DESIGN.md 5)",
 "C23": "same dependency as C22: contracts of Get/Select/Lookup are only observable by executing optimised query trees (DESIGN.md 5)",
 "C24": "the action code is three loops over query rows; its correctness is the query executor's (C22) plus the transaction layer's (C06) (DESIGN.md 5)",
 "C29": "quantifies over programs; program structure is not a scalar a solver can range over, running a fixed program list concretely would be testing (DESIGN.md 5)",
 "C43": "data-race freedom under the Go memory model: the engine explores interleavings at synchronisation operations only, which presupposes race freedom (DESIGN.md 5)",
}
NA.update({
 "C35": "record rules need the Thread rule stack, observers and callable rule values driven through SuRecord; not attempted in the time available (DESIGN.md 8.6)",
 "C40": "a transport harness exists (harness/dbms/mux/c40_frames.go) but every path exhausts the engine's step budget, cause not found in time; disabled, nothing claimed. The wire encodings are covered by C14 (DESIGN.md 8.6)",
})
NOT_YET = "check not built in this session; not claimed"

# thorough commands are registered only for properties whose thorough tier ran clean on the
# unchanged tree (one id per line in tools/thorough_ok.txt)
try:
    THOROUGH_OK = set(open(os.path.join(V, "tools", "thorough_ok.txt")).read().split())
except OSError:
    THOROUGH_OK = set()

checks = []
for p in props:
    i = p["id"]
    if i in CLAIMS:
        text, ref = CLAIMS[i]
        entry = dict(
            property_id=i,
            quick_cmd="./check %s --tier quick" % i,
            thorough_cmd="./check %s --tier thorough" % i,
            evidence_file="/verif/evidence/%s.json" % i,
            replay_cmd_template="./check --replay {path}",
            engine="symgo",
            level_claimed=dict(category="model_checking", text=text, design_ref="DESIGN.md " + ref),
            level_note=NOTE, technique=TECH)
        if i not in THOROUGH_OK:
            del entry["thorough_cmd"]
        checks.append(entry)
na = []
for p in props:
    i = p["id"]
    if i not in CLAIMS:
        na.append(dict(property_id=i, reason=NA.get(i, NOT_YET)))
m = dict(
    version=1,
    setup_cmd="sh /verif/setup.sh",
    hooks=dict(guard="verif", enable="none needed: harnesses and the harness runtime are injected with go/packages and `go test -overlay`; no file of /repo is changed by the checks",
               baseline_off_cmd="sh /verif/tools/baseline.sh", source_commits=[], add_only=True),
    engines=[dict(name="symgo", path="/verif/engine", serves_properties=sorted(CLAIMS),
                  kind_free_text="symbolic executor for go/ssa (fork of golang.org/x/tools/go/ssa/interp v0.50.0) with SMT-LIB2 back end (z3 -in), bv and int arithmetic encodings, solver-driven path forking, native replay")],
    checks=checks,
    notes="See DESIGN.md. Fixes of genuine defects are 'fix:' commits in /repo, listed in known_findings.json as fixed.",
    not_applicable=na)
json.dump(m, open(os.path.join(V, "MANIFEST.json"), "w"), indent=1)
print("claimed:", len(checks), "not_applicable:", len(na))
