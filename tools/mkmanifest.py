#!/usr/bin/env python3
"""Generates /verif/MANIFEST.json from the table below (kept in one place so it stays valid)."""
import json, os
V = os.path.dirname(os.path.dirname(os.path.abspath(__file__)))
props = [json.loads(l) for l in open(os.path.join(V, "properties.jsonl"))]

TECH = "bounded symbolic execution of the real go/ssa (own engine symgo) + SMT (z3) verdict per path; counterexamples replayed natively"
NOTE = ("Trusted: the symgo engine (fork of x/tools go/ssa/interp + SMT encoding), z3 4.8.12, the stubs listed per harness in the "
        "evidence file; guarded by native replay of every counterexample and of sampled solver models of passing paths "
        "(conformance). Holds only within the bounds listed per harness in the evidence; nothing outside them is claimed.")

# id -> (claim text, design ref)
CLAIMS = {
 "C38": ("For all inputs within the stated lengths (src/sets/strings of 0..3-4 arbitrary bytes): tr.Replace(src, New(from), New(to)) "
         "equals a per-character reference (translate, squeeze, delete, complement, a-b ranges of width<=3); str.ToLower/ToUpper/"
         "Capitalize/CmpLower/EqualCI/CommonPrefix/HasPrefix/BeforeFirst/AfterFirst/BeforeLast/AfterLast/Cut/Subi/Subn/Split/Join "
         "equal their reference definitions; ascii classification/case/Digit for every byte and radix (solver verdict over all byte values).", "4 C38"),
 "C14": ("For every representable value: stor.Writer.Put1..5/PutStr/PutStrs and Reader.Get*, 5-byte small offsets, the mux zig-zag "
         "varint (all int64; length == varint.Len <= 10), size-prefixed strings/lists/records return exactly what was written and "
         "out-of-range Puts panic; records of 1..3 fields (empty, 1-2 arbitrary bytes, or fillers putting the total at the 0x100 "
         "(thorough: 0x10000) header-class boundary) read back field-for-field, Truncate keeps exactly the leading fields, and "
         "tblength/mode arithmetic is right for all nfields<=0x3fff, datasize<=1e6 (solver verdict over all values).", "4 C14"),
 "C12": ("For all records of 1..2 (thorough 3) fields of 0..2 (thorough 3) arbitrary bytes each: byte order of ixkey.Spec.Key == field "
         "order == Spec.Compare, equal keys iff equal tuples (modulo trailing empties), Decode/Decode1 recover the fields, HasPrefix/"
         "SplitPrefixSuffix/JoinPrefixSuffix/TruncFunc and db19.rangeEnd select exactly the keys whose leading fields match, incl. "
         "the Fields2 rule (solver verdict over all byte values per length class).", "4 C12"),
 "C26": ("For all int64 operand pairs of + and -, all int64 operands of unary minus and +1, all int64 x a stated set of "
         "multipliers/divisors for * and /: the integer fast paths of core.OpAdd/OpSub/OpMul/OpDiv/OpAdd1/OpUnaryMinus return the "
         "exact integer when it fits in int64 and never a wrapped integer otherwise (solver verdict over all values).", "4 C26"),
}

NA = {
 "C22": "quantifies over queries x optimizer strategies; needs parser+transform+float cost optimiser+every executor on symbolic tables: a whole-program symbolic run, no kernel states the property (DESIGN.md 5)",
 "C23": "same dependency as C22: contracts of Get/Select/Lookup are only observable by executing optimised query trees (DESIGN.md 5)",
 "C24": "the action code is three loops over query rows; its correctness is the query executor's (C22) plus the transaction layer's (C06) (DESIGN.md 5)",
 "C29": "quantifies over programs; program structure is not a scalar a solver can range over, running a fixed program list concretely would be testing (DESIGN.md 5)",
 "C43": "data-race freedom under the Go memory model: the engine explores interleavings at synchronisation operations only, which presupposes race freedom (DESIGN.md 5)",
}
NOT_YET = "check not built yet in this session (planned in DESIGN.md 4); not claimed"

checks = []
for p in props:
    i = p["id"]
    if i in CLAIMS:
        text, ref = CLAIMS[i]
        checks.append(dict(
            property_id=i,
            quick_cmd="./check %s --tier quick" % i,
            thorough_cmd="./check %s --tier thorough" % i,
            evidence_file="/verif/evidence/%s.json" % i,
            replay_cmd_template="./check --replay {path}",
            engine="symgo",
            level_claimed=dict(category="model_checking", text=text, design_ref="DESIGN.md " + ref),
            level_note=NOTE, technique=TECH))
na = []
for p in props:
    i = p["id"]
    if i not in CLAIMS:
        na.append(dict(property_id=i, reason=NA.get(i, NOT_YET)))
m = dict(
    version=1,
    setup_cmd="sh /verif/setup.sh",
    hooks=dict(guard="verif", enable="none needed: harnesses and the harness runtime are injected with go/packages and `go test -overlay`; no file of /repo is changed by the checks",
               baseline_off_cmd="sh /verif/tools/baseline.sh", source_commits=[], add_only=True),
    engines=[dict(name="symgo", path="/verif/engine", serves_properties=sorted(CLAIMS),
                  kind_free_text="symbolic executor for go/ssa (fork of golang.org/x/tools/go/ssa/interp v0.50.0) with SMT-LIB2 back end (z3 -in), bv and int arithmetic encodings, solver-driven path forking, native replay")],
    checks=checks,
    notes="See DESIGN.md. Fixes of genuine defects are 'fix:' commits in /repo, listed in known_findings.json as fixed.",
    not_applicable=na)
json.dump(m, open(os.path.join(V, "MANIFEST.json"), "w"), indent=1)
print("claimed:", len(checks), "not_applicable:", len(na))
