// symgo: bounded symbolic execution of gsuneido's go/ssa with an SMT solver.
// usage: symgo -spec spec.json -out result.json
package main

import (
	"encoding/json"
	"flag"
	"fmt"
	"os"

	"symgo/symgo"
)

func main() {
	specFile := flag.String("spec", "", "spec json")
	out := flag.String("out", "", "result json (default stdout)")
	flag.Parse()
	b, err := os.ReadFile(*specFile)
	if err != nil {
		fmt.Fprintln(os.Stderr, err)
		os.Exit(2)
	}
	var spec symgo.Spec
	if err := json.Unmarshal(b, &spec); err != nil {
		fmt.Fprintln(os.Stderr, err)
		os.Exit(2)
	}
	if spec.Repo == "" {
		spec.Repo = "/repo"
	}
	res := symgo.Run(&spec)
	if *out == "" {
		j, _ := json.MarshalIndent(res, "", " ")
		fmt.Println(string(j))
	} else if err := symgo.WriteResult(*out, res); err != nil {
		fmt.Fprintln(os.Stderr, err)
		os.Exit(2)
	}
	switch res.Status {
	case "ok":
		os.Exit(0)
	case "violations":
		os.Exit(1)
	}
	os.Exit(3)
}
