package symgo

import (
	"go/token"
	"go/types"
	"strings"

	"golang.org/x/tools/go/ssa"
)

// atomicIntrinsic handles sync/atomic methods and functions generically (single-threaded spike:
// every atomic op is just the plain op; the scheduler hook would go here).
func atomicIntrinsic(fn *ssa.Function, args []value) (value, bool) {
	name := fn.String()
	if !strings.HasPrefix(name, "(*sync/atomic.") && !strings.HasPrefix(name, "sync/atomic.") {
		return nil, false
	}
	meth := name[strings.LastIndex(name, ".")+1:]
	eng.yield()
	var cell *value
	var elemT types.Type
	if strings.HasPrefix(name, "(*sync/atomic.") {
		// receiver is pointer to struct; value field is the last field
		recv := args[0].(*value)
		st := (*recv).(structure)
		cell = &st[len(st)-1]
		rt := mustDeref(fn.Signature.Recv().Type()).Underlying().(*types.Struct)
		elemT = rt.Field(rt.NumFields() - 1).Type()
		args = args[1:]
	} else {
		// function form: first arg is *T
		cell = args[0].(*value)
		elemT = mustDeref(fn.Signature.Params().At(0).Type())
		args = args[1:]
		for _, p := range []string{"Load", "Store", "Add", "Swap", "CompareAndSwap", "And", "Or"} {
			if strings.HasPrefix(meth, p) {
				meth = p
				break
			}
		}
	}
	isValue := strings.HasPrefix(name, "(*sync/atomic.Value)")
	if strings.HasPrefix(name, "(*sync/atomic.Bool)") {
		b32 := func(v value) value {
			if v.(bool) {
				return uint32(1)
			}
			return uint32(0)
		}
		cur := (*cell).(uint32) != 0
		switch meth {
		case "Load":
			return cur, true
		case "Store":
			store(elemT, cell, b32(args[0]))
			return nil, true
		case "Swap":
			store(elemT, cell, b32(args[0]))
			return cur, true
		case "CompareAndSwap":
			if cur == args[0].(bool) {
				store(elemT, cell, b32(args[1]))
				return true, true
			}
			return false, true
		}
	}
	switch meth {
	case "Load":
		v := *cell
		if isValue && v == nil {
			return iface{}, true
		}
		return v, true
	case "Store":
		store(elemT, cell, args[0])
		return nil, true
	case "Add":
		nv := binop(token.ADD, elemT, *cell, args[0])
		store(elemT, cell, nv)
		return nv, true
	case "Swap":
		old := *cell
		if isValue && old == nil {
			old = iface{}
		}
		store(elemT, cell, args[0])
		return old, true
	case "CompareAndSwap":
		cur := *cell
		if isValue && cur == nil {
			cur = iface{}
		}
		eq := binop(token.EQL, elemT, cur, args[0])
		if decideBool(nil, eq) {
			store(elemT, cell, args[1])
			return true, true
		}
		return false, true
	case "And":
		old := *cell
		store(elemT, cell, binop(token.AND, elemT, old, args[0]))
		return old, true
	case "Or":
		old := *cell
		store(elemT, cell, binop(token.OR, elemT, old, args[0]))
		return old, true
	}
	panic(unsupported("atomic op " + name))
}

// prefixIntrinsic handles generic instantiations matched by name prefix.
func prefixIntrinsic(fn *ssa.Function, args []value) (value, bool) {
	name := fn.String()
	switch {
	case strings.HasPrefix(name, "slices.overlaps["):
		a, b := args[0].([]value), args[1].([]value)
		if len(a) == 0 || len(b) == 0 {
			return false, true
		}
		// compare element addresses
		a0, a1 := uintptrOf(&a[0]), uintptrOf(&a[len(a)-1])
		b0, b1 := uintptrOf(&b[0]), uintptrOf(&b[len(b)-1])
		return a0 <= b1 && b0 <= a1, true
	}
	return nil, false
}
