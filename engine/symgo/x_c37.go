package symgo

import "go/types"

// C37 (util/regex): exact-semantics intrinsics for the two bit-set membership tests
//
//	func matchHalfSet(set Pattern, c byte) bool { return c < 128 && set[c>>3]&(1<<(c&7)) != 0 }
//	func matchFullSet(set Pattern, c byte) bool { return set[c>>3]&(1<<(c&7)) != 0 }
//
// With a symbolic subject byte c the index set[c>>3] would be concretized (a 16/32-way fork,
// then a 2-way fork on the bit) for every class test of every thread of the matcher. The set is
// always concrete (the compiled pattern), so the result is a function of c alone: the stub
// evaluates the *same formula* for every byte value on the concrete set bytes and returns the
// disjunction of the member ranges as one boolean term (one 2-way fork at the caller). The set
// contents - what Compile/cclass produced - are still the real ones.
func init() {
	member := func(name string, nbytes int) externalFn {
		return func(fr *frame, a []value) value {
			set := strBytes(a[0])
			if len(set) < nbytes {
				panic(runtimeError("index out of range"))
			}
			bits := make([]byte, nbytes)
			for i := range bits {
				b, ok := set[i].(uint8)
				if !ok {
					panic(unsupported(name + " with a symbolic set"))
				}
				bits[i] = b
			}
			in := func(c int) bool {
				if c>>3 >= nbytes { // matchHalfSet: c < 128 &&
					return false
				}
				return bits[c>>3]&(1<<(uint(c)&7)) != 0
			}
			if c, ok := a[1].(uint8); ok {
				return in(int(c))
			}
			acc := tFalse
			for lo := 0; lo < 256; lo++ {
				if !in(lo) {
					continue
				}
				hi := lo
				for hi+1 < 256 && in(hi+1) {
					hi++
				}
				var t *Term
				if lo == hi {
					t = eqT(a[1], uint8(lo))
				} else {
					t = And(Not(ltT(a[1], uint8(lo))), Not(ltT(uint8(hi), a[1])))
				}
				acc = Or(acc, t)
				lo = hi
			}
			return mkVal(types.Bool, acc)
		}
	}
	p := modPath + "/util/regex."
	externals[p+"matchHalfSet"] = member("regex.matchHalfSet", 16)
	externals[p+"matchFullSet"] = member("regex.matchFullSet", 32)
}
