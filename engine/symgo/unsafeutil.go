package symgo

import "unsafe"

func uintptrOf(p *value) uintptr { return uintptr(unsafe.Pointer(p)) }
