package symgo

// C33 (core/sudate.go): engine extensions, int mode only.
//
//  1. intBinopExt: `a | b` / `a ^ b` / `a + b`-equivalent for two symbolic non-negative operands
//     whose set bits are provably disjoint (NewDate packs yr<<9 | mon<<5 | day and the time
//     word the same way): the result is exactly a + b.
//
//  2. Exact-semantics intrinsics for four leaf functions of Go's time package (1.26.5) whose
//     source uses Neri-Schneider multiply/shift tricks that z3's integer solver cannot digest:
//
//     time.dateToAbsDays, (time.absDays).split, (time.absYday).split, (time.absSeconds).days
//
//     They build the *documented classical equivalents* (the formulas in the comments of
//     time.go: century = (4d+3)/146097, cyear = (4cd+3)/1461, amonth = (5yd+461)/153 ...) with
//     interval-aware floor division (constant quotient folded; small quotient ranges as an ite
//     chain; multiples of the divisor pulled out of the dividend). The equality of the
//     trick and the classical form is verified exhaustively over the whole domain the first
//     time an intrinsic is used (c33SelfTest), and the term builders are run on constants for
//     every day of 20 selected years and every 97th day of years 1..3100 against the real time package. Anything outside the
//     preconditions (bv mode, unknown or huge intervals) falls back to the interpreted source.
//
//  3. fmt.Sprintf for formats made only of literal text and %d / %0Nd verbs with integer
//     arguments (SuDate.String): exact output, symbolic digits (via the strconv machinery).

import (
	"fmt"
	"go/token"
	"go/types"
	"math/big"
	"math/bits"
	"sort"
	"time"
)

func c33c(n int64) *Term { return ConstInt(bi(n)) }

// ---------------------------------------------------------------- linear forms

// c33lin decomposes an Int term into sum(coef_i * atom_i) + k (atoms are non-linear subterms).
type c33lin struct {
	coef map[*Term]*big.Int
	k    *big.Int
}

func c33linOf(t *Term) c33lin {
	l := c33lin{map[*Term]*big.Int{}, new(big.Int)}
	c33linAdd(&l, t, bi(1), 0)
	return l
}

// c33Opaque: sums that linear forms keep as one atom (the year and day-of-month of a civil date:
// as a whole they carry a tight interval that their parts do not).
var c33Opaque = map[*Term]bool{}

func c33linAdd(l *c33lin, t *Term, m *big.Int, depth int) {
	if t.IsConst() {
		l.k.Add(l.k, new(big.Int).Mul(m, t.Val))
		return
	}
	if depth < 200 && !c33Opaque[t] {
		switch t.Op {
		case "+":
			c33linAdd(l, t.Args[0], m, depth+1)
			c33linAdd(l, t.Args[1], m, depth+1)
			return
		case "-":
			c33linAdd(l, t.Args[0], m, depth+1)
			c33linAdd(l, t.Args[1], new(big.Int).Neg(m), depth+1)
			return
		case "*":
			if t.Args[0].IsConst() {
				c33linAdd(l, t.Args[1], new(big.Int).Mul(m, t.Args[0].Val), depth+1)
				return
			}
			if t.Args[1].IsConst() {
				c33linAdd(l, t.Args[0], new(big.Int).Mul(m, t.Args[1].Val), depth+1)
				return
			}
		}
	}
	if c, ok := l.coef[t]; ok {
		c.Add(c, m)
	} else {
		l.coef[t] = new(big.Int).Set(m)
	}
}

var c33Two64 = new(big.Int).Lsh(bi(1), 64)

// c33linMod is c33linAdd modulo 2^64: two's-complement wrap terms produced by wrapKind
// (ite(c, X, X +- k*2^64) and X mod 2^64) are replaced by X, so the result is only congruent
// to t modulo 2^64. c33unwrap turns that back into an equality when both lie in one window.
func c33linMod(l *c33lin, t *Term, m *big.Int, depth int) {
	if depth < 200 && !t.IsConst() && !c33Opaque[t] {
		switch t.Op {
		case "+":
			c33linMod(l, t.Args[0], m, depth+1)
			c33linMod(l, t.Args[1], m, depth+1)
			return
		case "-":
			c33linMod(l, t.Args[0], m, depth+1)
			c33linMod(l, t.Args[1], new(big.Int).Neg(m), depth+1)
			return
		case "*":
			if t.Args[0].IsConst() {
				c33linMod(l, t.Args[1], new(big.Int).Mul(m, t.Args[0].Val), depth+1)
				return
			}
			if t.Args[1].IsConst() {
				c33linMod(l, t.Args[0], new(big.Int).Mul(m, t.Args[1].Val), depth+1)
				return
			}
		case "mod":
			if t.Args[1].IsConst() && t.Args[1].Val.Cmp(c33Two64) == 0 {
				c33linMod(l, t.Args[0], m, depth+1)
				return
			}
		case "ite":
			if isIntSort(t.Sort) {
				la := c33lin{map[*Term]*big.Int{}, new(big.Int)}
				lb := c33lin{map[*Term]*big.Int{}, new(big.Int)}
				c33linMod(&la, t.Args[1], bi(1), depth+1)
				c33linMod(&lb, t.Args[2], bi(1), depth+1)
				if c33sameCoefs(la, lb) && new(big.Int).Mod(new(big.Int).Sub(la.k, lb.k), c33Two64).Sign() == 0 {
					for a, c := range la.coef {
						c33addCoef(l, a, new(big.Int).Mul(m, c))
					}
					l.k.Add(l.k, new(big.Int).Mul(m, la.k))
					return
				}
			}
		}
	}
	if t.IsConst() {
		l.k.Add(l.k, new(big.Int).Mul(m, t.Val))
		return
	}
	c33addCoef(l, t, m)
}

func c33addCoef(l *c33lin, t *Term, m *big.Int) {
	if c, ok := l.coef[t]; ok {
		c.Add(c, m)
	} else {
		l.coef[t] = new(big.Int).Set(m)
	}
}

func c33sameCoefs(a, b c33lin) bool {
	for t, c := range a.coef {
		if c.Sign() == 0 {
			continue
		}
		if d, ok := b.coef[t]; !ok || d.Cmp(c) != 0 {
			return false
		}
	}
	for t, c := range b.coef {
		if c.Sign() == 0 {
			continue
		}
		if d, ok := a.coef[t]; !ok || d.Cmp(c) != 0 {
			return false
		}
	}
	return true
}

// c33unwrap: if t (known to lie in [0,2^64) or in [-2^63,2^63)) is congruent modulo 2^64 to a
// wrap-free linear form L that lies in the same window, then t = L.
func c33unwrap(t *Term) *Term {
	if t.IsConst() {
		return t
	}
	it := iv(t)
	if it.lo == nil {
		return t
	}
	l := c33lin{map[*Term]*big.Int{}, new(big.Int)}
	c33linMod(&l, t, bi(1), 0)
	// reduce the constant into the window so that L itself has a chance to be inside
	L := l.term()
	iL := iv(L)
	if iL.lo == nil {
		return t
	}
	half := new(big.Int).Lsh(bi(1), 63)
	// shift L by a multiple of 2^64 into the window of t
	var wlo, whi *big.Int
	switch {
	case it.lo.Sign() >= 0 && it.hi.Cmp(c33Two64) < 0:
		wlo, whi = bi(0), new(big.Int).Sub(c33Two64, bi(1))
	case it.lo.Cmp(new(big.Int).Neg(half)) >= 0 && it.hi.Cmp(half) < 0:
		wlo, whi = new(big.Int).Neg(half), new(big.Int).Sub(half, bi(1))
	default:
		return t
	}
	shift := c33floor(new(big.Int).Sub(iL.lo, wlo), 1)
	shift, _ = new(big.Int).DivMod(shift, c33Two64, new(big.Int))
	if shift.Sign() != 0 {
		l.k.Sub(l.k, new(big.Int).Mul(shift, c33Two64))
		L = l.term()
		iL = iv(L)
		if iL.lo == nil {
			return t
		}
	}
	if iL.lo.Cmp(wlo) >= 0 && iL.hi.Cmp(whi) <= 0 {
		return L
	}
	return t
}

func (l c33lin) atoms() []*Term {
	as := make([]*Term, 0, len(l.coef))
	for a := range l.coef {
		as = append(as, a)
	}
	sort.Slice(as, func(i, j int) bool { return as[i].id < as[j].id })
	return as
}

// term rebuilds a (normalised) term; intervals come from IntBin's propagation.
func (l c33lin) term() *Term {
	var r *Term
	for _, a := range l.atoms() {
		c := l.coef[a]
		if c.Sign() == 0 {
			continue
		}
		p := IntBin("*", ConstInt(c), a)
		if r == nil {
			r = p
		} else {
			r = IntBin("+", r, p)
		}
	}
	if r == nil {
		return ConstInt(l.k)
	}
	if l.k.Sign() != 0 {
		r = IntBin("+", r, ConstInt(l.k))
	}
	return r
}

// c33norm re-associates a linear term (cancels +A ... -A chains); keeps the tighter interval.
func c33norm(t *Term) *Term {
	if t.IsConst() {
		return t
	}
	old := iv(t)
	n := c33linOf(t).term()
	if old.lo != nil {
		ni := iv(n)
		if ni.lo == nil || ni.lo.Cmp(old.lo) < 0 || ni.hi.Cmp(old.hi) > 0 {
			lo, hi := old.lo, old.hi
			if ni.lo != nil {
				if ni.lo.Cmp(lo) > 0 {
					lo = ni.lo
				}
				if ni.hi.Cmp(hi) < 0 {
					hi = ni.hi
				}
			}
			if !n.IsConst() {
				ivals[n] = ival{lo, hi}
			}
		}
	}
	return n
}

func c33floor(x *big.Int, c int64) *big.Int {
	q, _ := new(big.Int).DivMod(x, bi(c), new(big.Int)) // euclidean = floor for c > 0
	return q
}

// c33div returns floor(a / c) for a constant c > 0 (mathematical integers).
func c33div(a *Term, c int64) *Term {
	if c == 1 {
		return a
	}
	a = c33unwrap(a)
	q := c33div1(a, c)
	// the quotient lies in [floor(lo/c), floor(hi/c)] of the dividend's interval
	if ia := iv(a); ia.lo != nil && !q.IsConst() {
		c33tighten(q, c33floor(ia.lo, c), c33floor(ia.hi, c))
	}
	return q
}

// c33tighten intersects the recorded interval of t with [lo,hi] (a fact about t's value).
func c33tighten(t *Term, lo, hi *big.Int) {
	if i := iv(t); i.lo != nil {
		if i.lo.Cmp(lo) > 0 {
			lo = i.lo
		}
		if i.hi.Cmp(hi) < 0 {
			hi = i.hi
		}
	}
	if lo.Cmp(hi) <= 0 {
		ivals[t] = ival{lo, hi}
	}
	// t = atom + k: the same fact about the atom
	if t.Op == "+" || t.Op == "-" {
		if l := c33linOf(t); len(l.coef) == 1 {
			for at, co := range l.coef {
				if co.Cmp(bi(1)) == 0 && at != t && !at.IsConst() {
					c33tighten(at, new(big.Int).Sub(lo, l.k), new(big.Int).Sub(hi, l.k))
				}
			}
		}
	}
}

func c33div1(a *Term, c int64) *Term {
	// floor((g*X) / (g*c')) = floor(X / c') when every coefficient and the constant are multiples of g
	if l := c33linOf(a); len(l.coef) > 0 {
		g := new(big.Int).Abs(l.k)
		g.GCD(nil, nil, g, bi(c))
		for _, co := range l.coef {
			g.GCD(nil, nil, g, new(big.Int).Abs(co))
		}
		if g.Cmp(bi(1)) > 0 && g.Cmp(bi(c)) < 0 {
			r := c33lin{map[*Term]*big.Int{}, new(big.Int).Quo(l.k, g)}
			for at, co := range l.coef {
				r.coef[at] = new(big.Int).Quo(co, g)
			}
			return c33div1(r.term(), c/g.Int64())
		}
	}
	cb := bi(c)
	// pull out the part of the dividend that is a multiple of c:
	// floor((c*X + R) / c) = X + floor(R / c)   (X integer)
	l := c33linOf(a)
	out := c33lin{map[*Term]*big.Int{}, new(big.Int)}
	rest := c33lin{map[*Term]*big.Int{}, new(big.Int)}
	for _, at := range l.atoms() {
		co := l.coef[at]
		if co.Sign() == 0 {
			continue
		}
		if new(big.Int).Mod(co, cb).Sign() == 0 {
			out.coef[at] = new(big.Int).Quo(co, cb)
		} else {
			rest.coef[at] = co
		}
	}
	kq, kr := new(big.Int).DivMod(l.k, cb, new(big.Int))
	out.k = kq
	rest.k = kr
	if len(rest.coef) == 0 {
		return out.term() // kr in [0,c): floor(kr/c) = 0
	}
	// pull out only when the quotient of what remains needs no div (constant, small case
	// table); otherwise the plain quotient keeps dividend and quotient visibly related
	if qr := c33divRaw(rest.term(), c); qr.Op != "div" {
		return IntBin("+", out.term(), qr)
	}
	// otherwise pull out only the constant multiple of c (keeps huge epoch constants out of the div)
	if kq.Sign() != 0 {
		l.k = kr
		return IntBin("+", c33divRaw(l.term(), c), ConstInt(kq))
	}
	return c33divRaw(c33norm(a), c)
}

func c33divRaw(a *Term, c int64) *Term {
	ia := iv(a)
	// a = coef*x + k with x ranging over at most 13 values: tabulate floor(a/c) over x
	if l := c33linOf(a); len(l.coef) == 1 {
		for x, co := range l.coef {
			ix := iv(x)
			if ix.lo == nil || new(big.Int).Sub(ix.hi, ix.lo).Cmp(bi(12)) > 0 || co.Sign() == 0 {
				break
			}
			val := func(xv *big.Int) *big.Int {
				return c33floor(new(big.Int).Add(new(big.Int).Mul(co, xv), l.k), c)
			}
			r := ConstInt(val(ix.hi))
			lo, hi := val(ix.hi), val(ix.hi)
			for xv := new(big.Int).Sub(ix.hi, bi(1)); xv.Cmp(ix.lo) >= 0; xv = new(big.Int).Sub(xv, bi(1)) {
				v := val(xv)
				if v.Cmp(lo) < 0 {
					lo = v
				}
				if v.Cmp(hi) > 0 {
					hi = v
				}
				r = Ite(IntCmp("<=", x, ConstInt(xv)), ConstInt(v), r)
			}
			if !r.IsConst() {
				setIv(r, lo, hi)
			}
			return r
		}
	}
	if ia.lo != nil {
		qlo, qhi := c33floor(ia.lo, c), c33floor(ia.hi, c)
		span := new(big.Int).Sub(qhi, qlo)
		if span.Sign() == 0 {
			return ConstInt(qlo)
		}
		if span.Cmp(bi(12)) <= 0 {
			// q = the k in [qlo,qhi] with c*k <= a < c*(k+1): linear ite chain instead of div
			r := ConstInt(qhi)
			for k := new(big.Int).Sub(qhi, bi(1)); k.Cmp(qlo) >= 0; k = new(big.Int).Sub(k, bi(1)) {
				bound := new(big.Int).Mul(new(big.Int).Add(k, bi(1)), bi(c))
				r = Ite(IntCmp("<", a, ConstInt(bound)), ConstInt(k), r)
			}
			if !r.IsConst() {
				setIv(r, qlo, qhi)
			}
			return r
		}
	}
	return IntBin("div", a, c33c(c))
}

// c33mod returns a mod c (c > 0), as a - c*floor(a/c).
func c33mod(a *Term, c int64) *Term {
	a = c33unwrap(a)
	q := c33div(a, c)
	r := c33norm(IntBin("-", a, IntBin("*", c33c(c), q)))
	if !r.IsConst() {
		i := iv(r)
		if i.lo == nil || i.lo.Sign() < 0 || i.hi.Cmp(bi(c-1)) > 0 {
			lo, hi := bi(0), bi(c-1)
			if i.lo != nil {
				if i.lo.Cmp(lo) > 0 {
					lo = i.lo
				}
				if i.hi.Cmp(hi) < 0 {
					hi = i.hi
				}
			}
			ivals[r] = ival{lo, hi}
		}
	}
	return r
}

// c33bounded reports whether the interval of t is known and within [lo,hi].
func c33bounded(t *Term, lo, hi *big.Int) bool {
	i := iv(t)
	return i.lo != nil && i.lo.Cmp(lo) >= 0 && i.hi.Cmp(hi) <= 0
}

// ---------------------------------------------------------------- the classical calendar terms

const (
	c33AbsYears = 292277022400 // time.absoluteYears
	c33MarDec   = 306          // time.marchThruDecember
)

// c33DateToAbsDays: year (any, within ±1e9), month in [1,12] (term), day (term) -> absolute days
// jf is 1 for January/February else 0 (term or constant).
func c33DateToAbsDays(year, month, day *Term) *Term {
	var jf *Term
	if month.IsConst() {
		if month.Val.Cmp(bi(3)) < 0 {
			jf = c33c(1)
		} else {
			jf = c33c(0)
		}
	} else {
		jf = Ite(IntCmp("<", month, c33c(3)), c33c(1), c33c(0))
		setIv(jf, bi(0), bi(1))
	}
	amonth := IntBin("+", month, IntBin("*", c33c(12), jf))
	y := IntBin("+", IntBin("-", year, jf), c33c(c33AbsYears))
	ayday := c33div(IntBin("-", IntBin("*", c33c(153), amonth), c33c(457)), 5)
	century := c33div(y, 100)
	cyear := c33mod(y, 100)
	cday := c33div(IntBin("*", c33c(1461), cyear), 4)
	centurydays := c33div(IntBin("*", c33c(146097), century), 4)
	return c33norm(IntBin("-", IntBin("+", IntBin("+", IntBin("+", centurydays, cday), ayday), day), c33c(1)))
}

// c33SplitDays: absolute days -> (century, cyear, ayday)
func c33SplitDays(days *Term) (century, cyear, ayday *Term) {
	d := IntBin("+", IntBin("*", c33c(4), days), c33c(3))
	century = c33div(d, 146097)
	r := c33mod(d, 146097)
	cdays := c33div(r, 4)
	e := IntBin("+", IntBin("*", c33c(4), cdays), c33c(3))
	cyear = c33div(e, 1461)
	ayday = c33div(c33mod(e, 1461), 4)
	if !cyear.IsConst() {
		ivals[cyear] = ival{bi(0), bi(99)}
	}
	if !ayday.IsConst() {
		ivals[ayday] = ival{bi(0), bi(365)}
	}
	return
}

// c33SplitYday: March-based day of year -> (amonth in [3,14], mday in [1,31])
func c33SplitYday(ayday *Term) (amonth, mday *Term) {
	f := IntBin("+", IntBin("*", c33c(5), ayday), c33c(461))
	amonth = c33div(f, 153)
	mday = IntBin("+", c33c(1), c33div(c33mod(f, 153), 5))
	return
}

// c33MonthOfYday: the standard month (1..12) as a function of the March-based day of year in
// [0,366]: an ite chain over the month starts (table computed with Go's own formulas).
func c33MonthOfYday(ayday *Term) *Term {
	goMonth := func(yd uint32) int64 {
		d := 2141*yd + 197913
		m := int64(d >> 16)
		if yd >= c33MarDec {
			m -= 12
		}
		return m
	}
	if ayday.IsConst() {
		return c33c(goMonth(uint32(ayday.Val.Int64())))
	}
	r := c33c(goMonth(366))
	for yd := int64(365); yd >= 0; yd-- {
		if goMonth(uint32(yd)) != goMonth(uint32(yd+1)) {
			r = Ite(IntCmp("<", ayday, c33c(yd+1)), c33c(goMonth(uint32(yd))), r)
		}
	}
	if !r.IsConst() {
		ivals[r] = ival{bi(1), bi(12)}
	}
	return r
}

// c33CivilOf: (year, month, day) of an absolute day number, exactly as Time.Year/Month/Day compute
// them. The triple is remembered: time.dateToAbsDays applied to exactly these three terms is the
// day number itself (days-of-civil is the left inverse of civil-of-days; checked for every day of
// years -200..3500 against the real time package in c33SelfTest, and only used inside that range).
var c33Civil = map[[3]*Term]*Term{}

func c33CivilOf(days *Term) (y, m, d *Term) {
	cen, cy, ay := c33SplitDays(days)
	jf := Ite(IntCmp("<=", c33c(c33MarDec), ay), c33c(1), c33c(0))
	if !jf.IsConst() {
		setIv(jf, bi(0), bi(1))
	}
	y = c33norm(IntBin("+", IntBin("+", IntBin("-", IntBin("*", c33c(100), cen), c33c(c33AbsYears)), cy), jf))
	m = c33MonthOfYday(ay)
	_, d = c33SplitYday(ay)
	d = c33norm(d)
	if id := iv(days); id.lo != nil && !days.IsConst() && !y.IsConst() {
		// the year is monotone in the day number
		ylo, _, _ := c33CivilOf(ConstInt(id.lo))
		yhi, _, _ := c33CivilOf(ConstInt(id.hi))
		c33tighten(y, ylo.Val, yhi.Val)
	}
	if !days.IsConst() {
		if !y.IsConst() {
			c33Opaque[y] = true
		}
		if !d.IsConst() {
			c33Opaque[d] = true
		}
		c33Civil[[3]*Term{y, m, d}] = days
	}
	return
}

// absolute day numbers of -0200-01-01 and 3500-12-31 (the verified range of the inverse law)
var c33CivilLo, c33CivilHi *big.Int

func c33Norm(hi, lo *Term, base int64) (nhi, nlo *Term) {
	q := c33div(lo, base)
	nhi = c33norm(IntBin("+", hi, q))
	nlo = c33mod(lo, base)
	return
}

// ---------------------------------------------------------------- self test

var c33Tested bool

func c33SelfTest() {
	if c33Tested {
		return
	}
	c33Tested = true
	// (a) Go's multiply/shift forms == the classical forms, over the whole domain
	for r := uint32(0); r < 146097; r++ {
		cd := r | 3
		hi, lo := bits.Mul32(2939745, cd)
		cdays := r / 4
		e := 4*cdays + 3
		if hi != e/1461 || lo/2939745/4 != e%1461/4 {
			panic(fmt.Sprintf("x_c33: absDays.split trick differs from the classical form at %d", r))
		}
	}
	for yd := uint32(0); yd <= 366; yd++ {
		d := 2141*yd + 197913
		f := 5*yd + 461
		if d>>16 != f/153 || 1+(d&0xFFFF)/2141 != 1+f%153/5 {
			panic(fmt.Sprintf("x_c33: absYday.split trick differs from the classical form at %d", yd))
		}
	}
	for am := uint32(3); am <= 14; am++ {
		if (979*am-2919)>>5 != (153*am-457)/5 {
			panic("x_c33: dateToAbsDays month trick differs from the classical form")
		}
	}
	// (a1) time.norm = floor division, on a sample grid (copy of the Go 1.26.5 source)
	goNorm := func(hi, lo, base int) (int, int) {
		if lo < 0 {
			n := (-lo-1)/base + 1
			hi -= n
			lo += n * base
		}
		if lo >= base {
			n := lo / base
			hi += n
			lo -= n * base
		}
		return hi, lo
	}
	for _, base := range []int{12, 24, 60, 1000000000} {
		for _, lo := range []int{-3*base - 1, -3 * base, -base - 1, -base, -base + 1, -1, 0, 1, base - 1, base, base + 1, 2*base - 1, 2 * base, 5*base + 7, -5*base - 7, 123456789012, -123456789012} {
			h1, l1 := goNorm(17, lo, base)
			nh, nl := c33Norm(c33c(17), c33c(int64(lo)), int64(base))
			if !nh.IsConst() || !nl.IsConst() || nh.Val.Int64() != int64(h1) || nl.Val.Int64() != int64(l1) {
				panic(fmt.Sprintf("x_c33: norm differs at lo=%d base=%d", lo, base))
			}
		}
	}
	// (a2) days-of-civil(civil-of-days(n)) = n for every day of years -200..3500 (real time package)
	for t, end := time.Date(-200, 1, 1, 0, 0, 0, 0, time.UTC), time.Date(3501, 1, 1, 0, 0, 0, 0, time.UTC); t.Before(end); t = t.AddDate(0, 0, 1) {
		y, m, d := t.Date()
		if !time.Date(y, m, d, 0, 0, 0, 0, time.UTC).Equal(t) {
			panic(fmt.Sprintf("x_c33: time.Date(t.Date()) != t at %v", t))
		}
	}
	c33CivilLo = c33DateToAbsDays(c33c(-200), c33c(1), c33c(1)).Val
	c33CivilHi = c33DateToAbsDays(c33c(3500), c33c(12), c33c(31)).Val
	// (b) the term builders, run on constants, against the real time package
	t := time.Date(1, 1, 1, 0, 0, 0, 0, time.UTC)
	end := time.Date(3101, 1, 1, 0, 0, 0, 0, time.UTC)
	var base *big.Int // absolute days of 0001-01-01
	full := map[int]bool{1: true, 4: true, 100: true, 400: true, 1600: true, 1699: true, 1700: true, 1701: true,
		1900: true, 1999: true, 2000: true, 2001: true, 2004: true, 2023: true, 2024: true, 2100: true,
		2399: true, 2400: true, 2999: true, 3000: true}
	n := int64(-1)
	for ; t.Before(end); t = t.AddDate(0, 0, 1) {
		n++
		if n != 0 && n%97 != 0 && !full[t.Year()] {
			continue
		}
		y, m, d := t.Date()
		days := c33DateToAbsDays(c33c(int64(y)), c33c(int64(m)), c33c(int64(d)))
		if !days.IsConst() {
			panic("x_c33: self test: non-constant result")
		}
		if base == nil {
			base = days.Val
		}
		if new(big.Int).Sub(days.Val, base).Int64() != n {
			panic(fmt.Sprintf("x_c33: self test: dateToAbsDays wrong at %v", t))
		}
		cen, cy, ay := c33SplitDays(days)
		am, md := c33SplitYday(ay)
		jf := int64(0)
		if ay.Val.Int64() >= c33MarDec {
			jf = 1
		}
		yy := new(big.Int).Sub(new(big.Int).Mul(cen.Val, bi(100)), bi(c33AbsYears)).Int64() + cy.Val.Int64() + jf
		mm := am.Val.Int64() - 12*jf
		if yy != int64(y) || mm != int64(m) || md.Val.Int64() != int64(d) {
			panic(fmt.Sprintf("x_c33: self test: split wrong at %v: %d-%d-%d", t, yy, mm, md.Val.Int64()))
		}
	}
}

// ---------------------------------------------------------------- registration

func c33Body(fr *frame, name string, self externalFn, a []value) value {
	delete(externals, name)
	defer func() { externals[name] = self }()
	return callSSA(fr.i, fr.caller, token.NoPos, fr.fn, a, nil)
}

func c33AnySym(a []value) bool {
	for _, v := range a {
		if hasSym(v) {
			return true
		}
	}
	return false
}

var c33Big = new(big.Int).Lsh(bi(1), 61)

func init() {
	reg := func(name string, f func(fr *frame, a []value) value) {
		var self externalFn
		self = func(fr *frame, a []value) value {
			if IntMode && c33AnySym(a) {
				c33SelfTest()
				if r := f(fr, a); r != nil {
					return r
				}
			}
			return c33Body(fr, name, self, a)
		}
		externals[name] = self
	}
	reg("time.dateToAbsDays", func(fr *frame, a []value) value {
		year, month, day := intTermOf(a[0]), intTermOf(a[1]), intTermOf(a[2])
		lim := bi(1000000000)
		nlim := new(big.Int).Neg(lim)
		if !c33bounded(year, nlim, lim) || !c33bounded(month, bi(1), bi(12)) || !c33bounded(day, nlim, lim) {
			return nil
		}
		if n, ok := c33Civil[[3]*Term{c33norm(year), c33norm(month), c33norm(day)}]; ok && c33bounded(n, c33CivilLo, c33CivilHi) {
			return mkIntVal(types.Uint64, wrapKind(types.Uint64, n))
		}
		days := c33DateToAbsDays(year, month, day)
		return mkIntVal(types.Uint64, wrapKind(types.Uint64, days))
	})
	reg("(time.absDays).split", func(fr *frame, a []value) value {
		days := intTermOf(a[0])
		if !c33bounded(days, bi(0), c33Big) {
			return nil
		}
		cen, cy, ay := c33SplitDays(days)
		return tuple{mkIntVal(types.Uint64, cen), mkIntVal(types.Int, cy), mkIntVal(types.Int, ay)}
	})
	reg("(time.absYday).split", func(fr *frame, a []value) value {
		ay := intTermOf(a[0])
		if !c33bounded(ay, bi(0), bi(366)) {
			return nil
		}
		am, md := c33SplitYday(ay)
		return tuple{mkIntVal(types.Int, am), mkIntVal(types.Int, md)}
	})
	// Time.Month / Time.Year: same computation as the source (absSec -> days -> split), with the
	// month written as a function of the March-based day of year (so that its interval is [1,12])
	// and the year sum normalised (the +-absoluteYears constants cancel).
	timeDays := func(fr *frame, a []value) *Term {
		recv := fr.fn.Signature.Recv().Type()
		absFn := fr.fn.Prog.LookupMethod(recv, fr.fn.Pkg.Pkg, "absSec")
		if absFn == nil {
			return nil
		}
		absV := callSSA(fr.i, fr, token.NoPos, absFn, []value{a[0]}, nil)
		if !isSym(absV) {
			return nil
		}
		abs := intTermOf(absV)
		if !c33bounded(abs, bi(0), new(big.Int).Lsh(bi(1), 64)) {
			return nil
		}
		days := c33div(abs, 86400)
		if !c33bounded(days, bi(0), c33Big) {
			return nil
		}
		return days
	}
	reg("(time.Time).Month", func(fr *frame, a []value) value {
		days := timeDays(fr, a)
		if days == nil {
			return nil
		}
		_, m, _ := c33CivilOf(days)
		return mkIntVal(types.Int, m)
	})
	reg("(time.Time).Year", func(fr *frame, a []value) value {
		days := timeDays(fr, a)
		if days == nil {
			return nil
		}
		y, _, _ := c33CivilOf(days)
		return mkIntVal(types.Int, wrapKind(types.Int, y))
	})
	reg("(time.Time).Day", func(fr *frame, a []value) value {
		days := timeDays(fr, a)
		if days == nil {
			return nil
		}
		_, _, d := c33CivilOf(days)
		return mkIntVal(types.Int, d)
	})
	// time.norm(hi, lo, base): nhi = hi + floor(lo/base), nlo = lo mod base (no int overflow inside
	// the stated intervals); checked against a copy of the source on samples in c33SelfTest.
	reg("time.norm", func(fr *frame, a []value) value {
		base, ok := a[2].(int)
		if !ok || base <= 0 {
			return nil
		}
		lim := new(big.Int).Lsh(bi(1), 61)
		nlim := new(big.Int).Neg(lim)
		hi, lo := intTermOf(a[0]), intTermOf(a[1])
		if !c33bounded(hi, nlim, lim) || !c33bounded(lo, nlim, lim) {
			return nil
		}
		nhi, nlo := c33Norm(hi, lo, int64(base))
		return tuple{mkIntVal(types.Int, nhi), mkIntVal(types.Int, nlo)}
	})
	reg("(time.absSeconds).days", func(fr *frame, a []value) value {
		abs := intTermOf(a[0])
		if !c33bounded(abs, bi(0), new(big.Int).Lsh(bi(1), 64)) {
			return nil
		}
		return mkIntVal(types.Uint64, c33div(abs, 86400))
	})
}

// ---------------------------------------------------------------- disjoint-bit OR/XOR

// c33tz returns k such that t is provably a multiple of 2^k (by term structure), capped at 64.
func c33tz(t *Term, depth int) int {
	if t.IsConst() {
		if t.Val.Sign() == 0 {
			return 64
		}
		return int(t.Val.TrailingZeroBits())
	}
	if depth > 50 {
		return 0
	}
	min := func(a, b int) int {
		if a < b {
			return a
		}
		return b
	}
	switch t.Op {
	case "+", "-":
		return min(c33tz(t.Args[0], depth+1), c33tz(t.Args[1], depth+1))
	case "*":
		return min(64, c33tz(t.Args[0], depth+1)+c33tz(t.Args[1], depth+1))
	case "ite":
		return min(c33tz(t.Args[1], depth+1), c33tz(t.Args[2], depth+1))
	}
	return 0
}

// c33DisjointOr: a|b (= a^b) = a+b when both are non-negative and the set bits cannot overlap:
// one operand is a multiple of 2^z by term structure and the other lies in [0,2^z) - by
// intervals, else by asking the solver under the current path condition (cached; consumes
// no decision).
func c33DisjointOr(k types.BasicKind, a, b *Term) value {
	within := func(t *Term, bound *big.Int) bool { // 0 <= t < bound
		if i := iv(t); i.lo != nil && i.lo.Sign() >= 0 && i.hi.Cmp(bound) < 0 {
			return true
		}
		if eng == nil {
			return false
		}
		bad := Or(IntCmp("<", t, c33c(0)), IntCmp("<=", ConstInt(bound), t))
		return !eng.feasible(bad)
	}
	_, hi := kindRange(k)
	top := new(big.Int).Add(hi, bi(1))
	disjoint := func(x, y *Term) bool { // y < 2^tz(x)
		z := c33tz(x, 0)
		if z <= 0 || z >= 64 {
			return false
		}
		return within(y, new(big.Int).Lsh(bi(1), uint(z))) && within(x, top)
	}
	if disjoint(a, b) || disjoint(b, a) {
		return mkIntVal(k, wrapKind(k, c33norm(IntBin("+", a, b))))
	}
	return nil
}

func init() {
	prev := intBinopExt
	intBinopExt = func(op token.Token, k types.BasicKind, a, b *Term) value {
		if prev != nil {
			if v := prev(op, k, a, b); v != nil {
				return v
			}
		}
		if op != token.OR && op != token.XOR {
			return nil
		}
		return c33DisjointOr(k, a, b)
	}
}

// ---------------------------------------------------------------- fmt.Sprintf("%04d...")

func init() {
	prev := externals["fmt.Sprintf"]
	externals["fmt.Sprintf"] = func(fr *frame, a []value) value {
		format, ok := a[0].(string)
		args, ok2 := a[1].([]value)
		if !ok || !ok2 {
			return prev(fr, a)
		}
		var out []value
		ai := 0
		for i := 0; i < len(format); i++ {
			c := format[i]
			if c != '%' {
				out = append(out, c)
				continue
			}
			i++
			if i < len(format) && format[i] == '%' {
				out = append(out, byte('%'))
				continue
			}
			width, zero := 0, false
			if i < len(format) && format[i] == '0' {
				zero = true
				i++
			}
			for i < len(format) && format[i] >= '0' && format[i] <= '9' {
				width = width*10 + int(format[i]-'0')
				i++
			}
			if i >= len(format) || format[i] != 'd' || ai >= len(args) || (width > 0 && !zero) {
				return prev(fr, a)
			}
			arg, ok := args[ai].(iface)
			ai++
			if !ok {
				return prev(fr, a)
			}
			bt, ok := arg.t.Underlying().(*types.Basic)
			if !ok || bt.Info()&types.IsInteger == 0 {
				return prev(fr, a)
			}
			var digs []value
			if sv, isS := arg.v.(*sym); isS && IntMode && zero && width > 0 && width <= 18 {
				// fixed width: value provably in [0,10^width) -> exactly width digits, no forking
				p10 := new(big.Int).Exp(bi(10), bi(int64(width)), nil)
				if i := iv(sv.T); i.lo != nil && i.lo.Sign() >= 0 && i.hi.Cmp(p10) < 0 {
					for k := width - 1; k >= 0; k-- {
						pw := new(big.Int).Exp(bi(10), bi(int64(k)), nil).Int64()
						dg := c33mod(c33div(sv.T, pw), 10)
						out = append(out, mkIntVal(types.Uint8, IntBin("+", dg, c33c('0'))))
					}
					continue
				}
			}
			if isSym(arg.v) {
				if bt.Info()&types.IsUnsigned != 0 {
					digs = symFormatUint(conv(types.Typ[types.Uint64], arg.t, arg.v), 10)
				} else {
					digs = symFormatInt(arg.v, arg.t, 10)
				}
			} else {
				var s string
				if bt.Info()&types.IsUnsigned != 0 {
					s = fmt.Sprintf("%d", asUint64(arg.v))
				} else {
					s = fmt.Sprintf("%d", asInt64(arg.v))
				}
				for j := 0; j < len(s); j++ {
					digs = append(digs, s[j])
				}
			}
			// %0Nd: sign first, then zero padding to the width
			neg := false
			if len(digs) > 0 {
				if b, ok := digs[0].(uint8); ok && b == '-' {
					neg = true
					digs = digs[1:]
				}
			}
			if neg {
				out = append(out, byte('-'))
			}
			n := len(digs)
			if neg {
				n++
			}
			for ; n < width; n++ {
				out = append(out, byte('0'))
			}
			out = append(out, digs...)
		}
		if ai != len(args) {
			return prev(fr, a)
		}
		return mkStr(out)
	}
}

// ---------------------------------------------------------------- pre-hook: exact folding of
// shifts / masks / division by constants (enabled by the harness helper core.vdEnable)

var c33On bool

func init() {
	externals[modPath+"/core.vdEnable"] = func(fr *frame, a []value) value { c33On = true; return nil }
}

func c33Pre(op token.Token, k types.BasicKind, a, b *Term) value {
	if !c33On || !isIntSort(a.Sort) || !isIntSort(b.Sort) {
		return nil
	}
	ti := func(t *Term) value { return mkIntVal(k, wrapKind(k, t)) }
	nonneg := func(t *Term) bool { i := iv(t); return i.lo != nil && i.lo.Sign() >= 0 }
	small := func(t *Term) (int64, bool) { // positive constant below 2^62
		if t.IsConst() && t.Val.Sign() > 0 && t.Val.BitLen() <= 62 {
			return t.Val.Int64(), true
		}
		return 0, false
	}
	switch op {
	case token.EQL, token.NEQ:
		// disjoint intervals decide (in)equality
		if ia, ib := iv(a), iv(b); ia.lo != nil && ib.lo != nil && (ia.hi.Cmp(ib.lo) < 0 || ib.hi.Cmp(ia.lo) < 0) {
			return op == token.NEQ
		}
	case token.QUO:
		if c, ok := small(b); ok && nonneg(a) && !a.IsConst() {
			return ti(c33div(a, c))
		}
	case token.REM:
		if c, ok := small(b); ok && nonneg(a) && !a.IsConst() {
			r := c33mod(a, c)
			if !r.IsConst() && r.Op != "ite" {
				// a Go-level remainder whose quotient did not fold away is kept as one field
				// with interval [0,c-1]
				for at := range c33linOf(r).coef {
					if at.Op == "div" || at.Op == "ite" {
						c33Opaque[r] = true
						break
					}
				}
			}
			return ti(r)
		}
	case token.SHR:
		if b.IsConst() && b.Val.Sign() >= 0 && b.Val.Cmp(bi(62)) < 0 && !a.IsConst() && iv(a).lo != nil {
			return ti(c33div(a, int64(1)<<uint(b.Val.Int64())))
		}
	case token.AND:
		c, other := b, a
		if a.IsConst() {
			c, other = a, b
		}
		if c.IsConst() && !other.IsConst() && nonneg(other) {
			if n, ok := isPow2Minus1(c.Val); ok && n < 62 {
				return ti(c33mod(other, int64(1)<<uint(n)))
			}
		}
		if c.IsConst() && !other.IsConst() && c.Val.Sign() > 0 {
			// other lies below the lowest set bit of c: the result is 0
			low := new(big.Int).Lsh(bi(1), c.Val.TrailingZeroBits())
			if i := iv(other); i.lo != nil && i.lo.Sign() >= 0 && i.hi.Cmp(low) < 0 {
				return ti(c33c(0))
			}
		}
	case token.OR, token.XOR:
		if a.IsConst() && b.IsConst() {
			return nil
		}
		if v := c33DisjointOr(k, a, b); v != nil {
			return v
		}
	}
	return nil
}

func init() {
	prev := intBinopPre
	intBinopPre = func(op token.Token, k types.BasicKind, a, b *Term) value {
		if prev != nil {
			if v := prev(op, k, a, b); v != nil {
				return v
			}
		}
		return c33Pre(op, k, a, b)
	}
}

// strconv.Atoi on a string with symbolic bytes: interpret the Go source (the built-in external
// only takes concrete strings).
func init() {
	prev := externals["strconv.Atoi"]
	var self externalFn
	self = func(fr *frame, a []value) value {
		if _, ok := a[0].(string); ok || fr.fn == nil || fr.fn.Blocks == nil {
			return prev(fr, a)
		}
		return c33Body(fr, "strconv.Atoi", self, a)
	}
	externals["strconv.Atoi"] = self
}
