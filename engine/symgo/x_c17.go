package symgo

import "go/types"

// C17 (util/queue): exact-semantics intrinsics for sync.Cond on top of the cooperative scheduler.
//
// sync.Cond (Go 1.2x):
//
//	func (c *Cond) Wait()      { t := notifyListAdd(&c.notify); c.L.Unlock(); notifyListWait(&c.notify, t); c.L.Lock() }
//	func (c *Cond) Signal()    { notifyListNotifyOne(&c.notify) }   // wakes the waiter with the smallest ticket not yet notified
//	func (c *Cond) Broadcast() { notifyListNotifyAll(&c.notify) }   // every ticket handed out so far
//
// Model: per Cond a FIFO list of tickets. Wait takes a ticket (while still holding L, as the real
// one does, so a Signal between the Unlock and the park is not lost), releases L, and parks until
// its ticket has been notified AND L is free, then holds L again. (Waking and re-locking are one
// scheduler step: between the wake-up and c.L.Lock() the real waiter does nothing visible, and a
// schedule in which another thread takes L first is the schedule in which that thread is chosen
// before the waiter - which the scheduler enumerates, since the notified waiter is only one of
// the runnable candidates. There are no spurious wake-ups in Go's sync.Cond.)
// Signal notifies the oldest un-notified ticket (none: no-op), Broadcast all of them; both are
// visible operations (yield point) and neither requires L to be held.
// A waiter whose ticket is never notified stays blocked; when no thread is runnable the scheduler
// aborts the path with "deadlock" (reported as INCONCLUSIVE abort: deadlock).
//
// Only L of dynamic type *sync.Mutex is supported (the engine's Mutex model: mutexHeld).

type condTicket struct{ notified bool }

var (
	condWaiters = map[*value][]*condTicket{}
	condSched   *sched // the path (scheduler instance) condWaiters belongs to
)

func condState() map[*value][]*condTicket {
	if eng.sch != condSched { // a new path: resetSched makes a fresh sched for every path
		condSched = eng.sch
		condWaiters = map[*value][]*condTicket{}
	}
	return condWaiters
}

// condLocker returns the key of c.L in mutexHeld.
func condLocker(c *value) *value {
	st := (*c).(structure) // struct { noCopy; L Locker; notify notifyList; checker copyChecker }
	l, ok := st[1].(iface)
	if !ok || l.v == nil {
		panic(runtimeError("invalid memory address or nil pointer dereference")) // c.L == nil
	}
	p, ok := l.v.(*value)
	if !ok || l.t == nil || l.t.String() != "*sync.Mutex" {
		panic(unsupported("sync.Cond with a Locker that is not *sync.Mutex"))
	}
	return p
}

func init() {
	externals["(*sync.Cond).Wait"] = func(fr *frame, a []value) value {
		c := a[0].(*value)
		w := condState()
		l := condLocker(c)
		if eng.sch == nil || !mutexHeld[l] {
			// real: Unlock of an unlocked mutex is a fatal error
			panic(runtimeError("sync: unlock of unlocked mutex"))
		}
		t := &condTicket{}
		w[c] = append(w[c], t)
		delete(mutexHeld, l) // c.L.Unlock()
		// (with no other runnable thread blockUntil aborts the path with "deadlock")
		eng.blockUntil(func() bool { return t.notified && !mutexHeld[l] })
		mutexHeld[l] = true // c.L.Lock()
		return nil
	}
	notify := func(all bool) externalFn {
		return func(fr *frame, a []value) value {
			c := a[0].(*value)
			w := condState()
			q := w[c]
			for len(q) > 0 {
				q[0].notified = true
				q = q[1:]
				if !all {
					break
				}
			}
			if len(q) == 0 {
				delete(w, c)
			} else {
				w[c] = q
			}
			if eng.sch != nil {
				eng.yield()
			}
			return nil
		}
	}
	externals["(*sync.Cond).Signal"] = notify(false)
	externals["(*sync.Cond).Broadcast"] = notify(true)
}

// slices.Delete for []queue.element (PriorityQueue.Get): the library body ends with the `clear`
// built-in, which the interpreter does not implement. Exact semantics (go1.22+):
// bounds check s[i:j:len(s)]; s = append(s[:i], s[j:]...); the vacated tail s[len(s):oldlen]
// is zeroed; s returned. (Same as the x_c10.go instance for btree.treeMerge.)
func init() {
	del := func(fr *frame, a []value) value {
		s := a[0].([]value)
		// symbolic indices (a merged `if` choosing the index): fork over their feasible values
		i := int(asInt64(concretize(a[1])))
		j := int(asInt64(concretize(a[2])))
		if i < 0 || j < i || j > len(s) {
			panic(runtimeError("slice bounds out of range"))
		}
		if i == j {
			return s
		}
		elem := fr.fn.Signature.Params().At(0).Type().Underlying().(*types.Slice).Elem()
		oldlen := len(s)
		if journalOn {
			for k := i; k < oldlen; k++ {
				journal = append(journal, jentry{addr: &s[k], old: s[k]})
			}
		}
		tail := make([]value, len(s[j:]))
		for k, v := range s[j:] {
			tail[k] = cloneVal(v)
		}
		r := append(s[:i], tail...)
		for k := len(r); k < oldlen; k++ {
			s[k] = zero(elem)
		}
		return r
	}
	const el = modPath + "/util/queue.element"
	externals["slices.Delete[[]"+el+","+el+"]"] = del
	externals["slices.Delete[[]"+el+", "+el+"]"] = del
}
