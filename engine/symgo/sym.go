package symgo

// Symbolic scalar values and their operations (bv mode; spike).

import (
	"fmt"
	"go/token"
	"go/types"
	"math/big"
)

// sym is a symbolic bool or integer of Go basic kind K.
type sym struct {
	K types.BasicKind
	T *Term
}

func (s *sym) String() string { return fmt.Sprintf("sym<%d>#%d", s.K, s.T.id) }

func kindWidth(k types.BasicKind) (w int, signed bool) {
	switch k {
	case types.Int8:
		return 8, true
	case types.Int16:
		return 16, true
	case types.Int32:
		return 32, true
	case types.Int64, types.Int:
		return 64, true
	case types.Uint8:
		return 8, false
	case types.Uint16:
		return 16, false
	case types.Uint32:
		return 32, false
	case types.Uint64, types.Uint, types.Uintptr:
		return 64, false
	}
	return 0, false
}

func kindOf(v value) (types.BasicKind, bool) {
	switch v := v.(type) {
	case *sym:
		return v.K, true
	case bool:
		return types.Bool, true
	case int:
		return types.Int, true
	case int8:
		return types.Int8, true
	case int16:
		return types.Int16, true
	case int32:
		return types.Int32, true
	case int64:
		return types.Int64, true
	case uint:
		return types.Uint, true
	case uint8:
		return types.Uint8, true
	case uint16:
		return types.Uint16, true
	case uint32:
		return types.Uint32, true
	case uint64:
		return types.Uint64, true
	case uintptr:
		return types.Uintptr, true
	}
	return 0, false
}

// termOf converts a concrete or symbolic scalar to a term.
func termOf(v value) *Term {
	switch v := v.(type) {
	case *sym:
		return v.T
	case bool:
		return ConstBool(v)
	}
	k, ok := kindOf(v)
	if !ok {
		panic(fmt.Sprintf("termOf: unsupported %T", v))
	}
	w, signed := kindWidth(k)
	if signed {
		return ConstBV(big.NewInt(asInt64(v)), w)
	}
	return ConstBV(new(big.Int).SetUint64(asUint64(v)), w)
}

// mkVal wraps a term as a value of kind k, concretizing constants.
func mkVal(k types.BasicKind, t *Term) value {
	if !t.IsConst() {
		return &sym{K: k, T: t}
	}
	if k == types.Bool {
		return t.Val.Sign() != 0
	}
	w, signed := kindWidth(k)
	_ = w
	if signed {
		n := t.signed().Int64()
		switch k {
		case types.Int:
			return int(n)
		case types.Int8:
			return int8(n)
		case types.Int16:
			return int16(n)
		case types.Int32:
			return int32(n)
		case types.Int64:
			return n
		}
	}
	n := t.Val.Uint64()
	switch k {
	case types.Uint:
		return uint(n)
	case types.Uint8:
		return uint8(n)
	case types.Uint16:
		return uint16(n)
	case types.Uint32:
		return uint32(n)
	case types.Uint64:
		return n
	case types.Uintptr:
		return uintptr(n)
	}
	panic("mkVal: bad kind")
}

func isSym(v value) bool { _, ok := v.(*sym); return ok }

// symBinop handles binary operators where at least one operand is symbolic.
func symBinop(op token.Token, t types.Type, x, y value) value {
	kx, okx := kindOf(x)
	ky, oky := kindOf(y)
	if !okx || !oky {
		panic(unsupported(fmt.Sprintf("symbolic binop %s on %T, %T", op, x, y)))
	}
	if kx == types.Bool {
		a, b := termOf(x), termOf(y)
		switch op {
		case token.EQL:
			return mkVal(types.Bool, BoolEq(a, b))
		case token.NEQ:
			return mkVal(types.Bool, Not(BoolEq(a, b)))
		case token.AND, token.LAND:
			return mkVal(types.Bool, And(a, b))
		case token.OR, token.LOR:
			return mkVal(types.Bool, Or(a, b))
		}
		panic(unsupported("bool binop " + op.String()))
	}
	if IntMode {
		return intBinop(op, x, y)
	}
	w, signed := kindWidth(kx)
	a := termOf(x)
	b := termOf(y)
	// shifts: y may have a different (unsigned or signed) type
	if op == token.SHL || op == token.SHR {
		wy, _ := kindWidth(ky)
		_ = wy
		bb := Resize(b, w, false)
		if b.Sort.W > w {
			// count may exceed width: saturate
			big_ := BVCmp("bvule", ConstU(uint64(w), b.Sort.W), b)
			bb = Ite(big_, ConstU(uint64(w), w), Resize(b, w, false))
		}
		// Go: shift >= width gives 0 (or sign fill); SMT bvshl/bvlshr by >= width give 0; bvashr sign fill. matches.
		switch {
		case op == token.SHL:
			return mkVal(kx, BVBin("bvshl", a, bb))
		case signed:
			return mkVal(kx, BVBin("bvashr", a, bb))
		default:
			return mkVal(kx, BVBin("bvlshr", a, bb))
		}
	}
	if a.Sort.W != b.Sort.W {
		panic(fmt.Sprintf("symBinop width mismatch %s: %d vs %d", op, a.Sort.W, b.Sort.W))
	}
	switch op {
	case token.ADD:
		return mkVal(kx, BVBin("bvadd", a, b))
	case token.SUB:
		return mkVal(kx, BVBin("bvsub", a, b))
	case token.MUL:
		return mkVal(kx, BVBin("bvmul", a, b))
	case token.QUO, token.REM:
		// division by zero must have been checked by caller (checkDivZero)
		name := map[bool]map[token.Token]string{
			true:  {token.QUO: "bvsdiv", token.REM: "bvsrem"},
			false: {token.QUO: "bvudiv", token.REM: "bvurem"}}[signed][op]
		return mkVal(kx, BVBin(name, a, b))
	case token.AND:
		return mkVal(kx, BVBin("bvand", a, b))
	case token.OR:
		return mkVal(kx, BVBin("bvor", a, b))
	case token.XOR:
		return mkVal(kx, BVBin("bvxor", a, b))
	case token.AND_NOT:
		return mkVal(kx, BVBin("bvand", a, BVNot(b)))
	case token.EQL:
		return mkVal(types.Bool, BVCmp("=", a, b))
	case token.NEQ:
		return mkVal(types.Bool, Not(BVCmp("=", a, b)))
	case token.LSS:
		return mkVal(types.Bool, BVCmp(pick(signed, "bvslt", "bvult"), a, b))
	case token.LEQ:
		return mkVal(types.Bool, BVCmp(pick(signed, "bvsle", "bvule"), a, b))
	case token.GTR:
		return mkVal(types.Bool, BVCmp(pick(signed, "bvslt", "bvult"), b, a))
	case token.GEQ:
		return mkVal(types.Bool, BVCmp(pick(signed, "bvsle", "bvule"), b, a))
	}
	panic(unsupported("symbolic binop " + op.String()))
}

func pick(c bool, a, b string) string {
	if c {
		return a
	}
	return b
}

func symUnop(op token.Token, x *sym) value {
	if IntMode && x.K != types.Bool {
		switch op {
		case token.SUB:
			return mkIntVal(x.K, wrapKind(x.K, IntBin("-", ConstInt(bi(0)), x.T)))
		case token.XOR:
			_, signed := kindWidth(x.K)
			if signed {
				return mkIntVal(x.K, IntBin("-", ConstInt(bi(-1)), x.T))
			}
			_, hi := kindRange(x.K)
			return mkIntVal(x.K, IntBin("-", ConstInt(hi), x.T))
		}
	}
	switch op {
	case token.NOT:
		return mkVal(types.Bool, Not(x.T))
	case token.SUB:
		return mkVal(x.K, BVNeg(x.T))
	case token.XOR:
		return mkVal(x.K, BVNot(x.T))
	}
	panic(unsupported("symbolic unop " + op.String()))
}

// symConv converts a symbolic integer to another basic kind.
func symConv(dst types.BasicKind, x *sym) value {
	if x.K == types.Bool {
		panic(unsupported("conv of symbolic bool"))
	}
	wd, _ := kindWidth(dst)
	if wd == 0 {
		panic(unsupported(fmt.Sprintf("conv of symbolic int to kind %d", dst)))
	}
	if IntMode {
		return mkIntVal(dst, wrapKind(dst, x.T))
	}
	_, srcSigned := kindWidth(x.K)
	return mkVal(dst, Resize(x.T, wd, srcSigned))
}

// hasSym reports whether v contains a symbolic scalar (shallow through structs/arrays/ifaces).
func hasSym(v value) bool {
	switch v := v.(type) {
	case *sym:
		return true
	case *symstr:
		return true
	case structure:
		for _, f := range v {
			if hasSym(f) {
				return true
			}
		}
	case array:
		for _, f := range v {
			if hasSym(f) {
				return true
			}
		}
	case iface:
		return hasSym(v.v)
	case smiVal:
		return isSym(v.n)
	}
	return false
}

// symEquals computes x == y for values that may contain symbolic parts; result bool or *sym.
func symEquals(t types.Type, x, y value) value {
	switch xv := x.(type) {
	case structure:
		yv := y.(structure)
		st := t.Underlying().(*types.Struct)
		acc := tTrue
		for i := range xv {
			if st.Field(i).Name() == "_" {
				continue
			}
			acc = And(acc, termOf(boolVal(symEquals(st.Field(i).Type(), xv[i], yv[i]))))
		}
		return mkVal(types.Bool, acc)
	case array:
		yv := y.(array)
		et := t.Underlying().(*types.Array).Elem()
		acc := tTrue
		for i := range xv {
			acc = And(acc, termOf(boolVal(symEquals(et, xv[i], yv[i]))))
		}
		return mkVal(types.Bool, acc)
	case iface:
		yv := y.(iface)
		if xv.t == nil || yv.t == nil {
			return xv.t == nil && yv.t == nil
		}
		if !types.Identical(xv.t, yv.t) {
			return false
		}
		return symEquals(xv.t, xv.v, yv.v)
	case *symstr, string:
		if isStrVal(y) {
			return strEq(x, y)
		}
	case smiVal:
		if yv, ok := y.(smiVal); ok {
			return binop(token.EQL, types.Typ[types.Int], xv.n, yv.n)
		}
		return false
	}
	if _, ok := kindOf(x); ok {
		if _, ok := kindOf(y); ok && (isSym(x) || isSym(y)) {
			return symBinop(token.EQL, t, x, y)
		}
	}
	return equals(t, x, y)
}

func boolVal(v value) value { return v }

type unsupportedErr struct{ msg string }

func unsupported(msg string) unsupportedErr { return unsupportedErr{msg} }
