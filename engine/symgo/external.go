// Copyright 2013 The Go Authors. All rights reserved.
// Use of this source code is governed by a BSD-style
// license that can be found in the LICENSE file.

package symgo

// Emulated functions that we cannot interpret because they are
// external or because they use "unsafe" or "reflect" operations.

import (
	"bytes"
	"maps"
	"math"
	"os"
	"runtime"
	"slices"
	"sort"
	"strconv"
	"strings"
	"time"
	"unicode/utf8"
)

type externalFn func(fr *frame, args []value) value

// TODO(adonovan): fix: reflect.Value abstracts an lvalue or an
// rvalue; Set() causes mutations that can be observed via aliases.
// We have not captured that correctly here.

// Key strings are from Function.String().
var externals = make(map[string]externalFn)

func init() {
	// That little dot ۰ is an Arabic zero numeral (U+06F0), categories [Nd].
	maps.Copy(externals, map[string]externalFn{
		"(reflect.Value).Bool":            ext۰reflect۰Value۰Bool,
		"(reflect.Value).CanAddr":         ext۰reflect۰Value۰CanAddr,
		"(reflect.Value).CanInterface":    ext۰reflect۰Value۰CanInterface,
		"(reflect.Value).Elem":            ext۰reflect۰Value۰Elem,
		"(reflect.Value).Field":           ext۰reflect۰Value۰Field,
		"(reflect.Value).Float":           ext۰reflect۰Value۰Float,
		"(reflect.Value).Index":           ext۰reflect۰Value۰Index,
		"(reflect.Value).Int":             ext۰reflect۰Value۰Int,
		"(reflect.Value).Interface":       ext۰reflect۰Value۰Interface,
		"(reflect.Value).IsNil":           ext۰reflect۰Value۰IsNil,
		"(reflect.Value).IsValid":         ext۰reflect۰Value۰IsValid,
		"(reflect.Value).Kind":            ext۰reflect۰Value۰Kind,
		"(reflect.Value).Len":             ext۰reflect۰Value۰Len,
		"(reflect.Value).MapIndex":        ext۰reflect۰Value۰MapIndex,
		"(reflect.Value).MapKeys":         ext۰reflect۰Value۰MapKeys,
		"(reflect.Value).NumField":        ext۰reflect۰Value۰NumField,
		"(reflect.Value).NumMethod":       ext۰reflect۰Value۰NumMethod,
		"(reflect.Value).Pointer":         ext۰reflect۰Value۰Pointer,
		"(reflect.Value).Set":             ext۰reflect۰Value۰Set,
		"(reflect.Value).String":          ext۰reflect۰Value۰String,
		"(reflect.Value).Type":            ext۰reflect۰Value۰Type,
		"(reflect.Value).Uint":            ext۰reflect۰Value۰Uint,
		"(reflect.error).Error":           ext۰reflect۰error۰Error,
		"(reflect.rtype).Bits":            ext۰reflect۰rtype۰Bits,
		"(reflect.rtype).Elem":            ext۰reflect۰rtype۰Elem,
		"(reflect.rtype).Field":           ext۰reflect۰rtype۰Field,
		"(reflect.rtype).In":              ext۰reflect۰rtype۰In,
		"(reflect.rtype).Kind":            ext۰reflect۰rtype۰Kind,
		"(reflect.rtype).NumField":        ext۰reflect۰rtype۰NumField,
		"(reflect.rtype).NumIn":           ext۰reflect۰rtype۰NumIn,
		"(reflect.rtype).NumMethod":       ext۰reflect۰rtype۰NumMethod,
		"(reflect.rtype).NumOut":          ext۰reflect۰rtype۰NumOut,
		"(reflect.rtype).Out":             ext۰reflect۰rtype۰Out,
		"(reflect.rtype).Size":            ext۰reflect۰rtype۰Size,
		"(reflect.rtype).String":          ext۰reflect۰rtype۰String,
		"bytes.Equal":                     ext۰bytes۰Equal,
		"bytes.IndexByte":                 ext۰bytes۰IndexByte,
		"fmt.Sprint":                      ext۰fmt۰Sprint,
		"math.Abs":                        ext۰math۰Abs,
		"math.Copysign":                   ext۰math۰Copysign,
		"math.Exp":                        ext۰math۰Exp,
		"math.Float32bits":                ext۰math۰Float32bits,
		"math.Float32frombits":            ext۰math۰Float32frombits,
		"math.Float64bits":                ext۰math۰Float64bits,
		"math.Float64frombits":            ext۰math۰Float64frombits,
		"math.Inf":                        ext۰math۰Inf,
		"math.IsNaN":                      ext۰math۰IsNaN,
		"math.Ldexp":                      ext۰math۰Ldexp,
		"math.Log":                        ext۰math۰Log,
		"math.Min":                        ext۰math۰Min,
		"math.NaN":                        ext۰math۰NaN,
		"math.Sqrt":                       ext۰math۰Sqrt,
		"os.Exit":                         ext۰os۰Exit,
		"os.Getenv":                       ext۰os۰Getenv,
		"reflect.New":                     ext۰reflect۰New,
		"reflect.SliceOf":                 ext۰reflect۰SliceOf,
		"reflect.TypeOf":                  ext۰reflect۰TypeOf,
		"reflect.ValueOf":                 ext۰reflect۰ValueOf,
		"reflect.Zero":                    ext۰reflect۰Zero,
		"runtime.Breakpoint":              ext۰runtime۰Breakpoint,
		"runtime.GC":                      ext۰runtime۰GC,
		"runtime.GOMAXPROCS":              ext۰runtime۰GOMAXPROCS,
		"runtime.GOROOT":                  ext۰runtime۰GOROOT,
		"runtime.Goexit":                  ext۰runtime۰Goexit,
		"runtime.Gosched":                 ext۰runtime۰Gosched,
		"runtime.NumCPU":                  ext۰runtime۰NumCPU,
		"sort.Float64s":                   ext۰sort۰Float64s,
		"sort.Ints":                       ext۰sort۰Ints,
		"sort.Strings":                    ext۰sort۰Strings,
		"strconv.Atoi":                    ext۰strconv۰Atoi,
		"strconv.Itoa":                    ext۰strconv۰Itoa,
		"strconv.FormatFloat":             ext۰strconv۰FormatFloat,
		"strings.Count":                   ext۰strings۰Count,
		"strings.EqualFold":               ext۰strings۰EqualFold,
		"strings.Index":                   ext۰strings۰Index,
		"strings.IndexByte":               ext۰strings۰IndexByte,
		"strings.Replace":                 ext۰strings۰Replace,
		"strings.ToLower":                 ext۰strings۰ToLower,
		"time.Sleep":                      ext۰time۰Sleep,
		"unicode/utf8.DecodeRuneInString": ext۰unicode۰utf8۰DecodeRuneInString,
	})
}

func ext۰bytes۰Equal(fr *frame, args []value) value {
	// func Equal(a, b []byte) bool
	a := args[0].([]value)
	b := args[1].([]value)
	return slices.Equal(a, b)
}

func ext۰bytes۰IndexByte(fr *frame, args []value) value {
	// func IndexByte(s []byte, c byte) int
	s := args[0].([]value)
	c := args[1].(byte)
	for i, b := range s {
		if b.(byte) == c {
			return i
		}
	}
	return -1
}

func ext۰math۰Float64frombits(fr *frame, args []value) value {
	return math.Float64frombits(args[0].(uint64))
}

func ext۰math۰Float64bits(fr *frame, args []value) value {
	return math.Float64bits(args[0].(float64))
}

func ext۰math۰Float32frombits(fr *frame, args []value) value {
	return math.Float32frombits(args[0].(uint32))
}

func ext۰math۰Abs(fr *frame, args []value) value {
	return math.Abs(args[0].(float64))
}

func ext۰math۰Copysign(fr *frame, args []value) value {
	return math.Copysign(args[0].(float64), args[1].(float64))
}

func ext۰math۰Exp(fr *frame, args []value) value {
	return math.Exp(args[0].(float64))
}

func ext۰math۰Float32bits(fr *frame, args []value) value {
	return math.Float32bits(args[0].(float32))
}

func ext۰math۰Min(fr *frame, args []value) value {
	return math.Min(args[0].(float64), args[1].(float64))
}

func ext۰math۰NaN(fr *frame, args []value) value {
	return math.NaN()
}

func ext۰math۰IsNaN(fr *frame, args []value) value {
	return math.IsNaN(args[0].(float64))
}

func ext۰math۰Inf(fr *frame, args []value) value {
	return math.Inf(args[0].(int))
}

func ext۰math۰Ldexp(fr *frame, args []value) value {
	return math.Ldexp(args[0].(float64), args[1].(int))
}

func ext۰math۰Log(fr *frame, args []value) value {
	return math.Log(args[0].(float64))
}

func ext۰math۰Sqrt(fr *frame, args []value) value {
	return math.Sqrt(args[0].(float64))
}

func ext۰runtime۰Breakpoint(fr *frame, args []value) value {
	runtime.Breakpoint()
	return nil
}

func ext۰sort۰Ints(fr *frame, args []value) value {
	x := args[0].([]value)
	sort.Slice(x, func(i, j int) bool {
		return x[i].(int) < x[j].(int)
	})
	return nil
}
func ext۰sort۰Strings(fr *frame, args []value) value {
	x := args[0].([]value)
	sort.Slice(x, func(i, j int) bool {
		return x[i].(string) < x[j].(string)
	})
	return nil
}
func ext۰sort۰Float64s(fr *frame, args []value) value {
	x := args[0].([]value)
	sort.Slice(x, func(i, j int) bool {
		return x[i].(float64) < x[j].(float64)
	})
	return nil
}

func ext۰strconv۰Atoi(fr *frame, args []value) value {
	i, e := strconv.Atoi(args[0].(string))
	if e != nil {
		if fr.i.runtimeErrorString != nil {
			return tuple{i, iface{fr.i.runtimeErrorString, e.Error()}}
		}
		return tuple{i, e.Error()}
	}
	return tuple{i, iface{}}
}
func ext۰strconv۰Itoa(fr *frame, args []value) value {
	return strconv.Itoa(args[0].(int))
}
func ext۰strconv۰FormatFloat(fr *frame, args []value) value {
	return strconv.FormatFloat(args[0].(float64), args[1].(byte), args[2].(int), args[3].(int))
}

func ext۰strings۰Count(fr *frame, args []value) value {
	return strings.Count(args[0].(string), args[1].(string))
}

func ext۰strings۰EqualFold(fr *frame, args []value) value {
	return strings.EqualFold(args[0].(string), args[1].(string))
}
func ext۰strings۰IndexByte(fr *frame, args []value) value {
	return strings.IndexByte(args[0].(string), args[1].(byte))
}

func ext۰strings۰Index(fr *frame, args []value) value {
	return strings.Index(args[0].(string), args[1].(string))
}

func ext۰strings۰Replace(fr *frame, args []value) value {
	// func Replace(s, old, new string, n int) string
	s := args[0].(string)
	new := args[1].(string)
	old := args[2].(string)
	n := args[3].(int)
	return strings.Replace(s, old, new, n)
}

func ext۰strings۰ToLower(fr *frame, args []value) value {
	return strings.ToLower(args[0].(string))
}

func ext۰runtime۰GOMAXPROCS(fr *frame, args []value) value {
	// Ignore args[0]; don't let the interpreted program
	// set the interpreter's GOMAXPROCS!
	return runtime.GOMAXPROCS(0)
}

func ext۰runtime۰Goexit(fr *frame, args []value) value {
	// TODO(adonovan): don't kill the interpreter's main goroutine.
	runtime.Goexit()
	return nil
}

func ext۰runtime۰GOROOT(fr *frame, args []value) value {
	return runtime.GOROOT()
}

func ext۰runtime۰GC(fr *frame, args []value) value {
	runtime.GC()
	return nil
}

func ext۰runtime۰Gosched(fr *frame, args []value) value {
	runtime.Gosched()
	return nil
}

func ext۰runtime۰NumCPU(fr *frame, args []value) value {
	return runtime.NumCPU()
}

func ext۰time۰Sleep(fr *frame, args []value) value {
	time.Sleep(time.Duration(args[0].(int64)))
	return nil
}

func ext۰os۰Getenv(fr *frame, args []value) value {
	name := args[0].(string)
	switch name {
	case "GOSSAINTERP":
		return "1"
	}
	return os.Getenv(name)
}

func ext۰os۰Exit(fr *frame, args []value) value {
	panic(exitPanic(args[0].(int)))
}

func ext۰unicode۰utf8۰DecodeRuneInString(fr *frame, args []value) value {
	r, n := utf8.DecodeRuneInString(args[0].(string))
	return tuple{r, n}
}

// A fake function for turning an arbitrary value into a string.
// Handles only the cases needed by the tests.
// Uses same logic as 'print' built-in.
func ext۰fmt۰Sprint(fr *frame, args []value) value {
	buf := new(bytes.Buffer)
	wasStr := false
	for i, arg := range args[0].([]value) {
		x := arg.(iface).v
		_, isStr := x.(string)
		if i > 0 && !wasStr && !isStr {
			buf.WriteByte(' ')
		}
		wasStr = isStr
		buf.WriteString(toString(x))
	}
	return buf.String()
}
