package symgo

import (
	"go/token"
	"go/types"

	"golang.org/x/tools/go/ssa"
)

// Short-circuit merging: for `if c goto rhs else join` (or the mirrored form) where rhs is a
// pure straight-line block that jumps to join, execute rhs speculatively and turn the phis of
// join into ite terms instead of forking.

type mergeInfo struct {
	cond     *Term // condition under which control came through rhs
	rhs, ent *ssa.BasicBlock
}

func pureInstr(in ssa.Instruction) bool {
	switch in := in.(type) {
	case *ssa.BinOp:
		return in.Op != token.QUO && in.Op != token.REM
	case *ssa.UnOp:
		return in.Op != token.ARROW
	case *ssa.Convert, *ssa.ChangeType, *ssa.Field, *ssa.FieldAddr, *ssa.Extract, *ssa.DebugRef:
		return true
	case *ssa.IndexAddr, *ssa.Index:
		return true // concrete bounds are checked by the host; symbolic index forks (acceptable)
	}
	return false
}

func basicPhis(join *ssa.BasicBlock) bool {
	for _, in := range join.Instrs {
		phi, ok := in.(*ssa.Phi)
		if !ok {
			break
		}
		b, ok := phi.Type().Underlying().(*types.Basic)
		if !ok || b.Info()&(types.IsBoolean|types.IsInteger) == 0 {
			return false
		}
	}
	return true
}

// tryMerge returns true if it handled the If by merging.
func tryMerge(fr *frame, instr *ssa.If, c *sym) bool {
	blk := instr.Block()
	for side := 0; side < 2; side++ {
		rhs, join := blk.Succs[side], blk.Succs[1-side]
		if len(rhs.Succs) != 1 || rhs.Succs[0] != join || len(rhs.Preds) != 1 || len(join.Preds) != 2 {
			continue
		}
		ok := basicPhis(join)
		n := len(rhs.Instrs)
		for _, in := range rhs.Instrs[:n-1] {
			if _, isPhi := in.(*ssa.Phi); isPhi || !pureInstr(in) {
				ok = false
			}
		}
		if _, isJump := rhs.Instrs[n-1].(*ssa.Jump); !isJump || !ok {
			continue
		}
		// speculative execution of rhs in the current frame
		for _, in := range rhs.Instrs[:n-1] {
			visitInstr(fr, in)
		}
		cond := c.T
		if side == 1 {
			cond = Not(cond)
		}
		fr.merge = &mergeInfo{cond: cond, rhs: rhs, ent: blk}
		fr.prevBlock, fr.block = blk, join
		return true
	}
	return false
}

func iteVal(cond *Term, a, b value) value {
	ka, _ := kindOf(a)
	if ka == types.Bool {
		return mkVal(types.Bool, Ite(cond, termOf(a), termOf(b)))
	}
	if IntMode {
		t := Ite(cond, intTermOf(a), intTermOf(b))
		ia, ib := iv(intTermOf(a)), iv(intTermOf(b))
		if ia.lo != nil && ib.lo != nil {
			lo, hi := minmax(ia.lo, ia.hi, ib.lo, ib.hi)
			setIv(t, lo, hi)
		}
		return mkIntVal(ka, t)
	}
	return mkVal(ka, Ite(cond, termOf(a), termOf(b)))
}
