package symgo

import (
	"crypto/sha1"

	"fmt"
	"go/types"
	"golang.org/x/tools/go/ssa"
	"strings"
)

// Environment stubs (DESIGN.md 2.4): randomness is an arbitrary value, sha1 is an uninterpreted
// but functional hash on symbolic input (exact on concrete input), rate limiting and internal
// error logging are no-ops.

var sha1Memo = map[string]array{}

type sha1Call struct {
	in  []value
	out array
}

var sha1Seen []sha1Call

func init() {
	externals["crypto/rand.Read"] = func(fr *frame, a []value) value {
		buf := a[0].([]value)
		for i := range buf {
			if journalOn {
				journal = append(journal, jentry{addr: &buf[i], old: buf[i]})
			}
			buf[i] = eng.fresh("env_rand", types.Uint8)
		}
		return tuple{len(buf), iface{}}
	}
	externals["crypto/sha1.Sum"] = func(fr *frame, a []value) value {
		data := a[0].([]value)
		conc := make([]byte, len(data))
		allc := true
		var key strings.Builder
		for i, x := range data {
			if c, ok := x.(uint8); ok {
				conc[i] = c
				fmt.Fprintf(&key, "c%d,", c)
			} else {
				allc = false
				fmt.Fprintf(&key, "t%d,", termOf(x).id)
			}
		}
		if allc {
			h := sha1.Sum(conc)
			r := make(array, 20)
			for i := range r {
				r[i] = h[i]
			}
			return r
		}
		k := key.String()
		if r, ok := sha1Memo[k]; ok {
			return append(array{}, r...)
		}
		r := make(array, 20)
		for i := range r {
			r[i] = eng.fresh("env_sha1", types.Uint8)
		}
		// environment assumption: no collisions - equal digests imply equal inputs
		for _, prev := range sha1Seen {
			if IntMode {
				break // (bit-vector harnesses only)
			}
			outEq := tTrue
			for i := range r {
				outEq = And(outEq, BVCmp("=", termOf(r[i]), termOf(prev.out[i])))
			}
			inEq := tFalse
			if len(prev.in) == len(data) {
				inEq = tTrue
				for i := range data {
					inEq = And(inEq, BVCmp("=", termOf(data[i]), termOf(prev.in[i])))
				}
			}
			eng.pc = append(eng.pc, Or(Not(outEq), inEq))
		}
		sha1Seen = append(sha1Seen, sha1Call{in: append([]value{}, data...), out: r})
		nseen := len(sha1Seen)
		sha1Memo[k] = r
		journalFn(func() { delete(sha1Memo, k); sha1Seen = sha1Seen[:nseen-1] })
		return append(array{}, r...)
	}
	externals["(*golang.org/x/time/rate.Limiter).Wait"] = func(fr *frame, a []value) value { return iface{} }
	externals[modPath+"/dbms.LogInternalError"] = func(fr *frame, a []value) value { return nil }
}

func init() {
	// string interning is semantically the identity (its storage uses unsafe.String)
	externals[modPath+"/util/intern.String"] = func(fr *frame, a []value) value { return a[0] }
}

func init() {
	externals["internal/stringslite.Clone"] = func(fr *frame, a []value) value { return a[0] }
	externals["strconv.cloneString"] = func(fr *frame, a []value) value { return a[0] }
}

func init() {
	externals[modPath+"/core.LogInternalError"] = func(fr *frame, a []value) value { return nil }
	externals[modPath+"/util/dbg.PrintStack"] = func(fr *frame, a []value) value { return nil }
}

// envClock: time.Now is a deterministic clock that advances one second per call (per path).
var envClock int64

func init() {
	externals["time.runtimeNow"] = func(fr *frame, a []value) value {
		old := envClock
		journalFn(func() { envClock = old })
		envClock++
		return tuple{int64(1700000000) + envClock, int32(0), int64(1000000000) * envClock}
	}
	externals["time.now"] = externals["time.runtimeNow"]
}

func init() {
	// Go regexps are only used for test-failure formatting (util/assert) and the llm tool; the
	// regexp package's tables are not initialised in the engine, so compiled patterns are an opaque
	// nil *Regexp (any use of one would show up as a nil dereference, never silently)
	externals["regexp.MustCompile"] = func(fr *frame, a []value) value { return (*value)(nil) }
}

func init() {
	// builtin.funcName uses runtime.FuncForPC(reflect.ValueOf(f).Pointer()).Name(); the engine knows
	// the function's name directly (same result: the Go name with a trailing Q/X mapped to ?/!)
	externals[modPath+"/builtin.funcName"] = func(fr *frame, a []value) value {
		var name string
		switch f := a[0].(iface).v.(type) {
		case *ssa.Function:
			name = f.Name()
		case *closure:
			name = f.Fn.Name()
		default:
			panic(unsupported("builtin.funcName of non-function"))
		}
		if n := len(name); n > 0 {
			switch name[n-1] {
			case 'Q':
				name = name[:n-1] + "?"
			case 'X':
				name = name[:n-1] + "!"
			}
		}
		return name
	}
}

func init() {
	// OS queries made while package builtin initialises (environment: 8 GB of memory)
	externals[modPath+"/builtin.systemMemory"] = func(fr *frame, a []value) value { return uint64(8 << 30) }
}

func init() {
	// waiting for the background flusher of the memory-mapped file (select on a channel with a
	// 5 s time-out): nothing to wait for on a heap store
	externals["(*"+modPath+"/db19/stor.Stor).flushWait"] = func(fr *frame, a []value) value { return nil }
}
