package symgo

// Engine extensions for the C28 harnesses (value order / equality / hashing).
//
//  1. hash/maphash.String and hash/maphash.Bytes over strings with symbolic bytes.
//     ENVIRONMENT STUB: the real maphash is a randomly seeded hash (different in every
//     process). The model is "some fixed function of the byte content": FNV-1a over the bytes,
//     built as a bit-vector term when a byte is symbolic (concrete input gives the same value
//     as the pre-existing concrete stub). Anything that must hold for every hash function that
//     is a function of the content (equal content => equal hash; map lookups succeed) is
//     decided exactly; particular hash values are never compared with the native run.
//  2. bytes.Equal over slices with symbolic bytes (exact semantics: same length and every
//     byte equal). The pre-existing external compared the engine's value cells and was only
//     right for concrete bytes.

import (
	"go/types"
)

func symFnv64(bs []value) value {
	conc := true
	for _, b := range bs {
		if _, ok := b.(uint8); !ok {
			conc = false
			break
		}
	}
	if conc {
		buf := make([]byte, len(bs))
		for i, b := range bs {
			buf[i] = b.(uint8)
		}
		return fnv64(string(buf))
	}
	if IntMode {
		panic(unsupported("hash of a symbolic string in int mode"))
	}
	h := ConstU(14695981039346656037, 64)
	for _, b := range bs {
		h = BVBin("bvxor", h, Resize(termOf(b), 64, false))
		h = BVBin("bvmul", h, ConstU(1099511628211, 64))
	}
	return mkVal(types.Uint64, h)
}

func init() {
	externals["hash/maphash.String"] = func(fr *frame, a []value) value { return symFnv64(strBytes(a[1])) }
	externals["hash/maphash.Bytes"] = func(fr *frame, a []value) value { return symFnv64(a[1].([]value)) }
	externals["bytes.Equal"] = func(fr *frame, a []value) value {
		x, y := a[0].([]value), a[1].([]value)
		if len(x) != len(y) {
			return false
		}
		return strEq(mkStr(x), mkStr(y))
	}
}
