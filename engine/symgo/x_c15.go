package symgo

import (
	"go/types"
	"math/bits"
)

// C15 (util/hamt merge schedule): exact-semantics intrinsic for math/bits.TrailingZeros.
// The library body is a de Bruijn multiplication followed by a table lookup; with a symbolic
// argument (the persist clock in nmerge -> TrailingOnes) that is a 64-bit multiplication for the
// solver plus a 64-way fork on the table index. The stub returns the same function as one
// if-then-else chain over the bits: the index of the lowest set bit, 64 for zero.
func init() {
	externals["math/bits.TrailingZeros"] = func(fr *frame, a []value) value {
		s, ok := a[0].(*sym)
		if !ok {
			return bits.TrailingZeros(uint(asUint64(a[0])))
		}
		if IntMode {
			panic(unsupported("math/bits.TrailingZeros of a symbolic value with arith=int"))
		}
		r := ConstU(64, 64)
		for i := 63; i >= 0; i-- {
			bit := BVCmp("=", Extract(s.T, i, i), ConstU(1, 1))
			r = Ite(bit, ConstU(uint64(i), 64), r)
		}
		return mkVal(types.Int, r)
	}
}
