// Copyright 2013 The Go Authors. All rights reserved.
// Use of this source code is governed by a BSD-style
// license that can be found in the LICENSE file.

// Package ssa/interp defines an interpreter for the SSA
// representation of Go programs.
//
// This interpreter is provided as an adjunct for testing the SSA
// construction algorithm.  Its purpose is to provide a minimal
// metacircular implementation of the dynamic semantics of each SSA
// instruction.  It is not, and will never be, a production-quality Go
// interpreter.
//
// The following is a partial list of Go features that are currently
// unsupported or incomplete in the interpreter.
//
// * Unsafe operations, including all uses of unsafe.Pointer, are
// impossible to support given the "boxed" value representation we
// have chosen.
//
// * The reflect package is only partially implemented.
//
// * The "testing" package is no longer supported because it
// depends on low-level details that change too often.
//
// * "sync/atomic" operations are not atomic due to the "boxed" value
// representation: it is not possible to read, modify and write an
// interface value atomically. As a consequence, Mutexes are currently
// broken.
//
// * recover is only partially implemented.  Also, the interpreter
// makes no attempt to distinguish target panics from interpreter
// crashes.
//
// * the sizes of the int, uint and uintptr types in the target
// program are assumed to be the same as those of the interpreter
// itself.
//
// * all values occupy space, even those of types defined by the spec
// to have zero size, e.g. struct{}.  This can cause asymptotic
// performance degradation.
//
// * os.Exit is implemented using panic, causing deferred functions to
// run.
package symgo // import "golang.org/x/tools/go/ssa/interp"

import (
	"fmt"
	"go/token"
	"go/types"
	"log"
	"os"
	"reflect"
	"runtime"
	"slices"
	"strings"
	_ "unsafe"

	"golang.org/x/tools/go/ssa"
	
)

type continuation int

const (
	kNext continuation = iota
	kReturn
	kJump
)

// Mode is a bitmask of options affecting the interpreter.
type Mode uint

const (
	DisableRecover Mode = 1 << iota // Disable recover() in target programs; show interpreter crash instead.
	EnableTracing                   // Print a trace of all instructions as they are interpreted.
)

type methodSet map[string]*ssa.Function

// State shared between all interpreted goroutines.
type interpreter struct {
	osArgs             []value                // the value of os.Args
	prog               *ssa.Program           // the SSA program
	globals            map[*ssa.Global]*value // addresses of global variables (immutable)
	mode               Mode                   // interpreter options
	reflectPackage     *ssa.Package           // the fake reflect package
	errorMethods       methodSet              // the method set of reflect.error, which implements the error interface.
	rtypeMethods       methodSet              // the method set of rtype, which implements the reflect.Type interface.
	runtimeErrorString types.Type             // the runtime.errorString type (iff "runtime" is present)
	sizes              types.Sizes            // the effective type-sizing function
	goroutines         int32                  // atomically updated
}

type deferred struct {
	fn    value
	args  []value
	instr *ssa.Defer
	tail  *deferred
}

type frame struct {
	i                *interpreter
	caller           *frame
	fn               *ssa.Function
	block, prevBlock *ssa.BasicBlock
	env              map[ssa.Value]value // dynamic values of SSA variables
	locals           []value
	defers           *deferred
	result           value
	panicking        bool
	panic            any
	phitemps         []value // temporaries for parallel phi assignment
	merge            *mergeInfo
}

func (fr *frame) get(key ssa.Value) value {
	switch key := key.(type) {
	case nil:
		// Hack; simplifies handling of optional attributes
		// such as ssa.Slice.{Low,High}.
		return nil
	case *ssa.Function, *ssa.Builtin:
		return key
	case *ssa.Const:
		return constValue(key)
	case *ssa.Global:
		if r, ok := fr.i.globals[key]; ok {
			return r
		}
	}
	if r, ok := fr.env[key]; ok {
		return r
	}
	panic(fmt.Sprintf("get: no value for %T: %v", key, key.Name()))
}

// runDefer runs a deferred call d.
// It always returns normally, but may set or clear fr.panic.
func (fr *frame) runDefer(d *deferred) {
	if fr.i.mode&EnableTracing != 0 {
		fmt.Fprintf(os.Stderr, "%s: invoking deferred function call\n",
			fr.i.prog.Fset.Position(d.instr.Pos()))
	}
	var ok bool
	defer func() {
		if !ok {
			// Deferred call created a new state of panic.
			fr.panicking = true
			fr.panic = recover()
		}
	}()
	call(fr.i, fr, d.instr.Pos(), d.fn, d.args)
	ok = true
}

// runDefers executes fr's deferred function calls in LIFO order.
//
// On entry, fr.panicking indicates a state of panic; if
// true, fr.panic contains the panic value.
//
// On completion, if a deferred call started a panic, or if no
// deferred call recovered from a previous state of panic, then
// runDefers itself panics after the last deferred call has run.
//
// If there was no initial state of panic, or it was recovered from,
// runDefers returns normally.
func (fr *frame) runDefers() {
	for d := fr.defers; d != nil; d = d.tail {
		fr.runDefer(d)
	}
	fr.defers = nil
	if fr.panicking {
		panic(fr.panic) // new panic, or still panicking
	}
}

// lookupMethod returns the method set for type typ, which may be one
// of the interpreter's fake types.
func lookupMethod(i *interpreter, typ types.Type, meth *types.Func) *ssa.Function {
	switch typ {
	case rtypeType:
		return i.rtypeMethods[meth.Id()]
	case errorType:
		return i.errorMethods[meth.Id()]
	}
	return i.prog.LookupMethod(typ, meth.Pkg(), meth.Name())
}

// visitInstr interprets a single ssa.Instruction within the activation
// record frame.  It returns a continuation value indicating where to
// read the next instruction from.
func visitInstr(fr *frame, instr ssa.Instruction) continuation {
	switch instr := instr.(type) {
	case *ssa.DebugRef:
		// no-op

	case *ssa.UnOp:
		fr.env[instr] = unop(instr, fr.get(instr.X))

	case *ssa.BinOp:
		fr.env[instr] = binop(instr.Op, instr.X.Type(), fr.get(instr.X), fr.get(instr.Y))

	case *ssa.Call:
		fn, args := prepareCall(fr, &instr.Call)
		fr.env[instr] = call(fr.i, fr, instr.Pos(), fn, args)

	case *ssa.ChangeInterface:
		fr.env[instr] = fr.get(instr.X)

	case *ssa.ChangeType:
		fr.env[instr] = fr.get(instr.X) // (can't fail)

	case *ssa.Convert:
		fr.env[instr] = conv(instr.Type(), instr.X.Type(), fr.get(instr.X))

	case *ssa.SliceToArrayPointer:
		fr.env[instr] = sliceToArrayPointer(instr.Type(), instr.X.Type(), fr.get(instr.X))

	case *ssa.MakeInterface:
		fr.env[instr] = iface{t: instr.X.Type(), v: fr.get(instr.X)}

	case *ssa.Extract:
		fr.env[instr] = fr.get(instr.Tuple).(tuple)[instr.Index]

	case *ssa.Slice:
		fr.env[instr] = slice(fr.get(instr.X), fr.get(instr.Low), fr.get(instr.High), fr.get(instr.Max))

	case *ssa.Return:
		switch len(instr.Results) {
		case 0:
		case 1:
			fr.result = fr.get(instr.Results[0])
		default:
			var res []value
			for _, r := range instr.Results {
				res = append(res, fr.get(r))
			}
			fr.result = tuple(res)
		}
		fr.block = nil
		return kReturn

	case *ssa.RunDefers:
		fr.runDefers()

	case *ssa.Panic:
		panic(targetPanic{fr.get(instr.X)})

	case *ssa.Send:
		fr.get(instr.Chan).(chan value) <- fr.get(instr.X)

	case *ssa.Store:
		if _, ok := fr.get(instr.Addr).(smiVal); ok {
			return kNext // writes through *smi only happen in core's init (cosmetic)
		}
		store(mustDeref(instr.Addr.Type()), fr.get(instr.Addr).(*value), fr.get(instr.Val))

	case *ssa.If:
		succ := 1
		if sc, ok := fr.get(instr.Cond).(*sym); ok && !noMerge {
			if tryMerge(fr, instr, sc) {
				return kJump
			}
		}
		if decideBool(fr, fr.get(instr.Cond)) {
			succ = 0
		}
		fr.prevBlock, fr.block = fr.block, fr.block.Succs[succ]
		return kJump

	case *ssa.Jump:
		fr.prevBlock, fr.block = fr.block, fr.block.Succs[0]
		return kJump

	case *ssa.Defer:
		fn, args := prepareCall(fr, &instr.Call)
		defers := &fr.defers
		if into := fr.get(instr.DeferStack); into != nil {
			defers = into.(**deferred)
		}
		*defers = &deferred{
			fn:    fn,
			args:  args,
			instr: instr,
			tail:  *defers,
		}

	case *ssa.Go:
		fn, args := prepareCall(fr, &instr.Call)
		i_ := fr.i
		eng.spawn(func() { call(i_, nil, instr.Pos(), fn, args) })

	case *ssa.MakeChan:
		fr.env[instr] = make(chan value, asInt64(fr.get(instr.Size)))

	case *ssa.Alloc:
		var addr *value
		if instr.Heap {
			// new
			addr = new(value)
			fr.env[instr] = addr
		} else {
			// local
			addr = fr.env[instr].(*value)
		}
		*addr = zero(mustDeref(instr.Type()))

	case *ssa.MakeSlice:
		slice := make([]value, asInt64(concretize(fr.get(instr.Cap))))
		tElt := instr.Type().Underlying().(*types.Slice).Elem()
		for i := range slice {
			slice[i] = zero(tElt)
		}
		fr.env[instr] = slice[:asInt64(concretize(fr.get(instr.Len)))]

	case *ssa.MakeMap:
		var reserve int64
		if instr.Reserve != nil {
			reserve = asInt64(fr.get(instr.Reserve))
		}
		if !fitsInt(reserve, fr.i.sizes) {
			panic(fmt.Sprintf("ssa.MakeMap.Reserve value %d does not fit in int", reserve))
		}
		fr.env[instr] = makeMap(instr.Type().Underlying().(*types.Map).Key(), reserve)

	case *ssa.Range:
		fr.env[instr] = rangeIter(fr.get(instr.X))

	case *ssa.Next:
		fr.env[instr] = fr.get(instr.Iter).(iter).next()

	case *ssa.FieldAddr:
		fr.env[instr] = &(*fr.get(instr.X).(*value)).(structure)[instr.Field]

	case *ssa.Field:
		fr.env[instr] = fr.get(instr.X).(structure)[instr.Field]

	case *ssa.IndexAddr:
		x := fr.get(instr.X)
		idx := fr.get(instr.Index)
		if _, ok := idx.(*sym); ok {
			switch xx := x.(type) {
			case []value:
				idx = concretizeIn(idx, 0, int64(len(xx))-1, "index")
			case *value:
				idx = concretizeIn(idx, 0, int64(len((*xx).(array)))-1, "index")
			}
		}
		switch x := x.(type) {
		case []value:
			fr.env[instr] = &x[asInt64(idx)]
		case *value: // *array
			fr.env[instr] = &(*x).(array)[asInt64(idx)]
		default:
			panic(fmt.Sprintf("unexpected x type in IndexAddr: %T", x))
		}

	case *ssa.Index:
		x := fr.get(instr.X)
		idx := fr.get(instr.Index)
		if _, ok := idx.(*sym); ok {
			switch xx := x.(type) {
			case array:
				idx = concretizeIn(idx, 0, int64(len(xx))-1, "index")
			case *symstr:
				idx = concretizeIn(idx, 0, int64(len(xx.b))-1, "index")
			case string:
				idx = concretizeIn(idx, 0, int64(len(xx))-1, "index")
			}
		}

		switch x := x.(type) {
		case array:
			fr.env[instr] = x[asInt64(idx)]
		case *symstr:
			fr.env[instr] = x.b[asInt64(idx)]
		case string:
			fr.env[instr] = x[asInt64(idx)]
		default:
			panic(fmt.Sprintf("unexpected x type in Index: %T", x))
		}

	case *ssa.Lookup:
		fr.env[instr] = lookup(instr, fr.get(instr.X), fr.get(instr.Index))

	case *ssa.MapUpdate:
		m := fr.get(instr.Map)
		key := fr.get(instr.Key)
		v := fr.get(instr.Value)
		mm := m.(*omap)
		if mm == nil {
			panic(targetPanic{iface{fr.i.runtimeErrorString, "assignment to entry in nil map"}})
		}
		mm.insert(key, v)

	case *ssa.TypeAssert:
		fr.env[instr] = typeAssert(instr, fr.get(instr.X).(iface))

	case *ssa.MakeClosure:
		var bindings []value
		for _, binding := range instr.Bindings {
			bindings = append(bindings, fr.get(binding))
		}
		fr.env[instr] = &closure{instr.Fn.(*ssa.Function), bindings}

	case *ssa.Phi:
		log.Fatal("unreachable") // phis are processed at block entry

	case *ssa.Select:
		var cases []reflect.SelectCase
		if !instr.Blocking {
			cases = append(cases, reflect.SelectCase{
				Dir: reflect.SelectDefault,
			})
		}
		for _, state := range instr.States {
			var dir reflect.SelectDir
			if state.Dir == types.RecvOnly {
				dir = reflect.SelectRecv
			} else {
				dir = reflect.SelectSend
			}
			var send reflect.Value
			if state.Send != nil {
				send = reflect.ValueOf(fr.get(state.Send))
			}
			cases = append(cases, reflect.SelectCase{
				Dir:  dir,
				Chan: reflect.ValueOf(fr.get(state.Chan)),
				Send: send,
			})
		}
		chosen, recv, recvOk := reflect.Select(cases)
		if !instr.Blocking {
			chosen-- // default case should have index -1.
		}
		r := tuple{chosen, recvOk}
		for i, st := range instr.States {
			if st.Dir == types.RecvOnly {
				var v value
				if i == chosen && recvOk {
					// No need to copy since send makes an unaliased copy.
					v = recv.Interface().(value)
				} else {
					v = zero(st.Chan.Type().Underlying().(*types.Chan).Elem())
				}
				r = append(r, v)
			}
		}
		fr.env[instr] = r

	default:
		panic(fmt.Sprintf("unexpected instruction: %T", instr))
	}

	// if val, ok := instr.(ssa.Value); ok {
	// 	fmt.Println(toString(fr.env[val])) // debugging
	// }

	return kNext
}

// prepareCall determines the function value and argument values for a
// function call in a Call, Go or Defer instruction, performing
// interface method lookup if needed.
func prepareCall(fr *frame, call *ssa.CallCommon) (fn value, args []value) {
	v := fr.get(call.Value)
	if call.Method == nil {
		// Function call.
		fn = v
	} else {
		// Interface method invocation.
		recv := v.(iface)
		if recv.t == nil {
			panic("method invoked on nil interface")
		}
		if f := lookupMethod(fr.i, recv.t, call.Method); f == nil {
			// Unreachable in well-typed programs.
			panic(fmt.Sprintf("method set for dynamic type %v does not contain %s", recv.t, call.Method))
		} else {
			fn = f
		}
		args = append(args, recv.v)
	}
	for _, arg := range call.Args {
		args = append(args, fr.get(arg))
	}
	return
}

// call interprets a call to a function (function, builtin or closure)
// fn with arguments args, returning its result.
// callpos is the position of the callsite.
func call(i *interpreter, caller *frame, callpos token.Pos, fn value, args []value) value {
	switch fn := fn.(type) {
	case *ssa.Function:
		if fn == nil {
			panic("call of nil function") // nil of func type
		}
		return callSSA(i, caller, callpos, fn, args, nil)
	case *closure:
		return callSSA(i, caller, callpos, fn.Fn, args, fn.Env)
	case *ssa.Builtin:
		return callBuiltin(caller, fn, args)
	}
	panic(fmt.Sprintf("cannot call %T", fn))
}

func loc(fset *token.FileSet, pos token.Pos) string {
	if pos == token.NoPos {
		return ""
	}
	return " at " + fset.Position(pos).String()
}

// callSSA interprets a call to function fn with arguments args,
// and lexical environment env, returning its result.
// callpos is the position of the callsite.
func callSSA(i *interpreter, caller *frame, callpos token.Pos, fn *ssa.Function, args []value, env []value) value {
	if i.mode&EnableTracing != 0 {
		fset := fn.Prog.Fset
		// TODO(adonovan): fix: loc() lies for external functions.
		fmt.Fprintf(os.Stderr, "Entering %s%s.\n", fn, loc(fset, fn.Pos()))
		suffix := ""
		if caller != nil {
			suffix = ", resuming " + caller.fn.String() + loc(fset, callpos)
		}
		defer fmt.Fprintf(os.Stderr, "Leaving %s%s.\n", fn, suffix)
	}
	fr := &frame{
		i:      i,
		caller: caller, // for panic/recover
		fn:     fn,
	}
	if fn.Synthetic == "package initializer" && fn.Pkg != nil && !allowInit(fn.Pkg.Pkg) {
		return nil
	}
	if eng != nil {
		eng.funcs[fn.String()] = true
	}
	depth_ := csPush(fn)
	if fn.Parent() == nil {
		name := fn.String()
		if r_, ok := prefixIntrinsic(fn, args); ok {
			csPop(depth_)
			return r_
		}
		if r_, ok := atomicIntrinsic(fn, args); ok {
			if eng != nil {
				eng.stubs["sync/atomic.* (engine scheduler)"] = true
			}
			csPop(depth_)
			return r_
		}
		if sf := summaryFns[name]; sf != nil {
			eng.stubs["summary:"+name+"="+sf.Name()] = true
			csPop(depth_)
			return callSSA(i, caller, callpos, sf, args, nil)
		}
		if havocFns[name] {
			eng.stubs["havoc:"+name] = true
			csPop(depth_)
			return havocResult(fn)
		}
		if ext := externals[name]; ext != nil {
			if i.mode&EnableTracing != 0 {
				fmt.Fprintln(os.Stderr, "\t(external)")
			}
			if eng != nil && !strings.HasPrefix(name, rtPath) {
				eng.stubs[name] = true
			}
			r_ := ext(fr, args)
			csPop(depth_)
			return r_
		}
		if fn.Blocks == nil {
			panic(unsupported("external function: " + name))
		}
	}

	// generic function body?
	if fn.TypeParams().Len() > 0 && len(fn.TypeArgs()) == 0 {
		panic("interp requires ssa.BuilderMode to include InstantiateGenerics to execute generics")
	}

	fr.env = make(map[ssa.Value]value)
	fr.block = fn.Blocks[0]
	fr.locals = make([]value, len(fn.Locals))
	for i, l := range fn.Locals {
		fr.locals[i] = zero(mustDeref(l.Type()))
		fr.env[l] = &fr.locals[i]
	}
	for i, p := range fn.Params {
		fr.env[p] = args[i]
	}
	for i, fv := range fn.FreeVars {
		fr.env[fv] = env[i]
	}
	for fr.block != nil {
		runFrame(fr)
	}
	// Destroy the locals to avoid accidental use after return.
	for i := range fn.Locals {
		fr.locals[i] = bad{}
	}
	csPop(depth_)
	return fr.result
}

// runFrame executes SSA instructions starting at fr.block and
// continuing until a return, a panic, or a recovered panic.
//
// After a panic, runFrame panics.
//
// After a normal return, fr.result contains the result of the call
// and fr.block is nil.
//
// A recovered panic in a function without named return parameters
// (NRPs) becomes a normal return of the zero value of the function's
// result type.
//
// After a recovered panic in a function with NRPs, fr.result is
// undefined and fr.block contains the block at which to resume
// control.
func runFrame(fr *frame) {
	defer func() {
		if fr.block == nil {
			return // normal return
		}
		if fr.i.mode&DisableRecover != 0 {
			return // let interpreter crash
		}
		fr.panicking = true
		fr.panic = recover()
		switch fr.panic.(type) {
		case abortPath, unsupportedErr:
			panic(fr.panic) // engine control flow: never visible to the target
		}
		if firstPanicStack == nil {
			firstPanicStack = append([]*ssa.Function{}, callStack...)
			firstPanicVal = fr.panic
		}
		if fr.i.mode&EnableTracing != 0 {
			fmt.Fprintf(os.Stderr, "Panicking: %T %v.\n", fr.panic, fr.panic)
		}
		fr.runDefers()
		fr.block = fr.fn.Recover
	}()

	for {
		if fr.i.mode&EnableTracing != 0 {
			fmt.Fprintf(os.Stderr, ".%s:\n", fr.block)
		}

		nonPhis := executePhis(fr)
		for _, instr := range nonPhis {
			if fr.i.mode&EnableTracing != 0 {
				if v, ok := instr.(ssa.Value); ok {
					fmt.Fprintln(os.Stderr, "\t", v.Name(), "=", instr)
				} else {
					fmt.Fprintln(os.Stderr, "\t", instr)
				}
			}
			if eng != nil {
				eng.steps++
				if eng.steps > eng.maxSteps {
					panic(abortPath{"step budget exhausted"})
				}
			}
			if visitInstr(fr, instr) == kReturn {
				return
			}
			// Inv: kNext (continue) or kJump (last instr)
		}
	}
}

// executePhis executes the phi-nodes at the start of the current
// block and returns the non-phi instructions.
func executePhis(fr *frame) []ssa.Instruction {
	firstNonPhi := -1
	for i, instr := range fr.block.Instrs {
		if _, ok := instr.(*ssa.Phi); !ok {
			firstNonPhi = i
			break
		}
	}
	// Inv: 0 <= firstNonPhi; every block contains a non-phi.

	nonPhis := fr.block.Instrs[firstNonPhi:]
	if firstNonPhi > 0 {
		phis := fr.block.Instrs[:firstNonPhi]
		// Execute parallel assignment of phis.
		//
		// See "the swap problem" in Briggs et al's "Practical Improvements
		// to the Construction and Destruction of SSA Form" for discussion.
		predIndex := slices.Index(fr.block.Preds, fr.prevBlock)
		fr.phitemps = fr.phitemps[:0]
		if m := fr.merge; m != nil {
			fr.merge = nil
			ri, ei := slices.Index(fr.block.Preds, m.rhs), slices.Index(fr.block.Preds, m.ent)
			for _, phi := range phis {
				phi := phi.(*ssa.Phi)
				fr.phitemps = append(fr.phitemps, iteVal(m.cond, fr.get(phi.Edges[ri]), fr.get(phi.Edges[ei])))
			}
			for i, phi := range phis {
				fr.env[phi.(*ssa.Phi)] = fr.phitemps[i]
			}
			return nonPhis
		}
		for _, phi := range phis {
			phi := phi.(*ssa.Phi)
			if fr.i.mode&EnableTracing != 0 {
				fmt.Fprintln(os.Stderr, "\t", phi.Name(), "=", phi)
			}
			fr.phitemps = append(fr.phitemps, fr.get(phi.Edges[predIndex]))
		}
		for i, phi := range phis {
			fr.env[phi.(*ssa.Phi)] = fr.phitemps[i]
		}
	}
	return nonPhis
}

// doRecover implements the recover() built-in.
func doRecover(caller *frame) value {
	// recover() must be exactly one level beneath the deferred
	// function (two levels beneath the panicking function) to
	// have any effect.  Thus we ignore both "defer recover()" and
	// "defer f() -> g() -> recover()".
	if caller.i.mode&DisableRecover == 0 &&
		caller != nil && !caller.panicking &&
		caller.caller != nil && caller.caller.panicking {
		caller.caller.panicking = false
		p := caller.caller.panic
		caller.caller.panic = nil

		// TODO(adonovan): support runtime.Goexit.
		switch p := p.(type) {
		case targetPanic:
			// The target program explicitly called panic().
			return p.v
		case exitPanic:
			// os.Exit cannot be recovered by the target: keep unwinding
			caller.caller.panicking = true
			caller.caller.panic = p
			panic(p)
		case runtime.Error:
			// The interpreter encountered a runtime error.
			if strings.Contains(p.Error(), "symgo.") {
				// a Go error inside the engine itself, not a target error: never visible to the target
				panic(unsupported("engine error: " + p.Error()))
			}
			return iface{caller.i.runtimeErrorString, p.Error()}
		case string:
			// The interpreter explicitly called panic().
			return iface{caller.i.runtimeErrorString, p}
		default:
			panic(fmt.Sprintf("unexpected panic type %T in target call to recover()", p))
		}
	}
	return iface{}
}

// Interpret interprets the Go program whose main package is mainpkg.
// mode specifies various interpreter options.  filename and args are
// the initial values of os.Args for the target program.  sizes is the
// effective type-sizing function for this program.
//
// Interpret returns the exit code of the program: 2 for panic (like
// gc does), or the argument to os.Exit for normal termination.
//
// The SSA program must include the "runtime" package.
//
// Type parameterized functions must have been built with
// InstantiateGenerics in the ssa.BuilderMode to be interpreted.
func Interpret(mainpkg *ssa.Package, mode Mode, sizes types.Sizes, filename string, args []string) (exitCode int) {
	i := &interpreter{
		prog:       mainpkg.Prog,
		globals:    make(map[*ssa.Global]*value),
		mode:       mode,
		sizes:      sizes,
		goroutines: 1,
	}
	runtimePkg := i.prog.ImportedPackage("runtime")
	if runtimePkg != nil {
		i.runtimeErrorString = runtimePkg.Type("errorString").Object().Type()
	}

	initReflect(i)

	i.osArgs = append(i.osArgs, filename)
	for _, arg := range args {
		i.osArgs = append(i.osArgs, arg)
	}

	for _, pkg := range i.prog.AllPackages() {
		// Initialize global storage.
		for _, m := range pkg.Members {
			switch v := m.(type) {
			case *ssa.Global:
				cell := zero(mustDeref(v.Type()))
				i.globals[v] = &cell
			}
		}
	}

	// Top-level error handler.
	exitCode = 2
	defer func() {
		if exitCode != 2 || i.mode&DisableRecover != 0 {
			return
		}
		switch p := recover().(type) {
		case exitPanic:
			exitCode = int(p)
			return
		case targetPanic:
			fmt.Fprintln(os.Stderr, "panic:", toString(p.v))
		case runtime.Error:
			fmt.Fprintln(os.Stderr, "panic:", p.Error())
		case string:
			fmt.Fprintln(os.Stderr, "panic:", p)
		default:
			fmt.Fprintf(os.Stderr, "panic: unexpected type: %T: %v\n", p, p)
		}

		// TODO(adonovan): dump panicking interpreter goroutine?
		// buf := make([]byte, 0x10000)
		// runtime.Stack(buf, false)
		// fmt.Fprintln(os.Stderr, string(buf))
		// (Or dump panicking target goroutine?)
	}()

	// Run!
	call(i, nil, token.NoPos, mainpkg.Func("init"), nil)
	if mainFn := mainpkg.Func("main"); mainFn != nil {
		call(i, nil, token.NoPos, mainFn, nil)
		exitCode = 0
	} else {
		fmt.Fprintln(os.Stderr, "No main function.")
		exitCode = 1
	}
	return
}
