package symgo

// Cooperative scheduler with a decision-driven schedule (spike).
// Interpreted goroutines run on host goroutines but only the baton holder runs.

import (
	"fmt"
)

type thread struct {
	id      int
	wake    chan bool // true = run, false = abort
	done    bool
	blocked func() bool // nil = runnable
}

type sched struct {
	threads []*thread
	cur     *thread
	failure any // panic value from a non-main thread
	switches int
	preempt  int // context switches away from a thread that could have continued
}

func (e *engine) resetSched() {
	// abort parked threads from previous path
	if e.sch != nil {
		for _, t := range e.sch.threads[1:] {
			if !t.done {
				t.wake <- false
			}
		}
	}
	main := &thread{id: 0, wake: make(chan bool)}
	e.sch = &sched{threads: []*thread{main}, cur: main}
}

// choose is a solver-free decision among n alternatives.
func (e *engine) choose(kind string, n int) int {
	if n <= 1 {
		return 0
	}
	if e.pos < len(e.prefix) {
		d := e.prefix[e.pos]
		e.pos++
		e.trace = append(e.trace, d)
		return int(d.Val)
	}
	e.pos++
	for i := 1; i < n; i++ {
		alt := append(append([]decision{}, e.trace...), decision{kind, int64(i)})
		e.pending = append(e.pending, alt)
	}
	e.trace = append(e.trace, decision{kind, 0})
	return 0
}

func (s *sched) runnable() []*thread {
	var r []*thread
	for _, t := range s.threads {
		if !t.done && (t.blocked == nil || !t.blocked()) {
			r = append(r, t)
		}
	}
	return r
}

// yield is called by the running thread at a visible operation.
func (e *engine) yield() {
	s := e.sch
	if s == nil || len(s.threads) == 1 {
		return
	}
	me := s.cur
	if maxPreempt >= 0 && s.preempt >= maxPreempt && (me.blocked == nil || !me.blocked()) && !me.done {
		return // pre-emption bound reached: the running thread keeps running until it blocks or ends
	}
	cands := s.runnable()
	if len(cands) == 0 {
		panic(abortPath{"deadlock"})
	}
	// prefer staying on the current thread as alternative 0 to keep context switches low
	for i, t := range cands {
		if t == me {
			cands[0], cands[i] = cands[i], cands[0]
		}
	}
	next := cands[e.choose("sched", len(cands))]
	if next == me {
		return
	}
	s.switches++
	s.preempt++
	s.cur = next
	next.wake <- true
	if ok := <-me.wake; !ok {
		panic(abortPath{"thread aborted"})
	}
	if s.failure != nil && me.id == 0 {
		f := s.failure
		s.failure = nil
		panic(f)
	}
}

// block parks the current thread until cond() is false... i.e. until blocked() returns false.
func (e *engine) blockUntil(ready func() bool) {
	s := e.sch
	me := s.cur
	for !ready() {
		me.blocked = func() bool { return !ready() }
		cands := s.runnable()
		if len(cands) == 0 {
			panic(abortPath{"deadlock"})
		}
		next := cands[e.choose("sched", len(cands))]
		s.cur = next
		next.wake <- true
		if ok := <-me.wake; !ok {
			panic(abortPath{"thread aborted"})
		}
		me.blocked = nil
		if s.failure != nil && me.id == 0 {
			f := s.failure
			s.failure = nil
			panic(f)
		}
	}
}

// spawn starts an interpreted goroutine.
func (e *engine) spawn(body func()) {
	if e.sch == nil {
		return // goroutines started by package init (background daemons) are not run
	}
	s := e.sch
	t := &thread{id: len(s.threads), wake: make(chan bool)}
	s.threads = append(s.threads, t)
	go func() {
		if ok := <-t.wake; !ok {
			return
		}
		defer func() {
			r := recover()
			t.done = true
			if r != nil {
				if ap, ok := r.(abortPath); ok && ap.reason == "thread aborted" {
					return
				}
				s.failure = r
			}
			// hand the baton on: to main if failing, else any runnable
			var next *thread
			if s.failure != nil {
				next = s.threads[0]
			} else {
				cands := s.runnable()
				if len(cands) == 0 {
					// everyone else is blocked or done: wake main to report deadlock/finish
					next = s.threads[0]
					if next.done {
						return
					}
					if next.blocked != nil && next.blocked() {
						s.failure = abortPath{"deadlock"}
					}
				} else {
					next = cands[e.chooseSafe(len(cands))]
				}
			}
			s.cur = next
			next.wake <- true
		}()
		body()
	}()
	e.yield()
}

func (e *engine) chooseSafe(n int) (r int) {
	defer func() {
		if x := recover(); x != nil {
			r = 0
		}
	}()
	return e.choose("sched", n)
}

// maxPreempt bounds the number of pre-emptive context switches per path (-1 = unbounded).
var maxPreempt = -1

func init() {
	_ = fmt.Sprint
}
