package symgo

// Hash-consed SMT terms (bit-vector and bool; spike).

import (
	"fmt"
	"math/big"
	"strings"
)

type Sort struct {
	Bool bool
	W    int // bit width for BV
}

var BoolSort = Sort{Bool: true}

func BV(w int) Sort { return Sort{W: w} }

func (s Sort) String() string {
	if s.Bool {
		return "Bool"
	}
	if s.W == -1 {
		return "Int"
	}
	return fmt.Sprintf("(_ BitVec %d)", s.W)
}

type Term struct {
	Op   string // "const", "var", smt op names
	Args []*Term
	Sort Sort
	Val  *big.Int // for const (bool: 0/1)
	Name string   // for var
	P1   int      // extract hi / extend amount
	P2   int      // extract lo
	id   int
}

type termTable struct {
	tab  map[string]*Term
	next int
}

var tt = &termTable{tab: map[string]*Term{}}

func (t *Term) key() string {
	var sb strings.Builder
	sb.WriteString(t.Op)
	sb.WriteByte('|')
	sb.WriteString(t.Sort.String())
	if t.Val != nil {
		sb.WriteString(t.Val.String())
	}
	sb.WriteString(t.Name)
	fmt.Fprintf(&sb, "|%d|%d", t.P1, t.P2)
	for _, a := range t.Args {
		fmt.Fprintf(&sb, ",%d", a.id)
	}
	return sb.String()
}

func intern(t *Term) *Term {
	k := t.key()
	if e, ok := tt.tab[k]; ok {
		return e
	}
	tt.next++
	t.id = tt.next
	tt.tab[k] = t
	return t
}

func mask(w int) *big.Int {
	m := new(big.Int).Lsh(big.NewInt(1), uint(w))
	return m.Sub(m, big.NewInt(1))
}

func ConstBV(v *big.Int, w int) *Term {
	x := new(big.Int).And(v, mask(w)) // two's complement wrap (big.Int And on negatives works as infinite 2's complement)
	return intern(&Term{Op: "const", Sort: BV(w), Val: x})
}

func ConstU(v uint64, w int) *Term { return ConstBV(new(big.Int).SetUint64(v), w) }

func ConstBool(b bool) *Term {
	v := big.NewInt(0)
	if b {
		v = big.NewInt(1)
	}
	return intern(&Term{Op: "const", Sort: BoolSort, Val: v})
}

var tTrue, tFalse *Term

func init() { tTrue, tFalse = ConstBool(true), ConstBool(false) }

func Var(name string, s Sort) *Term { return intern(&Term{Op: "var", Sort: s, Name: name}) }

func (t *Term) IsConst() bool { return t.Op == "const" }

func (t *Term) signed() *big.Int {
	v := new(big.Int).Set(t.Val)
	if v.Bit(t.Sort.W-1) == 1 {
		v.Sub(v, new(big.Int).Lsh(big.NewInt(1), uint(t.Sort.W)))
	}
	return v
}

func mk(op string, s Sort, args ...*Term) *Term {
	return intern(&Term{Op: op, Sort: s, Args: args})
}

// BVBin builds a bit-vector binary op with constant folding.
func BVBin(op string, a, b *Term) *Term {
	w := a.Sort.W
	if a.IsConst() && b.IsConst() {
		x, y := a.Val, b.Val
		r := new(big.Int)
		switch op {
		case "bvadd":
			return ConstBV(r.Add(x, y), w)
		case "bvsub":
			return ConstBV(r.Sub(x, y), w)
		case "bvmul":
			return ConstBV(r.Mul(x, y), w)
		case "bvand":
			return ConstBV(r.And(x, y), w)
		case "bvor":
			return ConstBV(r.Or(x, y), w)
		case "bvxor":
			return ConstBV(r.Xor(x, y), w)
		case "bvudiv":
			if y.Sign() != 0 {
				return ConstBV(r.Quo(x, y), w)
			}
		case "bvurem":
			if y.Sign() != 0 {
				return ConstBV(r.Rem(x, y), w)
			}
		case "bvsdiv":
			if y.Sign() != 0 {
				return ConstBV(r.Quo(a.signed(), b.signed()), w)
			}
		case "bvsrem":
			if y.Sign() != 0 {
				return ConstBV(r.Rem(a.signed(), b.signed()), w)
			}
		case "bvshl":
			if y.IsUint64() && y.Uint64() < uint64(w) {
				return ConstBV(r.Lsh(x, uint(y.Uint64())), w)
			}
			return ConstU(0, w)
		case "bvlshr":
			if y.IsUint64() && y.Uint64() < uint64(w) {
				return ConstBV(r.Rsh(x, uint(y.Uint64())), w)
			}
			return ConstU(0, w)
		case "bvashr":
			sh := uint(w - 1)
			if y.IsUint64() && y.Uint64() < uint64(w) {
				sh = uint(y.Uint64())
			}
			return ConstBV(r.Rsh(a.signed(), sh), w)
		}
	}
	// light simplifications
	switch op {
	case "bvadd", "bvor", "bvxor":
		if a.IsConst() && a.Val.Sign() == 0 {
			return b
		}
		if b.IsConst() && b.Val.Sign() == 0 {
			return a
		}
	case "bvsub", "bvshl", "bvlshr", "bvashr":
		if b.IsConst() && b.Val.Sign() == 0 {
			return a
		}
	case "bvand":
		if (a.IsConst() && a.Val.Sign() == 0) || (b.IsConst() && b.Val.Sign() == 0) {
			return ConstU(0, w)
		}
		if a.IsConst() && a.Val.Cmp(mask(w)) == 0 {
			return b
		}
		if b.IsConst() && b.Val.Cmp(mask(w)) == 0 {
			return a
		}
	case "bvmul":
		if a.IsConst() && a.Val.Cmp(big.NewInt(1)) == 0 {
			return b
		}
		if b.IsConst() && b.Val.Cmp(big.NewInt(1)) == 0 {
			return a
		}
	}
	return mk(op, BV(w), a, b)
}

// BVCmp builds a comparison producing Bool.
func BVCmp(op string, a, b *Term) *Term {
	if a.IsConst() && b.IsConst() {
		var r bool
		switch op {
		case "=":
			r = a.Val.Cmp(b.Val) == 0
		case "bvult":
			r = a.Val.Cmp(b.Val) < 0
		case "bvule":
			r = a.Val.Cmp(b.Val) <= 0
		case "bvslt":
			r = a.signed().Cmp(b.signed()) < 0
		case "bvsle":
			r = a.signed().Cmp(b.signed()) <= 0
		default:
			panic("BVCmp " + op)
		}
		return ConstBool(r)
	}
	if op == "=" && a == b {
		return tTrue
	}
	return mk(op, BoolSort, a, b)
}

func Not(a *Term) *Term {
	if a.IsConst() {
		return ConstBool(a.Val.Sign() == 0)
	}
	if a.Op == "not" {
		return a.Args[0]
	}
	return mk("not", BoolSort, a)
}

func And(a, b *Term) *Term {
	if a.IsConst() {
		if a.Val.Sign() == 0 {
			return tFalse
		}
		return b
	}
	if b.IsConst() {
		if b.Val.Sign() == 0 {
			return tFalse
		}
		return a
	}
	return mk("and", BoolSort, a, b)
}

func Or(a, b *Term) *Term { return Not(And(Not(a), Not(b))) }

func BoolEq(a, b *Term) *Term {
	if a.IsConst() && b.IsConst() {
		return ConstBool(a.Val.Cmp(b.Val) == 0)
	}
	if a == b {
		return tTrue
	}
	return mk("=", BoolSort, a, b)
}

func Ite(c, a, b *Term) *Term {
	if c.IsConst() {
		if c.Val.Sign() != 0 {
			return a
		}
		return b
	}
	if a == b {
		return a
	}
	return mk("ite", a.Sort, c, a, b)
}

func BVNot(a *Term) *Term {
	if a.IsConst() {
		return ConstBV(new(big.Int).Xor(a.Val, mask(a.Sort.W)), a.Sort.W)
	}
	return mk("bvnot", a.Sort, a)
}

func BVNeg(a *Term) *Term {
	if a.IsConst() {
		return ConstBV(new(big.Int).Neg(a.Val), a.Sort.W)
	}
	return mk("bvneg", a.Sort, a)
}

func Extract(a *Term, hi, lo int) *Term {
	if hi == a.Sort.W-1 && lo == 0 {
		return a
	}
	if a.IsConst() {
		v := new(big.Int).Rsh(a.Val, uint(lo))
		return ConstBV(v, hi-lo+1)
	}
	return intern(&Term{Op: "extract", Sort: BV(hi - lo + 1), Args: []*Term{a}, P1: hi, P2: lo})
}

func ZeroExt(a *Term, w int) *Term {
	if w == a.Sort.W {
		return a
	}
	if a.IsConst() {
		return ConstBV(a.Val, w)
	}
	return intern(&Term{Op: "zero_extend", Sort: BV(w), Args: []*Term{a}, P1: w - a.Sort.W})
}

func SignExt(a *Term, w int) *Term {
	if w == a.Sort.W {
		return a
	}
	if a.IsConst() {
		return ConstBV(a.signed(), w)
	}
	return intern(&Term{Op: "sign_extend", Sort: BV(w), Args: []*Term{a}, P1: w - a.Sort.W})
}

// Resize converts between widths: truncate or extend (signed per flag).
func Resize(a *Term, w int, signed bool) *Term {
	switch {
	case w == a.Sort.W:
		return a
	case w < a.Sort.W:
		return Extract(a, w-1, 0)
	case signed:
		return SignExt(a, w)
	default:
		return ZeroExt(a, w)
	}
}

// ---- printing

type printer struct {
	defined map[*Term]bool
	out     *strings.Builder
	decls   *strings.Builder
}

// smt returns the SMT-LIB text of t, emitting declare-const for vars into decl (once each).
func (p *printer) smt(t *Term) string {
	switch t.Op {
	case "const":
		if t.Sort.Bool {
			if t.Val.Sign() != 0 {
				return "true"
			}
			return "false"
		}
		if t.Sort.W == -1 {
			if t.Val.Sign() < 0 {
				return "(- " + new(big.Int).Neg(t.Val).String() + ")"
			}
			return t.Val.String()
		}
		return fmt.Sprintf("(_ bv%s %d)", t.Val.String(), t.Sort.W)
	case "var":
		if !p.defined[t] {
			p.defined[t] = true
			fmt.Fprintf(p.decls, "(declare-const %s %s)\n", t.Name, t.Sort)
		}
		return t.Name
	}
	// shared subterms: name them via define-fun once (only if they have children)
	if p.defined[t] {
		return fmt.Sprintf("t!%d", t.id)
	}
	args := make([]string, len(t.Args))
	for i, a := range t.Args {
		args[i] = p.smt(a)
	}
	var body string
	switch t.Op {
	case "extract":
		body = fmt.Sprintf("((_ extract %d %d) %s)", t.P1, t.P2, args[0])
	case "zero_extend", "sign_extend":
		body = fmt.Sprintf("((_ %s %d) %s)", t.Op, t.P1, args[0])
	default:
		body = "(" + t.Op + " " + strings.Join(args, " ") + ")"
	}
	p.defined[t] = true
	fmt.Fprintf(p.decls, "(define-fun t!%d () %s %s)\n", t.id, t.Sort, body)
	return fmt.Sprintf("t!%d", t.id)
}
