package symgo

import (
	"go/token"
	"go/types"
)

func byteEq(a, b value) bool {
	return decideBool(nil, binop(token.EQL, types.Typ[types.Uint8], a, b))
}

func matchAt(s, sub []value, i int) bool {
	for j := range sub {
		if !byteEq(s[i+j], sub[j]) {
			return false
		}
	}
	return true
}

func indexOf(s, sub []value, from int) int {
	for i := from; i+len(sub) <= len(s); i++ {
		if matchAt(s, sub, i) {
			return i
		}
	}
	return -1
}

func init() {
	externals["strings.IndexByte"] = func(fr *frame, a []value) value {
		s := strBytes(a[0])
		for i := range s {
			if byteEq(s[i], a[1]) {
				return i
			}
		}
		return -1
	}
	externals["bytes.IndexByte"] = func(fr *frame, a []value) value {
		s := a[0].([]value)
		for i := range s {
			if byteEq(s[i], a[1]) {
				return i
			}
		}
		return -1
	}
	externals["strings.Index"] = func(fr *frame, a []value) value { return indexOf(strBytes(a[0]), strBytes(a[1]), 0) }
	externals["strings.Contains"] = func(fr *frame, a []value) value { return indexOf(strBytes(a[0]), strBytes(a[1]), 0) >= 0 }
	externals["strings.LastIndex"] = func(fr *frame, a []value) value {
		s, sub := strBytes(a[0]), strBytes(a[1])
		for i := len(s) - len(sub); i >= 0; i-- {
			if matchAt(s, sub, i) {
				return i
			}
		}
		return -1
	}
	externals["strings.HasPrefix"] = func(fr *frame, a []value) value {
		s, p := strBytes(a[0]), strBytes(a[1])
		return len(s) >= len(p) && matchAt(s, p, 0)
	}
	externals["strings.HasSuffix"] = func(fr *frame, a []value) value {
		s, p := strBytes(a[0]), strBytes(a[1])
		return len(s) >= len(p) && matchAt(s, p, len(s)-len(p))
	}
	externals["strings.Compare"] = func(fr *frame, a []value) value {
		if decideBool(fr, strEq(a[0], a[1])) {
			return 0
		}
		if decideBool(fr, strLess(a[0], a[1], false)) {
			return -1
		}
		return 1
	}
	externals["strings.Count"] = func(fr *frame, a []value) value {
		s, sub := strBytes(a[0]), strBytes(a[1])
		if len(sub) == 0 {
			return len(s) + 1
		}
		n := 0
		for i := 0; ; {
			j := indexOf(s, sub, i)
			if j < 0 {
				return n
			}
			n++
			i = j + len(sub)
		}
	}
	externals["strings.Split"] = func(fr *frame, a []value) value {
		s, sep := strBytes(a[0]), strBytes(a[1])
		var res []value
		i := 0
		for {
			j := indexOf(s, sep, i)
			if j < 0 || len(sep) == 0 {
				break
			}
			res = append(res, mkStr(s[i:j]))
			i = j + len(sep)
		}
		res = append(res, mkStr(s[i:]))
		return res
	}
	externals["strings.ReplaceAll"] = func(fr *frame, a []value) value {
		s, old, nw := strBytes(a[0]), strBytes(a[1]), strBytes(a[2])
		var out []value
		i := 0
		for len(old) > 0 {
			j := indexOf(s, old, i)
			if j < 0 {
				break
			}
			out = append(out, s[i:j]...)
			out = append(out, nw...)
			i = j + len(old)
		}
		out = append(out, s[i:]...)
		return mkStr(out)
	}
	externals["strings.Clone"] = func(fr *frame, a []value) value { return a[0] }
}

func init() {
	externals["(*strings.Builder).copyCheck"] = func(fr *frame, a []value) value { return nil }
	externals["(*strings.Builder).Grow"] = func(fr *frame, a []value) value { return nil }
	externals["(*strings.Builder).String"] = func(fr *frame, a []value) value {
		st := (*a[0].(*value)).(structure)
		buf, _ := st[1].([]value)
		return mkStr(buf)
	}
}

func init() {
	// Go >= 1.23 routes strings.Cut/Index/... through internal/stringslite and internal/bytealg
	externals["internal/bytealg.IndexByteString"] = externals["strings.IndexByte"]
	externals["internal/bytealg.IndexByte"] = externals["bytes.IndexByte"]
	externals["internal/stringslite.IndexByte"] = externals["strings.IndexByte"]
	externals["internal/stringslite.Index"] = externals["strings.Index"]
	externals["internal/bytealg.IndexString"] = externals["strings.Index"]
	externals["internal/stringslite.HasPrefix"] = externals["strings.HasPrefix"]
	externals["internal/stringslite.HasSuffix"] = externals["strings.HasSuffix"]
	externals["internal/bytealg.CountString"] = func(fr *frame, a []value) value {
		s := strBytes(a[0])
		n := 0
		for i := range s {
			if byteEq(s[i], a[1]) {
				n++
			}
		}
		return n
	}
	externals["internal/bytealg.LastIndexByteString"] = func(fr *frame, a []value) value {
		s := strBytes(a[0])
		for i := len(s) - 1; i >= 0; i-- {
			if byteEq(s[i], a[1]) {
				return i
			}
		}
		return -1
	}
	externals["strings.LastIndexByte"] = externals["internal/bytealg.LastIndexByteString"]
}
