package symgo

import (
	"go/token"
	"go/types"
	"strconv"
)

func byteEq(a, b value) bool {
	return decideBool(nil, binop(token.EQL, types.Typ[types.Uint8], a, b))
}

func matchAt(s, sub []value, i int) bool {
	for j := range sub {
		if !byteEq(s[i+j], sub[j]) {
			return false
		}
	}
	return true
}

func indexOf(s, sub []value, from int) int {
	for i := from; i+len(sub) <= len(s); i++ {
		if matchAt(s, sub, i) {
			return i
		}
	}
	return -1
}

func init() {
	externals["strings.IndexByte"] = func(fr *frame, a []value) value {
		s := strBytes(a[0])
		for i := range s {
			if byteEq(s[i], a[1]) {
				return i
			}
		}
		return -1
	}
	externals["bytes.IndexByte"] = func(fr *frame, a []value) value {
		s := a[0].([]value)
		for i := range s {
			if byteEq(s[i], a[1]) {
				return i
			}
		}
		return -1
	}
	externals["strings.Index"] = func(fr *frame, a []value) value { return indexOf(strBytes(a[0]), strBytes(a[1]), 0) }
	externals["strings.Contains"] = func(fr *frame, a []value) value { return indexOf(strBytes(a[0]), strBytes(a[1]), 0) >= 0 }
	externals["strings.LastIndex"] = func(fr *frame, a []value) value {
		s, sub := strBytes(a[0]), strBytes(a[1])
		for i := len(s) - len(sub); i >= 0; i-- {
			if matchAt(s, sub, i) {
				return i
			}
		}
		return -1
	}
	externals["strings.HasPrefix"] = func(fr *frame, a []value) value {
		s, p := strBytes(a[0]), strBytes(a[1])
		return len(s) >= len(p) && matchAt(s, p, 0)
	}
	externals["strings.HasSuffix"] = func(fr *frame, a []value) value {
		s, p := strBytes(a[0]), strBytes(a[1])
		return len(s) >= len(p) && matchAt(s, p, len(s)-len(p))
	}
	externals["strings.Compare"] = func(fr *frame, a []value) value {
		if decideBool(fr, strEq(a[0], a[1])) {
			return 0
		}
		if decideBool(fr, strLess(a[0], a[1], false)) {
			return -1
		}
		return 1
	}
	externals["strings.Count"] = func(fr *frame, a []value) value {
		s, sub := strBytes(a[0]), strBytes(a[1])
		if len(sub) == 0 {
			return len(s) + 1
		}
		n := 0
		for i := 0; ; {
			j := indexOf(s, sub, i)
			if j < 0 {
				return n
			}
			n++
			i = j + len(sub)
		}
	}
	externals["strings.Split"] = func(fr *frame, a []value) value {
		s, sep := strBytes(a[0]), strBytes(a[1])
		var res []value
		i := 0
		for {
			j := indexOf(s, sep, i)
			if j < 0 || len(sep) == 0 {
				break
			}
			res = append(res, mkStr(s[i:j]))
			i = j + len(sep)
		}
		res = append(res, mkStr(s[i:]))
		return res
	}
	externals["strings.ReplaceAll"] = func(fr *frame, a []value) value {
		s, old, nw := strBytes(a[0]), strBytes(a[1]), strBytes(a[2])
		var out []value
		i := 0
		for len(old) > 0 {
			j := indexOf(s, old, i)
			if j < 0 {
				break
			}
			out = append(out, s[i:j]...)
			out = append(out, nw...)
			i = j + len(old)
		}
		out = append(out, s[i:]...)
		return mkStr(out)
	}
	externals["strings.Clone"] = func(fr *frame, a []value) value { return a[0] }
}

func init() {
	externals["(*strings.Builder).copyCheck"] = func(fr *frame, a []value) value { return nil }
	externals["(*strings.Builder).Grow"] = func(fr *frame, a []value) value { return nil }
	externals["(*strings.Builder).String"] = func(fr *frame, a []value) value {
		st := (*a[0].(*value)).(structure)
		buf, _ := st[1].([]value)
		return mkStr(buf)
	}
}

func init() {
	// Go >= 1.23 routes strings.Cut/Index/... through internal/stringslite and internal/bytealg
	externals["internal/bytealg.IndexByteString"] = externals["strings.IndexByte"]
	externals["internal/bytealg.IndexByte"] = externals["bytes.IndexByte"]
	externals["internal/stringslite.IndexByte"] = externals["strings.IndexByte"]
	externals["internal/stringslite.Index"] = externals["strings.Index"]
	externals["internal/bytealg.IndexString"] = externals["strings.Index"]
	externals["internal/stringslite.HasPrefix"] = externals["strings.HasPrefix"]
	externals["internal/stringslite.HasSuffix"] = externals["strings.HasSuffix"]
	externals["internal/bytealg.CountString"] = func(fr *frame, a []value) value {
		s := strBytes(a[0])
		n := 0
		for i := range s {
			if byteEq(s[i], a[1]) {
				n++
			}
		}
		return n
	}
	externals["internal/bytealg.LastIndexByteString"] = func(fr *frame, a []value) value {
		s := strBytes(a[0])
		for i := len(s) - 1; i >= 0; i-- {
			if byteEq(s[i], a[1]) {
				return i
			}
		}
		return -1
	}
	externals["strings.LastIndexByte"] = externals["internal/bytealg.LastIndexByteString"]
}

// symFormatUint renders a symbolic non-negative integer u (already converted to uint64) in base
// 10 or 16 as a string of symbolic digit characters; the number of digits is decided by forking.
func symFormatUint(u value, base int) []value {
	u64 := types.Typ[types.Uint64]
	cst := func(n uint64) value { return n }
	// number of digits
	nd := 1
	lim := uint64(base)
	for {
		if decideBool(nil, binop(token.LSS, u64, u, cst(lim))) {
			break
		}
		nd++
		next := lim * uint64(base)
		if next/uint64(base) != lim { // overflow: all remaining values have nd digits
			break
		}
		lim = next
	}
	out := make([]value, nd)
	pow := uint64(1)
	for i := nd - 1; i >= 0; i-- {
		var d value
		if base == 16 {
			d = binop(token.AND, u64, binop(token.SHR, u64, u, cst(uint64(4*(nd-1-i)))), cst(15))
		} else {
			d = binop(token.REM, u64, binop(token.QUO, u64, u, cst(pow)), cst(10))
			pow *= 10
		}
		var ch value
		if base == 16 {
			isDec := binop(token.LSS, u64, d, cst(10))
			lo := binop(token.ADD, u64, d, cst('0'))
			hi := binop(token.ADD, u64, d, cst('a'-10))
			if b, ok := isDec.(bool); ok {
				if b {
					ch = lo
				} else {
					ch = hi
				}
			} else {
				ch = iteVal(isDec.(*sym).T, lo, hi)
			}
		} else {
			ch = binop(token.ADD, u64, d, cst('0'))
		}
		out[i] = conv(types.Typ[types.Uint8], u64, ch)
	}
	return out
}

func symFormatInt(v value, t types.Type, base int) []value {
	i64 := types.Typ[types.Int64]
	x := conv(i64, t, v)
	if decideBool(nil, binop(token.LSS, i64, x, int64(0))) {
		neg := unop2(token.SUB, x)
		return append([]value{byte('-')}, symFormatUint(conv(types.Typ[types.Uint64], i64, neg), base)...)
	}
	return symFormatUint(conv(types.Typ[types.Uint64], i64, x), base)
}

func unop2(op token.Token, x value) value {
	if s, ok := x.(*sym); ok {
		return symUnop(op, s)
	}
	return -x.(int64)
}

func init() {
	wrap := func(name string, isAppend bool, unsigned bool, fallback func(fr *frame, a []value) value) {
		externals[name] = func(fr *frame, a []value) value {
			vi := 0
			if isAppend {
				vi = 1
			}
			baseV := 10
			if len(a) > vi+1 {
				bv, ok := a[vi+1].(int)
				if !ok {
					panic(unsupported(name + " with symbolic base"))
				}
				baseV = bv
			}
			if _, ok := a[vi].(*sym); !ok || (baseV != 10 && baseV != 16) {
				return fallback(fr, a)
			}
			var digs []value
			if unsigned {
				digs = symFormatUint(a[vi], baseV)
			} else {
				digs = symFormatInt(a[vi], types.Typ[types.Int64], baseV)
			}
			if isAppend {
				return append(append([]value{}, a[0].([]value)...), digs...)
			}
			return mkStr(digs)
		}
	}
	toBytes := func(s string) []value {
		r := make([]value, len(s))
		for i := range r {
			r[i] = s[i]
		}
		return r
	}
	wrap("strconv.AppendInt", true, false, func(fr *frame, a []value) value {
		return append(append([]value{}, a[0].([]value)...), toBytes(strconv.FormatInt(a[1].(int64), a[2].(int)))...)
	})
	wrap("strconv.AppendUint", true, true, func(fr *frame, a []value) value {
		return append(append([]value{}, a[0].([]value)...), toBytes(strconv.FormatUint(a[1].(uint64), a[2].(int)))...)
	})
	wrap("strconv.FormatInt", false, false, func(fr *frame, a []value) value {
		return strconv.FormatInt(a[0].(int64), a[1].(int))
	})
	wrap("strconv.FormatUint", false, true, func(fr *frame, a []value) value {
		return strconv.FormatUint(a[0].(uint64), a[1].(int))
	})
	prevItoa := externals["strconv.Itoa"]
	externals["strconv.Itoa"] = func(fr *frame, a []value) value {
		if _, ok := a[0].(*sym); ok {
			return mkStr(symFormatInt(a[0], types.Typ[types.Int], 10))
		}
		return prevItoa(fr, a)
	}
}

func init() {
	// bytes.* search functions: exact semantics by position-wise comparison (the std versions use
	// Rabin-Karp hashing, whose multiplications are hopeless for the solver on symbolic bytes)
	bs := func(v value) []value {
		if v == nil {
			return nil
		}
		return v.([]value)
	}
	externals["bytes.Index"] = func(fr *frame, a []value) value { return indexOf(bs(a[0]), bs(a[1]), 0) }
	externals["bytes.Contains"] = func(fr *frame, a []value) value { return indexOf(bs(a[0]), bs(a[1]), 0) >= 0 }
	externals["bytes.LastIndex"] = func(fr *frame, a []value) value {
		s, sub := bs(a[0]), bs(a[1])
		for i := len(s) - len(sub); i >= 0; i-- {
			if matchAt(s, sub, i) {
				return i
			}
		}
		return -1
	}
	externals["bytes.HasPrefix"] = func(fr *frame, a []value) value {
		s, p := bs(a[0]), bs(a[1])
		return len(s) >= len(p) && matchAt(s, p, 0)
	}
	externals["bytes.HasSuffix"] = func(fr *frame, a []value) value {
		s, p := bs(a[0]), bs(a[1])
		return len(s) >= len(p) && matchAt(s, p, len(s)-len(p))
	}
}
