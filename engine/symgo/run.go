package symgo

import (
	"encoding/json"
	"fmt"
	"go/token"
	"go/types"
	"math/rand"
	"os"
	"path/filepath"
	"regexp"
	"runtime/debug"
	"sort"
	"strings"
	"time"

	"golang.org/x/tools/go/packages"
	"golang.org/x/tools/go/ssa"
	"golang.org/x/tools/go/ssa/ssautil"
)

const modPath = "github.com/apmckinlay/gsuneido"
const rtPath = modPath + "/zzverifrt"

var initAllow = map[string]bool{"strconv": true, "math": true, "math/bits": true, "unicode/utf8": true, "strings": true, "bytes": true, "sort": true, "slices": true, "cmp": true, "time": true}

func allowInit(pkg *types.Package) bool {
	p := pkg.Path()
	return strings.HasPrefix(p, modPath) || initAllow[p]
}

// Shrink replaces one constant declaration in a working-tree file (through the overlay).
type Shrink struct {
	File  string `json:"file"`  // relative to the repo root
	Const string `json:"const"` // identifier
	Value string `json:"value"`
}

// Spec describes one harness run.
type Spec struct {
	Repo      string            `json:"repo"`
	Overlay   map[string]string `json:"overlay"` // virtual path -> real file
	Shrinks   []Shrink          `json:"shrinks"`
	Patterns  []string          `json:"patterns"`
	Pkg       string            `json:"pkg"` // import path of the harness package
	Fn        string            `json:"fn"`
	Arith     string            `json:"arith"`
	MaxPaths  int               `json:"maxpaths"`
	MaxSteps  int               `json:"maxsteps"`
	QTimeout  int               `json:"qtimeout_ms"`
	TimeoutS  int               `json:"timeout_s"`
	ShardI    int               `json:"shard_i"`
	ShardN    int               `json:"shard_n"`
	Thorough  bool              `json:"thorough"`
	NConf     int               `json:"nconf"`
	Seed      int64             `json:"seed"`
	Solver    string            `json:"solver"`
	NoMerge   bool              `json:"nomerge"`
	Havoc     []string          `json:"havoc"` // functions replaced by an unconstrained result (over-approximation)
	MaxPreempt *int             `json:"max_preempt"` // bound on pre-emptive context switches per path (nil = unbounded)
	Summaries []string          `json:"summaries"` // "pkg.fn=HarnessFn": calls to fn run HarnessFn (same package as the harness) instead
}

// Result is what one harness run (one shard) reports.
type Result struct {
	Harness    string         `json:"harness"`
	Pkg        string         `json:"pkg"`
	Shard      string         `json:"shard"`
	Arith      string         `json:"arith"`
	Status     string         `json:"status"` // ok | violations | inconclusive | error
	Error      string         `json:"error,omitempty"`
	Paths      int            `json:"paths"`
	Completed  int            `json:"completed"`
	Aborted    int            `json:"aborted"`
	Decisions  int            `json:"decisions"`
	Queries    map[string]int `json:"queries"`
	CacheHits  int            `json:"cache_hits"`
	SolverS    float64        `json:"solver_s"`
	LoadS      float64        `json:"load_s"`
	WallS      float64        `json:"wall_s"`
	Solver     string         `json:"solver"`
	Reach      map[string]int `json:"reach"`
	Asserts    map[string]int `json:"asserts"`
	Inconcl    map[string]int `json:"inconclusive,omitempty"`
	Functions  []string       `json:"functions_encoded"`
	Stubs      []string       `json:"stubs"`
	Shrunk     []Shrink       `json:"shrunk_constants,omitempty"`
	Violations []violation    `json:"violations,omitempty"`
	Conf       []confSample   `json:"conformance,omitempty"`
	Pending    int            `json:"pending_left"`
}

// BuildOverlay reads the overlay files and applies the constant shrinks.
func BuildOverlay(spec *Spec) (map[string][]byte, error) {
	ov := map[string][]byte{}
	for virt, real := range spec.Overlay {
		b, err := os.ReadFile(real)
		if err != nil {
			return nil, err
		}
		ov[virt] = b
	}
	for _, sh := range spec.Shrinks {
		p := filepath.Join(spec.Repo, sh.File)
		src, ok := ov[p]
		if !ok {
			var err error
			if src, err = os.ReadFile(p); err != nil {
				return nil, err
			}
		}
		re := regexp.MustCompile(`(?m)^(\s*(?:const|var)?\s*)` + regexp.QuoteMeta(sh.Const) + `(\s*(?:[A-Za-z0-9_.]+\s*)?=\s*)[^\n/]+`)
		if !re.Match(src) {
			return nil, fmt.Errorf("shrink target %s not found in %s", sh.Const, sh.File)
		}
		done := false
		ov[p] = re.ReplaceAllFunc(src, func(m []byte) []byte {
			if done {
				return m
			}
			done = true
			sub := re.FindSubmatch(m)
			return []byte(string(sub[1]) + sh.Const + string(sub[2]) + sh.Value)
		})
	}
	return ov, nil
}

// Run loads the packages from the repo working tree with the overlay and explores the harness.
func Run(spec *Spec) (res *Result) {
	t0 := time.Now()
	res = &Result{Harness: spec.Fn, Pkg: spec.Pkg, Arith: spec.Arith, Status: "error", Queries: map[string]int{},
		Shard: fmt.Sprintf("%d/%d", spec.ShardI, max1(spec.ShardN)), Shrunk: spec.Shrinks}
	IntMode = spec.Arith == "int"
	noMerge = spec.NoMerge
	havocFns = map[string]bool{}
	for _, h := range spec.Havoc {
		if !strings.Contains(h, modPath) {
			h = strings.Replace(h, "(*", "(*"+modPath+"/", 1)
			if !strings.Contains(h, modPath) {
				h = modPath + "/" + h
			}
		}
		havocFns[h] = true
	}
	maxPreempt = -1
	if spec.MaxPreempt != nil {
		maxPreempt = *spec.MaxPreempt
	}
	summaryNames = map[string]string{}
	summaryFns = map[string]*ssa.Function{}
	for _, sm := range spec.Summaries {
		kv := strings.SplitN(sm, "=", 2)
		if len(kv) != 2 {
			continue
		}
		h := kv[0]
		if !strings.Contains(h, modPath) {
			h = strings.Replace(h, "(*", "(*"+modPath+"/", 1)
			if !strings.Contains(h, modPath) {
				h = modPath + "/" + h
			}
		}
		summaryNames[h] = kv[1]
	}
	overlay, err := BuildOverlay(spec)
	if err != nil {
		res.Error = err.Error()
		res.Status = "inconclusive"
		res.Inconcl = map[string]int{err.Error(): 1}
		return
	}
	cfg := &packages.Config{Mode: packages.LoadAllSyntax, Dir: spec.Repo, Overlay: overlay}
	pkgs, err := packages.Load(cfg, spec.Patterns...)
	if err != nil {
		res.Error = err.Error()
		return
	}
	nerr := 0
	packages.Visit(pkgs, nil, func(p *packages.Package) {
		for _, e := range p.Errors {
			if nerr < 10 {
				res.Error += fmt.Sprintf("LOAD ERROR %s: %v\n", p.PkgPath, e)
			}
			nerr++
		}
	})
	if nerr > 0 {
		return
	}
	prog, _ := ssautil.AllPackages(pkgs, ssa.InstantiateGenerics)
	prog.Build()
	var hp *ssa.Package
	for _, p := range prog.AllPackages() {
		if p.Pkg.Path() == spec.Pkg {
			hp = p
		}
	}
	if hp == nil {
		res.Error = "harness package not found: " + spec.Pkg
		return
	}
	hf := hp.Func(spec.Fn)
	if hf == nil {
		res.Error = "harness func not found: " + spec.Fn
		return
	}
	for target, repl := range summaryNames {
		rf := hp.Func(repl)
		if rf == nil {
			res.Error = "summary func not found: " + repl
			return
		}
		summaryFns[target] = rf
	}
	i := &interpreter{prog: prog, globals: make(map[*ssa.Global]*value), sizes: &types.StdSizes{WordSize: 8, MaxAlign: 8}, goroutines: 1}
	if rp := prog.ImportedPackage("runtime"); rp != nil {
		i.runtimeErrorString = rp.Type("errorString").Object().Type()
	}
	initReflect(i)
	for _, pkg := range prog.AllPackages() {
		for _, m := range pkg.Members {
			if g, ok := m.(*ssa.Global); ok {
				cell := zero(mustDeref(g.Type()))
				i.globals[g] = &cell
			}
		}
	}
	if spec.QTimeout == 0 {
		spec.QTimeout = 30000
	}
	if spec.MaxSteps == 0 {
		spec.MaxSteps = 5_000_000
	}
	eng = &engine{sol: newSolver(spec.Solver, spec.QTimeout), varCount: map[string]int{}, reach: map[string]int{}, asserts: map[string]int{},
		unsup: map[string]int{}, funcs: map[string]bool{}, maxPaths: spec.MaxPaths, maxSteps: spec.MaxSteps,
		stubs: map[string]bool{}, violPerLabel: map[string]int{}, confN: spec.NConf, rng: rand.New(rand.NewSource(spec.Seed + 1)),
		thorough: spec.Thorough, shardI: spec.ShardI, shardN: spec.ShardN}
	defer eng.sol.close()
	res.Solver = eng.sol.name
	// package init (concrete)
	initErr := ""
	func() {
		defer func() {
			if r := recover(); r != nil {
				initErr = fmt.Sprintf("package init failed: %v%s", r, panicWhere())
				if os.Getenv("SYMGO_DEBUG") != "" {
					dumpCallStack()
					debug.PrintStack()
				}
			}
		}()
		call(i, nil, token.NoPos, hp.Func("init"), nil)
	}()
	if initErr != "" {
		res.Error = initErr
		return
	}
	res.LoadS = time.Since(t0).Seconds()
	if spec.TimeoutS > 0 {
		eng.deadline = time.Now().Add(time.Duration(spec.TimeoutS) * time.Second)
	}
	journalOn = true
	eng.funcs = map[string]bool{}
	eng.stubs = map[string]bool{}
	eng.runAll(i, func() { call(i, nil, token.NoPos, hf, nil) })

	e := eng
	res.Paths, res.Completed, res.Aborted, res.Decisions = e.paths, e.completed, e.aborted, e.decisions
	res.Queries = map[string]int{"sat": e.sol.nsat, "unsat": e.sol.nunsat, "unknown": e.sol.nunk}
	res.CacheHits = e.cacheHits
	res.SolverS = e.sol.dur.Seconds()
	res.Reach, res.Asserts = e.reach, e.asserts
	res.Violations, res.Conf = e.viols, e.conf
	res.Pending = e.pendingLeft
	for f := range e.funcs {
		if strings.Contains(f, modPath) && !strings.Contains(f, "zzverifrt") {
			res.Functions = append(res.Functions, strings.ReplaceAll(f, modPath+"/", ""))
		}
	}
	sort.Strings(res.Functions)
	for s := range e.stubs {
		res.Stubs = append(res.Stubs, s)
	}
	sort.Strings(res.Stubs)
	switch {
	case len(e.unsup) > 0:
		res.Inconcl = e.unsup
		res.Status = "inconclusive"
		if len(e.viols) > 0 {
			res.Status = "violations"
		}
	case len(e.viols) > 0:
		res.Status = "violations"
	default:
		res.Status = "ok"
	}
	res.WallS = time.Since(t0).Seconds()
	return
}

func max1(n int) int {
	if n < 1 {
		return 1
	}
	return n
}

// WriteResult writes r as JSON.
func WriteResult(path string, r *Result) error {
	b, err := json.MarshalIndent(r, "", " ")
	if err != nil {
		return err
	}
	return os.WriteFile(path, b, 0644)
}
