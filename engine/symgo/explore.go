package symgo

import (
	"go/token"
	"math/rand"
	"fmt"
	"golang.org/x/tools/go/ssa"
	"go/types"
	"math/big"
	"sort"
	"os"
	"strings"
	"time"
)

type decision struct {
	Kind string
	Val  int64
}

type violation struct {
	Label string              `json:"label"`
	Vals  map[string][]string `json:"vals"`
	Path  []decision          `json:"path"`
	Where string              `json:"where,omitempty"`
}

type obsEntry struct {
	label string
	v     value
}

type confSample struct {
	Vals map[string][]string `json:"vals"`
	Log  []string            `json:"log"`
}

type engine struct {
	sol      *solver
	pc       []*Term
	prefix   []decision
	pos      int
	trace    []decision
	pending  [][]decision
	steps    int
	maxSteps int
	vars     []*Term
	varCount map[string]int
	reach    map[string]int
	asserts  map[string]int
	viols    []violation
	paths    int
	aborted  int
	unsup    map[string]int
	funcs    map[string]bool
	maxPaths int
	stopOnViolation bool
	needCrc bool
	sch *sched
	cacheHits int
	varKinds  []types.BasicKind
	varNames  []string
	obs       []obsEntry
	conf      []confSample
	confN     int
	completed int
	rng       *rand.Rand
	deadline  time.Time
	thorough  bool
	stubs     map[string]bool
	violPerLabel map[string]int
	decisions int
	shardI, shardN int
	timedOut  bool
	pendingLeft int
	qtimeoutMs int
}

var eng *engine

type abortPath struct{ reason string }

func (e *engine) addPC(t *Term) {
	if t.IsConst() && t.Val.Sign() != 0 {
		return
	}
	for _, c := range e.pc {
		if c == t {
			return
		}
	}
	e.pc = append(e.pc, t)
}

var feasCache = map[string]bool{}

func (e *engine) pcKey(extra *Term) string {
	ids := make([]int, 0, len(e.pc)+1)
	for _, c := range e.pc {
		ids = append(ids, c.id)
	}
	sort.Ints(ids)
	return fmt.Sprint(ids, "|", extra.id)
}

func (e *engine) feasible(extra *Term) bool {
	if extra.IsConst() {
		return extra.Val.Sign() != 0
	}
	k := e.pcKey(extra)
	if r, ok := feasCache[k]; ok {
		e.cacheHits++
		return r
	}
	res, _ := e.sol.check(append(append([]*Term{}, e.pc...), extra), nil)
	if res != "sat" && res != "unsat" {
		panic(abortPath{"solver unknown: " + res})
	}
	feasCache[k] = res == "sat"
	return res == "sat"
}

// decideBool resolves a possibly symbolic condition.
func decideBool(fr *frame, v value) bool {
	switch v := v.(type) {
	case bool:
		return v
	case *sym:
		return eng.decide(v.T)
	}
	panic(fmt.Sprintf("decideBool: %T", v))
}

func (e *engine) decide(c *Term) bool {
	if e.pos < len(e.prefix) {
		d := e.prefix[e.pos]
		e.pos++
		e.trace = append(e.trace, d)
		if d.Val == 1 {
			e.addPC(c)
			return true
		}
		e.addPC(Not(c))
		return false
	}
	e.pos++
	e.decisions++
	tOK := e.feasible(c)
	fOK := true
	if tOK {
		fOK = e.feasible(Not(c))
	}
	switch {
	case tOK && fOK:
		alt := append(append([]decision{}, e.trace...), decision{"br", 0})
		e.pending = append(e.pending, alt)
		e.trace = append(e.trace, decision{"br", 1})
		e.addPC(c)
		return true
	case tOK:
		e.trace = append(e.trace, decision{"br", 1})
		return true
	case fOK:
		e.trace = append(e.trace, decision{"br", 0})
		return false
	}
	panic(abortPath{"infeasible path"})
}

// concretize turns a symbolic integer into a concrete one by forking over its feasible values.
// concretizeIn is concretize for an index/bound that must lie in [lo,hi]: it first decides
// whether the symbolic value is inside; outside raises the Go runtime error (on that path),
// inside enumerates the (few) feasible values.
func concretizeIn(v value, lo, hi int64, what string) value {
	s, ok := v.(*sym)
	if !ok {
		return v
	}
	t := types.Typ[s.K]
	i64 := types.Typ[types.Int64]
	var inside value
	if _, signed := kindWidth(s.K); signed {
		x := conv(i64, t, v)
		inside = andVal(binop(token.GEQ, i64, x, lo), binop(token.LEQ, i64, x, hi))
	} else {
		u64 := types.Typ[types.Uint64]
		x := conv(u64, t, v)
		inside = andVal(binop(token.GEQ, u64, x, uint64(lo)), binop(token.LEQ, u64, x, uint64(hi)))
	}
	if !decideBool(nil, inside) {
		panic(runtimeError(what + " out of range"))
	}
	return concretize(v)
}

func andVal(a, b value) value {
	if x, ok := a.(bool); ok {
		if !x {
			return false
		}
		return b
	}
	if y, ok := b.(bool); ok {
		if !y {
			return false
		}
		return a
	}
	return mkVal(types.Bool, And(a.(*sym).T, b.(*sym).T))
}

func concretize(v value) value {
	s, ok := v.(*sym)
	if !ok {
		return v
	}
	e := eng
	w, signed := kindWidth(s.K)
	toVal := func(n int64) value { return mkVal(s.K, ConstBV(big.NewInt(n), w)) }
	eqc := func(n int64) *Term {
		if IntMode {
			return IntCmp("=", s.T, ConstInt(big.NewInt(n)))
		}
		return BVCmp("=", s.T, ConstBV(big.NewInt(n), w))
	}
	if e.pos < len(e.prefix) {
		d := e.prefix[e.pos]
		e.pos++
		e.trace = append(e.trace, d)
		e.addPC(eqc(d.Val))
		return toVal(d.Val)
	}
	e.pos++
	// enumerate feasible values (cap 256)
	var vals []int64
	excl := []*Term{}
	for len(vals) < 257 {
		res, model := e.sol.check(append(append([]*Term{}, e.pc...), excl...), []*Term{s.T})
		if res == "unsat" {
			break
		}
		if res != "sat" {
			panic(abortPath{"solver unknown in concretize"})
		}
		var n int64
		if IntMode {
			n = parseInt(model[0])
		} else {
			n = parseBV(model[0], w, signed)
		}
		vals = append(vals, n)
		excl = append(excl, Not(eqc(n)))
	}
	if len(vals) == 0 {
		panic(abortPath{"infeasible path (concretize)"})
	}
	if len(vals) > 256 {
		panic(unsupported("symbolic index with more than 256 feasible values"))
	}
	sort.Slice(vals, func(i, j int) bool { return vals[i] < vals[j] })
	for _, n := range vals[1:] {
		alt := append(append([]decision{}, e.trace...), decision{"val", n})
		e.pending = append(e.pending, alt)
	}
	e.trace = append(e.trace, decision{"val", vals[0]})
	e.addPC(eqc(vals[0]))
	return toVal(vals[0])
}


func parseBV(s string, w int, signed bool) int64 {
	n := new(big.Int)
	switch {
	case strings.HasPrefix(s, "#x"):
		n.SetString(s[2:], 16)
	case strings.HasPrefix(s, "#b"):
		n.SetString(s[2:], 2)
	default:
		panic("parseBV: " + s)
	}
	if signed && n.Bit(w-1) == 1 {
		n.Sub(n, new(big.Int).Lsh(big.NewInt(1), uint(w)))
	}
	return n.Int64()
}

// ---- harness runtime intrinsics

func (e *engine) fresh(name string, k types.BasicKind) value {
	e.varCount[name]++
	vn := fmt.Sprintf("%s!%d", sanitize(name), e.varCount[name])
	var s Sort
	if k == types.Bool {
		s = BoolSort
	} else if IntMode {
		s = IntSort
	} else {
		w, _ := kindWidth(k)
		s = BV(w)
	}
	v := Var(vn, s)
	e.vars = append(e.vars, v)
	e.varKinds = append(e.varKinds, k)
	e.varNames = append(e.varNames, name)
	if IntMode && k != types.Bool {
		lo, hi := kindRange(k)
		ivals[v] = ival{lo, hi}
		e.pc = append(e.pc, mk("<=", BoolSort, ConstInt(lo), v), mk("<=", BoolSort, v, ConstInt(hi)))
	}
	return &sym{K: k, T: v}
}

func sanitize(s string) string {
	var sb strings.Builder
	for _, c := range s {
		if c >= 'a' && c <= 'z' || c >= 'A' && c <= 'Z' || c >= '0' && c <= '9' || c == '_' {
			sb.WriteRune(c)
		} else {
			sb.WriteByte('_')
		}
	}
	return "v_" + sb.String()
}

func (e *engine) assume(c value) {
	switch c := c.(type) {
	case bool:
		if !c {
			panic(abortPath{"assume false"})
		}
	case *sym:
		if !e.feasible(c.T) {
			panic(abortPath{"assume infeasible"})
		}
		e.addPC(c.T)
	}
}

func (e *engine) assert(label string, c value) {
	e.asserts[label]++
	switch c := c.(type) {
	case bool:
		if !c {
			e.violate(label, "")
		}
	case *sym:
		res, model := e.sol.check(append(append([]*Term{}, e.pc...), Not(c.T)), e.vars)
		if res == "sat" {
			e.addViol(label, model, "")
			if e.stopOnViolation {
				panic(abortPath{"violation"})
			}
		} else if res != "unsat" {
			panic(abortPath{"solver unknown in assert " + label})
		}
		// continue under the assumption that the assertion holds
		if !e.feasible(c.T) {
			panic(abortPath{"assert never holds"})
		}
		e.addPC(c.T)
	}
}

func (e *engine) violate(label string, where string) {
	res, model := e.sol.check(e.pc, e.vars)
	if res != "sat" {
		panic(abortPath{"violation on infeasible path?"})
	}
	e.addViol(label, model, where)
	panic(abortPath{"violation"})
}

func (e *engine) addViol(label string, model []string, where string) {
	e.violPerLabel[label]++
	if e.violPerLabel[label] > 3 {
		return // keep at most 3 models per label
	}
	if os.Getenv("SYMGO_DEBUG") != "" {
		dumpFirstPanic()
	}
	e.viols = append(e.viols, violation{Label: label, Vals: e.modelVals(model), Path: append([]decision{}, e.trace...), Where: where})
}

// modelVals converts solver values of e.vars into the replay vector form: name -> decimal values in call order.
func (e *engine) modelVals(model []string) map[string][]string {
	m := map[string][]string{}
	for i := range e.vars {
		val := "0"
		if i < len(model) && model[i] != "" {
			val = modelToDecimal(model[i], e.varKinds[i])
		}
		m[e.varNames[i]] = append(m[e.varNames[i]], val)
	}
	return m
}

func modelToDecimal(s string, k types.BasicKind) string {
	s = strings.TrimSpace(s)
	switch {
	case s == "true":
		return "1"
	case s == "false":
		return "0"
	case strings.HasPrefix(s, "#"):
		w, signed := kindWidth(k)
		n := new(big.Int)
		if strings.HasPrefix(s, "#x") {
			n.SetString(s[2:], 16)
		} else {
			n.SetString(s[2:], 2)
		}
		if signed && w > 0 && n.Bit(w-1) == 1 {
			n.Sub(n, new(big.Int).Lsh(big.NewInt(1), uint(w)))
		}
		return n.String()
	case strings.HasPrefix(s, "(-"):
		return "-" + strings.TrimSpace(strings.TrimSuffix(strings.TrimPrefix(s, "(-"), ")"))
	}
	return s
}

// runAll explores all paths of the harness (call1 executes it once from its entry).
func (e *engine) runAll(i *interpreter, call1 func()) {
	e.pending = [][]decision{nil}
	start := time.Now()
	phase1 := e.shardN > 1
	for len(e.pending) > 0 {
		if e.maxPaths > 0 && e.paths >= e.maxPaths {
			e.unsup[fmt.Sprintf("max paths reached (%d pending)", len(e.pending))]++
			break
		}
		if !e.deadline.IsZero() && time.Now().After(e.deadline) {
			e.timedOut = true
			e.unsup[fmt.Sprintf("wall-clock budget exhausted (%d pending)", len(e.pending))]++
			break
		}
		if phase1 && len(e.pending) >= e.shardN*8 {
			// end of the common breadth-first phase: keep this shard's share of the frontier
			phase1 = false
			var mine [][]decision
			for k, p := range e.pending {
				if k%e.shardN == e.shardI {
					mine = append(mine, p)
				}
			}
			e.pending = mine
			if e.shardI != 0 {
				e.resetCounters()
			}
			continue
		}
		if phase1 {
			e.prefix = e.pending[0]
			e.pending = e.pending[1:]
		} else {
			n := len(e.pending) - 1
			e.prefix = e.pending[n]
			e.pending = e.pending[:n]
		}
		e.runPath(call1)
	}
	if phase1 && e.shardI != 0 {
		// everything was explored in the common phase; shard 0 reports it
		e.resetCounters()
	}
	e.pendingLeft = len(e.pending)
	if os.Getenv("SYMGO_DEBUG") != "" {
		fmt.Printf("cachehits=%d paths=%d aborted=%d queries=%d (sat %d unsat %d unk %d) solver=%.2fs wall=%.2fs\n", e.cacheHits,
			e.paths, e.aborted, e.sol.queries, e.sol.nsat, e.sol.nunsat, e.sol.nunk, e.sol.dur.Seconds(), time.Since(start).Seconds())
	}
}

func (e *engine) resetCounters() {
	e.paths, e.aborted, e.completed, e.decisions = 0, 0, 0, 0
	e.reach, e.asserts, e.unsup = map[string]int{}, map[string]int{}, map[string]int{}
	e.viols, e.conf = nil, nil
	e.violPerLabel = map[string]int{}
	e.funcs = map[string]bool{}
	e.stubs = map[string]bool{}
}

func (e *engine) runPath(call1 func()) {
	e.pos, e.trace, e.pc, e.steps = 0, nil, nil, 0
	// interval facts are per path: a nondet re-declared with another range on this path must not
	// inherit intervals derived on an earlier path (terms are hash-consed across paths)
	ivals = map[*Term]ival{}
	firstPanicStack = nil
	e.resetSched()
	mutexHeld = map[*value]bool{}
	wgCount = map[*value]int{}
	callStack = callStack[:0]
	e.vars, e.varKinds, e.varNames, e.obs = nil, nil, nil, nil
	e.varCount = map[string]int{}
	e.paths++
	ok := false
	func() {
		defer func() {
			if r := recover(); r != nil {
				switch r := r.(type) {
				case abortPath:
					e.aborted++
					if r.reason != "assume false" && r.reason != "assume infeasible" && r.reason != "violation" && r.reason != "assert never holds" {
						e.unsup["abort: "+r.reason]++
					}
				case unsupportedErr:
					e.aborted++
					e.unsup[r.msg+panicWhere()]++
				case exitPanic:
					func() {
						defer func() { recover() }()
						e.violate("process-exit@"+panicFunc(), fmt.Sprintf("os.Exit(%d)", int(r)))
					}()
				case targetPanic:
					func() {
						defer func() { recover() }()
						e.violate("uncaught-panic@"+panicFunc(), toString(r.v))
					}()
				default:
					func() {
						defer func() { recover() }()
						e.violate("uncaught-panic@"+panicFunc(), fmt.Sprint(r))
					}()
				}
			}
		}()
		call1()
		ok = true
	}()
	if ok {
		e.completed++
		e.maybeConformance()
	}
	journalUndo()
}

// panicFunc names the innermost gsuneido function active when the first panic of the path was raised.
func panicFunc() string {
	st := firstPanicStack
	if st == nil {
		st = callStack
	}
	for i := len(st) - 1; i >= 0; i-- {
		n := st[i].String()
		if strings.Contains(n, modPath) && !strings.Contains(n, "zzverifrt") && !strings.Contains(n, "util/assert") {
			return strings.ReplaceAll(n, modPath+"/", "")
		}
	}
	return "?"
}

func panicWhere() string {
	if len(callStack) == 0 {
		return ""
	}
	r := " in " + strings.ReplaceAll(callStack[len(callStack)-1].String(), modPath+"/", "")
	// nearest callers that belong to the module under test (helps to see what needs a stub)
	n := 0
	for i := len(callStack) - 2; i >= 0 && n < 2; i-- {
		nm := callStack[i].String()
		if strings.Contains(nm, modPath) {
			r += " <- " + strings.ReplaceAll(nm, modPath+"/", "")
			n++
		}
	}
	return r
}

// maybeConformance keeps a reservoir sample of completed paths; for a kept path the solver
// supplies a model of the path condition and the values of every observed term under it.
func (e *engine) maybeConformance() {
	if e.confN <= 0 {
		return
	}
	slot := -1
	if len(e.conf) < e.confN {
		slot = len(e.conf)
	} else if r := e.rng.Intn(e.completed); r < e.confN {
		slot = r
	}
	if slot < 0 {
		return
	}
	// collect observed terms
	var terms []*Term
	terms = append(terms, e.vars...)
	type ref struct{ from, n int }
	refs := make([]ref, len(e.obs))
	for k, o := range e.obs {
		refs[k].from = len(terms)
		switch v := o.v.(type) {
		case *sym:
			terms = append(terms, v.T)
		case *symstr:
			for _, b := range v.b {
				terms = append(terms, termOfMode(b))
			}
		case []value:
			for _, b := range v {
				terms = append(terms, termOfMode(b))
			}
		}
		refs[k].n = len(terms) - refs[k].from
	}
	res, model := e.sol.check(e.pc, terms)
	if res != "sat" {
		return
	}
	cs := confSample{Vals: e.modelVals(model[:len(e.vars)])}
	for k, o := range e.obs {
		vals := model[refs[k].from : refs[k].from+refs[k].n]
		cs.Log = append(cs.Log, "OBS "+o.label+"="+fmtObsModel(o.v, vals))
	}
	if slot == len(e.conf) {
		e.conf = append(e.conf, cs)
	} else {
		e.conf[slot] = cs
	}
}

func termOfMode(v value) *Term {
	if IntMode {
		return intTermOf(v)
	}
	return termOf(v)
}

func fmtObsModel(v value, vals []string) string {
	byteHex := func(n int) string {
		var sb strings.Builder
		for k := 0; k < n; k++ {
			d := modelToDecimal(vals[k], types.Uint8)
			x, _ := new(big.Int).SetString(d, 10)
			fmt.Fprintf(&sb, "%02x", x.Uint64()&0xff)
		}
		return sb.String()
	}
	switch v := v.(type) {
	case *sym:
		if v.K == types.Bool {
			return "b:" + modelToDecimal(vals[0], v.K)
		}
		return "i:" + modelToDecimal(vals[0], v.K)
	case *symstr:
		return "s:" + byteHex(len(v.b))
	case []value:
		return "s:" + byteHex(len(v))
	case string:
		var sb strings.Builder
		for k := 0; k < len(v); k++ {
			fmt.Fprintf(&sb, "%02x", v[k])
		}
		return "s:" + sb.String()
	case bool:
		if v {
			return "b:1"
		}
		return "b:0"
	}
	if k, ok := kindOf(v); ok {
		_, signed := kindWidth(k)
		if signed {
			return fmt.Sprintf("i:%d", asInt64(v))
		}
		return fmt.Sprintf("i:%d", asUint64(v))
	}
	return fmt.Sprintf("?:%T", v)
}

type jentry struct {
	addr *value
	old  value
	fn   func()
}

func journalFn(f func()) {
	if journalOn {
		journal = append(journal, jentry{fn: f})
	}
}

var journal []jentry
var journalOn bool

func journalUndo() {
	for i := len(journal) - 1; i >= 0; i-- {
		if journal[i].fn != nil {
			journal[i].fn()
			continue
		}
		*journal[i].addr = journal[i].old
	}
	journal = journal[:0]
}

var callStack []*ssa.Function

func dumpCallStack() {
	n := len(callStack)
	for i := n - 1; i >= 0 && i > n-25; i-- {
		fmt.Println("   at", callStack[i].String())
	}
}

var firstPanicStack []*ssa.Function
var firstPanicVal any

func dumpFirstPanic() {
	if firstPanicStack == nil {
		return
	}
	fmt.Printf("first panic: %v\n", firstPanicVal)
	n := len(firstPanicStack)
	for i := n - 1; i >= 0 && i > n-20; i-- {
		fmt.Println("   at", firstPanicStack[i].String())
	}
}

func parseInt(s string) int64 {
	s = strings.TrimSpace(s)
	neg := false
	if strings.HasPrefix(s, "(-") {
		neg = true
		s = strings.TrimSpace(strings.TrimSuffix(strings.TrimPrefix(s, "(-"), ")"))
	}
	n := new(big.Int)
	n.SetString(s, 10)
	if neg {
		n.Neg(n)
	}
	return n.Int64()
}

var noMerge bool

func multi() bool { return eng != nil && eng.sch != nil && len(eng.sch.threads) > 1 }

func csPush(fn *ssa.Function) int {
	if multi() {
		return -1
	}
	callStack = append(callStack, fn)
	return len(callStack)
}

func csPop(d int) {
	if d > 0 && !multi() && d <= len(callStack) {
		callStack = callStack[:d-1]
	}
}
