package symgo

// C34 (db19/timestamp.go ticker, core/thread.go tsExpire): environment stub for time.Sleep.
//
// The generic external really slept on the host (one wall-clock second per ticker iteration,
// and without giving the baton to another interpreted goroutine). Under the cooperative
// scheduler there is no clock: time.Sleep(d) is modelled as a scheduling point and returns - the
// sleeper may be delayed arbitrarily long by the other threads, the duration itself is not
// modelled ("sleeps at least d" has no observable meaning without a clock; code that reads the
// clock gets it from the harness). A loop of the form `for { time.Sleep(..); step }` therefore
// needs a harness-controlled blocking point elsewhere in its body (VerifC34Ticker: the summary
// of core.Now), otherwise it spins until the step budget is exhausted (reported INCONCLUSIVE).
func init() {
	externals["time.Sleep"] = func(fr *frame, a []value) value {
		if eng != nil && eng.sch != nil {
			eng.yield()
		}
		return nil
	}
}
