package symgo

import (
	"go/types"
)

// C10 (btree MergeAndSave): exact-semantics intrinsic for the instance of slices.Delete used by
// db19/index/btree.(*state).dropLeaf. The library body ends with the `clear` built-in, which the
// interpreter does not implement. Semantics (go1.22+ slices.Delete): bounds check s[i:j:len(s)],
// s = append(s[:i], s[j:]...), the vacated tail elements s[len(s):oldlen] are zeroed, s returned.
func init() {
	del := func(fr *frame, a []value) value {
		s := a[0].([]value)
		i, iok := a[1].(int)
		j, jok := a[2].(int)
		if !iok || !jok {
			panic(unsupported("slices.Delete with symbolic indices"))
		}
		if i < 0 || j < i || j > len(s) {
			panic(runtimeError("slice bounds out of range"))
		}
		if i == j {
			return s
		}
		elem := fr.fn.Signature.Params().At(0).Type().Underlying().(*types.Slice).Elem()
		oldlen := len(s)
		if journalOn {
			for k := i; k < oldlen; k++ {
				journal = append(journal, jentry{addr: &s[k], old: s[k]})
			}
		}
		tail := make([]value, len(s[j:]))
		for k, v := range s[j:] {
			tail[k] = cloneVal(v)
		}
		r := append(s[:i], tail...)
		for k := len(r); k < oldlen; k++ {
			s[k] = zero(elem)
		}
		return r
	}
	const tm = modPath + "/db19/index/btree.treeMerge"
	externals["slices.Delete[[]"+tm+","+tm+"]"] = del
	externals["slices.Delete[[]"+tm+", "+tm+"]"] = del
}
