package symgo

// Strings with concrete length and per-byte symbolic content (spike).

import (
	"go/types"
)

type symstr struct {
	b []value // each uint8 or *sym (Uint8)
}

func isStrVal(v value) bool {
	switch v.(type) {
	case string, *symstr:
		return true
	}
	return false
}

func strBytes(v value) []value {
	switch v := v.(type) {
	case string:
		r := make([]value, len(v))
		for i := 0; i < len(v); i++ {
			r[i] = v[i]
		}
		return r
	case *symstr:
		return v.b
	}
	panic("strBytes: not a string")
}

// mkStr builds a string value from bytes, collapsing to a Go string when all concrete.
func mkStr(b []value) value {
	conc := make([]byte, len(b))
	for i, x := range b {
		c, ok := x.(uint8)
		if !ok {
			cp := make([]value, len(b))
			copy(cp, b)
			return &symstr{b: cp}
		}
		conc[i] = c
	}
	return string(conc)
}

func strLen(v value) int {
	switch v := v.(type) {
	case string:
		return len(v)
	case *symstr:
		return len(v.b)
	}
	panic("strLen")
}

func strConcat(x, y value) value {
	return mkStr(append(append([]value{}, strBytes(x)...), strBytes(y)...))
}

// strEq returns bool or *sym.
func strEq(x, y value) value {
	a, b := strBytes(x), strBytes(y)
	if len(a) != len(b) {
		return false
	}
	acc := tTrue
	for i := range a {
		acc = And(acc, eqT(a[i], b[i]))
	}
	return mkVal(types.Bool, acc)
}

// strLess returns x < y (bool or *sym), lexicographic bytewise.
func strLess(x, y value, orEqual bool) value {
	a, b := strBytes(x), strBytes(y)
	// build from the end: less(i) = a[i]<b[i] || (a[i]==b[i] && less(i+1))
	n := len(a)
	if len(b) < n {
		n = len(b)
	}
	var tail *Term
	switch {
	case len(a) < len(b):
		tail = tTrue // a is proper prefix
	case len(a) == len(b):
		tail = ConstBool(orEqual)
	default:
		tail = tFalse
	}
	acc := tail
	for i := n - 1; i >= 0; i-- {
		acc = Or(ltT(a[i], b[i]), And(eqT(a[i], b[i]), acc))
	}
	return mkVal(types.Bool, acc)
}

func isSymStr(v value) bool { _, ok := v.(*symstr); return ok }

func eqT(x, y value) *Term {
	if IntMode {
		return IntCmp("=", intTermOf(x), intTermOf(y))
	}
	return BVCmp("=", termOf(x), termOf(y))
}

func ltT(x, y value) *Term { // unsigned byte compare
	if IntMode {
		return IntCmp("<", intTermOf(x), intTermOf(y))
	}
	return BVCmp("bvult", termOf(x), termOf(y))
}
