package symgo

import (
	"fmt"
	"go/token"
	"go/types"
)

type runtimeError string

func (e runtimeError) Error() string { return string(e) }
func (e runtimeError) RuntimeError() {}

func notVal(v value) value {
	switch v := v.(type) {
	case bool:
		return !v
	case *sym:
		return mkVal(types.Bool, Not(v.T))
	}
	panic("notVal")
}

func strBinop(op token.Token, x, y value) value {
	switch op {
	case token.ADD:
		return strConcat(x, y)
	case token.EQL:
		return strEq(x, y)
	case token.NEQ:
		return notVal(strEq(x, y))
	case token.LSS:
		return strLess(x, y, false)
	case token.LEQ:
		return strLess(x, y, true)
	case token.GTR:
		return strLess(y, x, false)
	case token.GEQ:
		return strLess(y, x, true)
	}
	panic(unsupported(fmt.Sprint("string binop ", op)))
}
