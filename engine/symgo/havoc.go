package symgo

import (
	"fmt"
	"go/types"

	"golang.org/x/tools/go/ssa"
)

// havocFns lists functions whose calls are replaced by an unconstrained value of the result
// type (a sound over-approximation of a pure callee; listed in the evidence as a stub).
var havocFns = map[string]bool{}

var havocCount int

// summaries: calls to the named function execute a harness-provided replacement (an assumed
// contract, listed in the evidence as a stub). Natively the real function runs.
var summaryNames = map[string]string{}
var summaryFns = map[string]*ssa.Function{}


func havocResult(fn *ssa.Function) value {
	res := fn.Signature.Results()
	switch res.Len() {
	case 0:
		return nil
	case 1:
		return havocType(res.At(0).Type(), "havoc_"+fn.Name())
	}
	t := make(tuple, res.Len())
	for i := range t {
		t[i] = havocType(res.At(i).Type(), fmt.Sprintf("havoc_%s_%d", fn.Name(), i))
	}
	return t
}

func havocType(t types.Type, name string) value {
	switch u := t.Underlying().(type) {
	case *types.Basic:
		if u.Info()&types.IsInteger != 0 || u.Kind() == types.Bool {
			return eng.fresh(name, u.Kind())
		}
	case *types.Struct:
		s := make(structure, u.NumFields())
		for i := range s {
			s[i] = havocType(u.Field(i).Type(), name+"_"+u.Field(i).Name())
		}
		return s
	case *types.Array:
		a := make(array, u.Len())
		for i := range a {
			a[i] = havocType(u.Elem(), fmt.Sprintf("%s_%d", name, i))
		}
		return a
	}
	panic(unsupported("havoc of type " + t.String()))
}
