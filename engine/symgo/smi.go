package symgo

// Model of core's small-int trick: *smi values are pointers into a 64Ki array whose address
// encodes the integer. We represent every *smi as smiVal{n} (n concrete int or symbolic).

import (
	"go/token"
	"go/types"
)

type smiVal struct{ n value }

func init() {
	c := modPath + "/core."
	externals[c+"SuInt"] = func(fr *frame, a []value) value {
		n := a[0]
		if _, ok := n.(*sym); ok {
			lo := binop(token.GEQ, types.Typ[types.Int], n, int(-32768))
			hi := binop(token.LEQ, types.Typ[types.Int], n, int(32767))
			if !decideBool(fr, lo) || !decideBool(fr, hi) {
				panic(targetPanic{iface{fr.i.runtimeErrorString, "index out of range (SuInt)"}})
			}
		} else if v := asInt64(n); v < -32768 || v > 32767 {
			panic(targetPanic{iface{fr.i.runtimeErrorString, "index out of range (SuInt)"}})
		}
		return smiVal{n}
	}
	externals["(*"+c+"smi).toInt"] = func(fr *frame, a []value) value {
		if s, ok := a[0].(smiVal); ok {
			return s.n
		}
		panic(unsupported("toInt on a real pointer"))
	}
}
