package symgo

import (
	"strings"
	"fmt"
	"hash/crc32"
	"math/big"
	"go/types"
	"math/bits"
)

func argStr(v value) string {
	if s, ok := v.(string); ok {
		return s
	}
	panic("rt: name/label must be a concrete string")
}

func init() {
	rt := func(name string, f externalFn) { externals[rtPath+"."+name] = f }
	rt("U64", func(fr *frame, a []value) value { return eng.fresh(argStr(a[0]), types.Uint64) })
	rt("I64", func(fr *frame, a []value) value { return eng.fresh(argStr(a[0]), types.Int64) })
	rt("Int", func(fr *frame, a []value) value { return eng.fresh(argStr(a[0]), types.Int) })
	rt("Byte", func(fr *frame, a []value) value { return eng.fresh(argStr(a[0]), types.Uint8) })
	rt("Bool", func(fr *frame, a []value) value { return eng.fresh(argStr(a[0]), types.Bool) })
	rt("Bytes", func(fr *frame, a []value) value {
		n := asInt64(a[1])
		r := make([]value, n)
		for i := range r {
			r[i] = eng.fresh(fmt.Sprintf("%s_%d", argStr(a[0]), i), types.Uint8)
		}
		return r
	})
	rt("Str", func(fr *frame, a []value) value {
		n := asInt64(a[1])
		r := make([]value, n)
		for i := range r {
			r[i] = eng.fresh(fmt.Sprintf("%s_%d", argStr(a[0]), i), types.Uint8)
		}
		return mkStr(r)
	})
	rt("Pick", func(fr *frame, a []value) value {
		v := eng.fresh(argStr(a[0]), types.Int).(*sym)
		n := asInt64(a[1])
		if IntMode {
			eng.assume(mkVal(types.Bool, And(IntCmp("<=", ConstInt(bi(0)), v.T), IntCmp("<", v.T, ConstInt(bi(n))))))
		} else {
			eng.assume(mkVal(types.Bool, And(BVCmp("bvsle", ConstU(0, 64), v.T), BVCmp("bvslt", v.T, ConstU(uint64(n), 64)))))
		}
		return concretize(v)
	})
	rt("I32", func(fr *frame, a []value) value { return eng.fresh(argStr(a[0]), types.Int32) })
	rt("U32", func(fr *frame, a []value) value { return eng.fresh(argStr(a[0]), types.Uint32) })
	rt("I16", func(fr *frame, a []value) value { return eng.fresh(argStr(a[0]), types.Int16) })
	rt("U16", func(fr *frame, a []value) value { return eng.fresh(argStr(a[0]), types.Uint16) })
	rt("I8", func(fr *frame, a []value) value { return eng.fresh(argStr(a[0]), types.Int8) })
	rt("Choice", func(fr *frame, a []value) value {
		v := eng.fresh(argStr(a[0]), types.Int).(*sym)
		n := asInt64(a[1])
		if IntMode {
			ivals[v.T] = ival{bi(0), bi(n - 1)}
			eng.pc = append(eng.pc, mk("<=", BoolSort, ConstInt(bi(0)), v.T), mk("<=", BoolSort, v.T, ConstInt(bi(n-1))))
		} else {
			eng.pc = append(eng.pc, BVCmp("bvsle", ConstU(0, 64), v.T), BVCmp("bvslt", v.T, ConstU(uint64(n), 64)))
		}
		return v
	})
	rt("Concrete", func(fr *frame, a []value) value { return concretize(a[0]) })
	rt("Thorough", func(fr *frame, a []value) value { return eng.thorough })
	rt("Observe", func(fr *frame, a []value) value {
		eng.obs = append(eng.obs, obsEntry{argStr(a[0]), a[1].(iface).v})
		return nil
	})
	rt("Implies", func(fr *frame, a []value) value { return mkVal(types.Bool, Or(Not(termOf(a[0])), termOf(a[1]))) })
	rt("And", func(fr *frame, a []value) value { return mkVal(types.Bool, And(termOf(a[0]), termOf(a[1]))) })
	rt("Or", func(fr *frame, a []value) value { return mkVal(types.Bool, Or(termOf(a[0]), termOf(a[1]))) })
	rt("IteInt", func(fr *frame, a []value) value {
		if c, ok := a[0].(bool); ok {
			if c {
				return a[1]
			}
			return a[2]
		}
		return iteVal(a[0].(*sym).T, a[1], a[2])
	})
	fits := func(op string) externalFn {
		return func(fr *frame, a []value) value {
			lo, hi := kindRange(types.Int64)
			if IntMode {
				t := IntBin(op, intTermOf(a[0]), intTermOf(a[1]))
				return mkVal(types.Bool, And(IntCmp("<=", ConstInt(lo), t), IntCmp("<=", t, ConstInt(hi))))
			}
			bvop := map[string]string{"+": "bvadd", "-": "bvsub", "*": "bvmul"}[op]
			t := BVBin(bvop, SignExt(termOf(a[0]), 128), SignExt(termOf(a[1]), 128))
			return mkVal(types.Bool, And(BVCmp("bvsle", ConstBV(lo, 128), t), BVCmp("bvsle", t, ConstBV(hi, 128))))
		}
	}
	rt("AddFits", fits("+"))
	rt("SubFits", fits("-"))
	rt("MulFits", fits("*"))
	rt("Yield", func(fr *frame, a []value) value { eng.yield(); return nil })
	rt("Go", func(fr *frame, a []value) value {
		f := a[0]
		i_ := fr.i
		eng.spawn(func() { call(i_, nil, 0, f, nil) })
		return nil
	})
	rt("Assume", func(fr *frame, a []value) value { eng.assume(a[0]); return nil })
	rt("Assert", func(fr *frame, a []value) value { eng.assert(argStr(a[0]), a[1]); return nil })
	rt("Reach", func(fr *frame, a []value) value { eng.reach[argStr(a[0])]++; return nil })

	// a few std intrinsics
	externals["math/bits.LeadingZeros64"] = func(fr *frame, a []value) value {
		if s, ok := a[0].(*sym); ok && IntMode {
			// number of leading zeros = 64 - bitlen
			r := ConstInt(bi(64))
			for i := 0; i < 64; i++ {
				ge := IntCmp("<=", ConstInt(new(big.Int).Lsh(bi(1), uint(i))), s.T)
				r = Ite(ge, ConstInt(bi(int64(63-i))), r)
			}
			t := r
			ivals[t] = ival{bi(0), bi(64)}
			return mkIntVal(types.Int, t)
		}
		if s, ok := a[0].(*sym); ok {
			// ite chain
			r := ConstU(64, 64)
			for i := 0; i < 64; i++ {
				bit := BVCmp("=", Extract(s.T, i, i), ConstU(1, 1))
				r = Ite(bit, ConstU(uint64(63-i), 64), r)
			}
			return mkVal(types.Int, r)
		}
		return bits.LeadingZeros64(a[0].(uint64))
	}
	externals["math/bits.Len64"] = func(fr *frame, a []value) value {
		if s, ok := a[0].(*sym); ok {
			r := ConstU(0, 64)
			for i := 0; i < 64; i++ {
				bit := BVCmp("=", Extract(s.T, i, i), ConstU(1, 1))
				r = Ite(bit, ConstU(uint64(i+1), 64), r)
			}
			return mkVal(types.Int, r)
		}
		return bits.Len64(a[0].(uint64))
	}
	// no-op stubs
	for _, n := range []string{"log.Println", "log.Print", "log.Printf", "fmt.Println", "fmt.Print", "fmt.Printf"} {
		externals[n] = func(fr *frame, a []value) value { return nil }
	}
	externals["(*"+modPath+"/core/trace.What).Println"] = func(fr *frame, a []value) value { return nil }
	externals["("+modPath+"/core/trace.What).Println"] = func(fr *frame, a []value) value { return nil }
}

func fnv64(s string) uint64 {
	h := uint64(14695981039346656037)
	for i := 0; i < len(s); i++ {
		h ^= uint64(s[i])
		h *= 1099511628211
	}
	return h
}

func concStr(v value) string {
	switch v := v.(type) {
	case string:
		return v
	case []value:
		b := make([]byte, len(v))
		for i := range v {
			c, ok := v[i].(uint8)
			if !ok {
				panic(unsupported("hash of symbolic bytes"))
			}
			b[i] = c
		}
		return string(b)
	}
	panic(unsupported("hash of symbolic string"))
}

func init() {
	externals["hash/maphash.MakeSeed"] = func(fr *frame, a []value) value { return structure{uint64(1)} }
	externals["hash/maphash.String"] = func(fr *frame, a []value) value { return fnv64(concStr(a[1])) }
	externals["hash/maphash.Bytes"] = func(fr *frame, a []value) value { return fnv64(concStr(a[1])) }
}

func init() {
	h := modPath + "/util/hacks."
	externals[h+"BStoS"] = func(fr *frame, a []value) value { return mkStr(a[0].([]value)) }
	externals[h+"Stobs"] = func(fr *frame, a []value) value { return append([]value{}, strBytes(a[0])...) }
	externals[h+"Btobs"] = func(fr *frame, a []value) value { return []value{a[0]} }
	externals[h+"SameString"] = func(fr *frame, a []value) value { return false }
}

func init() {
	externals["golang.org/x/text/message.NewPrinter"] = func(fr *frame, a []value) value { return (*value)(nil) }
	externals["(*golang.org/x/text/message.Printer).Sprintf"] = func(fr *frame, a []value) value { return "<fmt>" }
	externals["fmt.Sprintf"] = func(fr *frame, a []value) value { return "<fmt>" }
	externals["fmt.Sprint"] = func(fr *frame, a []value) value { return "<fmt>" }
	externals["fmt.Sprintln"] = func(fr *frame, a []value) value { return "<fmt>" }
	externals["fmt.Errorf"] = func(fr *frame, a []value) value { return iface{} }
}

var onceDone = map[*value]bool{}
var mutexHeld = map[*value]bool{}
var wgCount = map[*value]int{}

func init() {
	externals["time.runtimeNano"] = func(fr *frame, a []value) value { return int64(0) }
	externals["time.initLocal"] = func(fr *frame, a []value) value { return nil }
	externals["(*sync.Once).Do"] = func(fr *frame, a []value) value {
		p := a[0].(*value)
		if !onceDone[p] {
			onceDone[p] = true
			journalFn(func() { delete(onceDone, p) })
			call(fr.i, fr, 0, a[1], nil)
		}
		return nil
	}
	for _, n := range []string{"(*sync.RWMutex).Lock", "(*sync.RWMutex).Unlock", "(*sync.RWMutex).RLock", "(*sync.RWMutex).RUnlock"} {
		externals[n] = func(fr *frame, a []value) value { return nil }
	}
	externals["(*sync.Mutex).Lock"] = func(fr *frame, a []value) value {
		p := a[0].(*value)
		eng.yield()
		eng.blockUntil(func() bool { return !mutexHeld[p] })
		mutexHeld[p] = true
		return nil
	}
	externals["(*sync.Mutex).Unlock"] = func(fr *frame, a []value) value {
		p := a[0].(*value)
		delete(mutexHeld, p)
		eng.yield()
		return nil
	}
	externals["(*sync.WaitGroup).Add"] = func(fr *frame, a []value) value {
		wgCount[a[0].(*value)] += int(asInt64(a[1]))
		return nil
	}
	externals["(*sync.WaitGroup).Done"] = func(fr *frame, a []value) value {
		wgCount[a[0].(*value)]--
		eng.yield()
		return nil
	}
	externals["(*sync.WaitGroup).Wait"] = func(fr *frame, a []value) value {
		p := a[0].(*value)
		eng.blockUntil(func() bool { return wgCount[p] == 0 })
		return nil
	}
}

var crcTab = crc32.MakeTable(crc32.Castagnoli)
var crcMemo = map[string]value{}

func init() {
	externals["hash/crc32.MakeTable"] = func(fr *frame, a []value) value { return (*value)(nil) }
	externals["hash/crc32.Checksum"] = func(fr *frame, a []value) value {
		data := a[0].([]value)
		conc := make([]byte, len(data))
		allc := true
		for i, x := range data {
			if c, ok := x.(uint8); ok {
				conc[i] = c
			} else {
				allc = false
			}
		}
		if allc {
			return crc32.Checksum(conc, crcTab)
		}
		// uninterpreted but functional: one fresh 32-bit value per distinct input (keyed by the
		// hash-consed terms of the bytes), so equal inputs give the equal checksum and no
		// uninterpreted function reaches the solver
		var key strings.Builder
		for _, x := range data {
			if c, ok := x.(uint8); ok {
				fmt.Fprintf(&key, "c%d,", c)
			} else {
				fmt.Fprintf(&key, "t%d,", termOf(x).id)
			}
		}
		k := key.String()
		if v, ok := crcMemo[k]; ok {
			return v
		}
		v := eng.fresh("env_crc32", types.Uint32)
		crcMemo[k] = v
		journalFn(func() { delete(crcMemo, k) })
		return v
	}
}

func init() {
	sortSlice := func(fr *frame, a []value) value {
		x := a[0].(iface).v.([]value)
		less := a[1]
		// stable insertion sort; element moves are journaled through store-like writes
		for i := 1; i < len(x); i++ {
			for j := i; j > 0; j-- {
				r := call(fr.i, fr, 0, less, []value{j, j - 1})
				if !decideBool(fr, r) {
					break
				}
				if journalOn {
					journal = append(journal, jentry{addr: &x[j], old: x[j]}, jentry{addr: &x[j-1], old: x[j-1]})
				}
				x[j], x[j-1] = x[j-1], x[j]
			}
		}
		return nil
	}
	externals["sort.SliceStable"] = sortSlice
	externals["sort.Slice"] = sortSlice
}

func init() {
	rng := func(k types.BasicKind) externalFn {
		return func(fr *frame, a []value) value {
			v := eng.fresh(argStr(a[0]), k).(*sym)
			var lo, hi *big.Int
			if k == types.Uint64 {
				lo, hi = new(big.Int).SetUint64(a[1].(uint64)), new(big.Int).SetUint64(a[2].(uint64))
			} else if k == types.Int64 {
				lo, hi = bi(a[1].(int64)), bi(a[2].(int64))
			} else {
				lo, hi = bi(int64(a[1].(int))), bi(int64(a[2].(int)))
			}
			if IntMode {
				ivals[v.T] = ival{lo, hi}
				eng.pc = append(eng.pc, mk("<=", BoolSort, ConstInt(lo), v.T), mk("<=", BoolSort, v.T, ConstInt(hi)))
			} else {
				w, signed := kindWidth(k)
				op := pick(signed, "bvsle", "bvule")
				eng.pc = append(eng.pc, BVCmp(op, ConstBV(lo, w), v.T), BVCmp(op, v.T, ConstBV(hi, w)))
			}
			return v
		}
	}
	externals[rtPath+".U64Range"] = rng(types.Uint64)
	externals[rtPath+".IntRange"] = rng(types.Int)
	externals[rtPath+".I64Range"] = rng(types.Int64)
}

// Ghost mathematical integers (zzverifrt.Z): unbounded Int terms, int mode only. A Z value is
// structure{*sym} whose term has sort Int and is never wrapped.
func zOf(v value) *Term {
	st := v.(structure)
	switch x := st[0].(type) {
	case *sym:
		return x.T
	}
	panic(unsupported("Z value without term (zero Z?)"))
}

func zMk(t *Term) value { return structure{&sym{K: types.UntypedInt, T: t}} }

func init() {
	needInt := func() {
		if !IntMode {
			panic(unsupported("zzverifrt.Z needs arith=int"))
		}
	}
	rt := func(name string, f externalFn) { externals[rtPath+"."+name] = f }
	zm := func(name string, f externalFn) { externals["("+rtPath+".Z)."+name] = f }
	rt("ZI", func(fr *frame, a []value) value { needInt(); return zMk(intTermOf(a[0])) })
	rt("ZU", func(fr *frame, a []value) value { needInt(); return zMk(intTermOf(a[0])) })
	bin := func(op string) externalFn {
		return func(fr *frame, a []value) value { return zMk(IntBin(op, zOf(a[0]), zOf(a[1]))) }
	}
	zm("Add", bin("+"))
	zm("Sub", bin("-"))
	zm("Mul", bin("*"))
	zm("MulPow10", func(fr *frame, a []value) value {
		k := asInt64(a[1])
		p := new(big.Int).Exp(bi(10), bi(k), nil)
		return zMk(IntBin("*", zOf(a[0]), ConstInt(p)))
	})
	zm("Neg", func(fr *frame, a []value) value { return zMk(IntBin("-", ConstInt(bi(0)), zOf(a[0]))) })
	zm("Abs", func(fr *frame, a []value) value {
		t := zOf(a[0])
		return zMk(Ite(IntCmp("<", t, ConstInt(bi(0))), IntBin("-", ConstInt(bi(0)), t), t))
	})
	cmp := func(op string, swap bool) externalFn {
		return func(fr *frame, a []value) value {
			x, y := zOf(a[0]), zOf(a[1])
			if swap {
				x, y = y, x
			}
			return mkVal(types.Bool, IntCmp(op, x, y))
		}
	}
	zm("Le", cmp("<=", false))
	zm("Lt", cmp("<", false))
	zm("Ge", cmp("<=", true))
	zm("Gt", cmp("<", true))
	zm("Eq", cmp("=", false))
}

func init() {
	// ghost floor(a*b/c) over 128-bit vectors (bv mode) or mathematical integers (int mode)
	externals[rtPath+".MulDiv64"] = func(fr *frame, a []value) value {
		if IntMode {
			q := IntBin("div", IntBin("*", intTermOf(a[0]), intTermOf(a[1])), intTermOf(a[2]))
			_, hi := kindRange(types.Uint64)
			return tuple{mkIntVal(types.Uint64, wrapKind(types.Uint64, q)), mkVal(types.Bool, IntCmp("<=", q, ConstInt(hi)))}
		}
		x, y, z := ZeroExt(termOf(a[0]), 128), ZeroExt(termOf(a[1]), 128), ZeroExt(termOf(a[2]), 128)
		q := BVBin("bvudiv", BVBin("bvmul", x, y), z)
		fits := BVCmp("bvule", q, ConstBV(new(big.Int).SetUint64(^uint64(0)), 128))
		return tuple{mkVal(types.Uint64, Extract(q, 63, 0)), mkVal(types.Bool, fits)}
	}
}

func init() {
	externals[rtPath+".MulLe"] = func(fr *frame, a []value) value {
		if IntMode {
			return mkVal(types.Bool, IntCmp("<=", IntBin("*", intTermOf(a[0]), intTermOf(a[1])), IntBin("*", intTermOf(a[2]), intTermOf(a[3]))))
		}
		w := func(v value) *Term { return ZeroExt(termOf(v), 128) }
		return mkVal(types.Bool, BVCmp("bvule", BVBin("bvmul", w(a[0]), w(a[1])), BVBin("bvmul", w(a[2]), w(a[3]))))
	}
}
