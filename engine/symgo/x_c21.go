package symgo

// C21 (db19/meta admin requests): util/slc.Same[string]
//
//	func Same[E any](x, y []E) bool { return len(x) == len(y) && unsafe.SliceData(x) == unsafe.SliceData(y) }
//
// uses the built-in unsafe.SliceData, which the interpreter does not have. Exact semantics on the
// engine's slice representation (a Go slice of cells): equal length and the same first cell.
// Slices without capacity have no cell: a nil slice has the nil data pointer, every non-nil
// zero-capacity slice points at the runtime's zero-size base, so two of those compare equal.
func init() {
	data := func(v value) uintptr {
		s := v.([]value)
		switch {
		case s == nil:
			return 0
		case cap(s) == 0:
			return 1
		}
		return uintptrOf(&s[:1][0])
	}
	externals["github.com/apmckinlay/gsuneido/util/slc.Same[string]"] = func(fr *frame, a []value) value {
		return len(a[0].([]value)) == len(a[1].([]value)) && data(a[0]) == data(a[1])
	}
}
