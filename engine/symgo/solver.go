package symgo

import (
	"bufio"
	"os"
	"fmt"
	"io"
	"os/exec"
	"strings"
	"time"
)

type solver struct {
	cmd     *exec.Cmd
	in      io.WriteCloser
	out     *bufio.Reader
	queries int
	nsat    int
	nunsat  int
	nunk    int
	dur     time.Duration
	log     io.Writer
	name    string
}

func newSolver(kind string, qtimeoutMs int) *solver {
	var cmd *exec.Cmd
	switch kind {
	case "z3-new":
		cmd = exec.Command("z3-new", "-in", fmt.Sprintf("-t:%d", qtimeoutMs))
	case "cvc5":
		cmd = exec.Command("cvc5", "--incremental", "--lang=smt2", "--produce-models", fmt.Sprintf("--tlimit-per=%d", qtimeoutMs))
	default:
		kind = "z3"
		cmd = exec.Command("z3", "-in", fmt.Sprintf("-t:%d", qtimeoutMs))
	}
	in, _ := cmd.StdinPipe()
	out, _ := cmd.StdoutPipe()
	cmd.Stderr = cmd.Stdout
	if err := cmd.Start(); err != nil {
		panic(err)
	}
	s := &solver{cmd: cmd, in: in, out: bufio.NewReader(out), name: kind}
	if f := os.Getenv("SYMGO_LOG"); f != "" {
		s.log, _ = os.Create(f)
	}
	return s
}

func (s *solver) close() { s.in.Close(); s.cmd.Wait() }

// check asks sat(conj of terms). If wantModel lists vars, returns their values on sat.
func (s *solver) check(conj []*Term, vars []*Term) (res string, model []string) {
	t0 := time.Now()
	s.queries++
	var decls, body strings.Builder
	p := &printer{defined: map[*Term]bool{}, decls: &decls}
	for _, c := range conj {
		fmt.Fprintf(&body, "(assert %s)\n", p.smt(c))
	}
	names := []string{}
	for _, v := range vars {
		names = append(names, p.smt(v))
	}
	pre := ""
	if strings.Contains(decls.String(), "crcstep") {
		pre = "(declare-fun crcstep ((_ BitVec 32) (_ BitVec 8)) (_ BitVec 32))\n"
	}
	hdr := "(push 1)\n"
	if IntMode {
		hdr = "(reset)\n"
	}
	script := hdr + pre + decls.String() + body.String() + "(check-sat)\n"
	if s.log != nil {
		fmt.Fprint(s.log, script)
	}
	fmt.Fprint(s.in, script)
	line := s.readLine()
	for strings.HasPrefix(line, "(error") || line == "" {
		if strings.HasPrefix(line, "(error") {
			panic("solver error: " + line + "\n" + script)
		}
		line = s.readLine()
	}
	res = line
	if res != "sat" && res != "unsat" && os.Getenv("SYMGO_DUMP") != "" {
		os.WriteFile(os.Getenv("SYMGO_DUMP"), []byte(script), 0644)
	}
	if res == "sat" && len(names) > 0 {
		fmt.Fprintf(s.in, "(get-value (%s))\n", strings.Join(names, " "))
		// response: ((a #x..) (b #x..)) possibly multi-line; read until balanced
		txt := s.readBalanced()
		model = make([]string, len(names))
		for k, n := range names {
			i := strings.Index(txt, "("+n+" ")
			if i >= 0 {
				rest := txt[i+len(n)+2:]
				j := strings.Index(rest, ")")
				if strings.HasPrefix(strings.TrimSpace(rest), "(") {
					j = strings.Index(rest, ")") + 1
				}
				model[k] = strings.TrimSpace(rest[:j])
			}
		}
	}
	if !IntMode {
		fmt.Fprint(s.in, "(pop 1)\n")
	}
	switch res {
	case "sat":
		s.nsat++
	case "unsat":
		s.nunsat++
	default:
		s.nunk++
	}
	s.dur += time.Since(t0)
	return
}

func (s *solver) readLine() string {
	l, err := s.out.ReadString('\n')
	if err != nil {
		panic("solver died: " + err.Error())
	}
	return strings.TrimSpace(l)
}

func (s *solver) readBalanced() string {
	var sb strings.Builder
	depth := 0
	started := false
	for {
		l := s.readLine()
		sb.WriteString(l)
		sb.WriteByte(' ')
		for _, c := range l {
			if c == '(' {
				depth++
				started = true
			} else if c == ')' {
				depth--
			}
		}
		if started && depth == 0 {
			return sb.String()
		}
	}
}
