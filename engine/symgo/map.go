package symgo

// Ordered, journalled map used for every Go map of the target program.
// Iteration order is insertion order (deterministic re-execution); keys may contain symbolic
// scalars/strings, in which case lookups compare against entries and fork on the solver.

import (
	"go/types"
)

type omap struct {
	keyType types.Type
	keys    []value
	vals    []value
	live    []bool
	idx     map[int][]int // hash of concrete keys -> positions
	symPos  []int         // positions whose key contains symbolic parts
	n       int
}

func makeMap(kt types.Type, reserve int64) value {
	return &omap{keyType: kt, idx: map[int][]int{}}
}

func keyHash(kt types.Type, k value) int {
	if s, ok := k.(smiVal); ok {
		return int(asInt64(s.n))
	}
	return hash(kt, kt, k)
}

// find returns the position of key k or -1. May fork (decideBool) when symbolic keys are involved.
func (m *omap) find(k value) int {
	if m == nil {
		return -1
	}
	if hasSym(k) {
		for p := range m.keys {
			if m.live[p] && decideBool(nil, symEquals(m.keyType, m.keys[p], k)) {
				return p
			}
		}
		return -1
	}
	for _, p := range m.idx[keyHash(m.keyType, k)] {
		if m.live[p] && equals(m.keyType, m.keys[p], k) {
			return p
		}
	}
	for _, p := range m.symPos {
		if m.live[p] && decideBool(nil, symEquals(m.keyType, m.keys[p], k)) {
			return p
		}
	}
	return -1
}

func (m *omap) lookup(k value) (value, bool) {
	p := m.find(k)
	if p < 0 {
		return nil, false
	}
	return m.vals[p], true
}

func (m *omap) insert(k, v value) {
	if p := m.find(k); p >= 0 {
		old := m.vals[p]
		journalFn(func() { m.vals[p] = old })
		m.vals[p] = v
		return
	}
	p := len(m.keys)
	m.keys = append(m.keys, k)
	m.vals = append(m.vals, v)
	m.live = append(m.live, true)
	m.n++
	sym := hasSym(k)
	var h int
	if sym {
		m.symPos = append(m.symPos, p)
	} else {
		h = keyHash(m.keyType, k)
		m.idx[h] = append(m.idx[h], p)
	}
	journalFn(func() {
		m.keys, m.vals, m.live = m.keys[:p], m.vals[:p], m.live[:p]
		m.n--
		if sym {
			m.symPos = m.symPos[:len(m.symPos)-1]
		} else {
			b := m.idx[h]
			if len(b) == 1 {
				delete(m.idx, h)
			} else {
				m.idx[h] = b[:len(b)-1]
			}
		}
	})
}

func (m *omap) delete(k value) {
	p := m.find(k)
	if p < 0 {
		return
	}
	m.live[p] = false
	m.n--
	journalFn(func() { m.live[p] = true; m.n++ })
}

func (m *omap) clear() {
	for p := range m.keys {
		if m.live[p] {
			p := p
			m.live[p] = false
			m.n--
			journalFn(func() { m.live[p] = true; m.n++ })
		}
	}
}

func (m *omap) len() int {
	if m == nil {
		return 0
	}
	return m.n
}

type omapIter struct {
	m *omap
	p int
}

func (it *omapIter) next() tuple {
	if it.m != nil {
		for it.p < len(it.m.keys) {
			p := it.p
			it.p++
			if it.m.live[p] {
				return []value{true, it.m.keys[p], it.m.vals[p]}
			}
		}
	}
	return []value{false, nil, nil}
}
