package symgo

// Integer ("int") arithmetic mode: Go integers as mathematical Ints with interval tracking
// and explicit wrap-around (spike).

import (
	"fmt"
	"go/token"
	"go/types"
	"math/big"
)

var IntMode bool

// intBinopExt is an extension hook for int-mode binary operators that intBinop does not
// translate itself (set from x_*.go files); it returns nil when it cannot handle the case either.
var intBinopExt func(op token.Token, k types.BasicKind, a, b *Term) value

// intBinopPre is consulted first (exact simplifications from x_*.go files; nil = not handled).
var intBinopPre func(op token.Token, k types.BasicKind, a, b *Term) value

var IntSort = Sort{W: -1}

func isIntSort(s Sort) bool { return s.W == -1 }

type ival struct{ lo, hi *big.Int } // nil = unbounded

var ivals = map[*Term]ival{}

func bi(n int64) *big.Int { return big.NewInt(n) }

func ConstInt(v *big.Int) *Term {
	t := intern(&Term{Op: "const", Sort: IntSort, Val: new(big.Int).Set(v)})
	ivals[t] = ival{t.Val, t.Val}
	return t
}

func kindRange(k types.BasicKind) (lo, hi *big.Int) {
	w, signed := kindWidth(k)
	if signed {
		h := new(big.Int).Lsh(bi(1), uint(w-1))
		return new(big.Int).Neg(h), new(big.Int).Sub(h, bi(1))
	}
	return bi(0), new(big.Int).Sub(new(big.Int).Lsh(bi(1), uint(w)), bi(1))
}

func iv(t *Term) ival {
	if v, ok := ivals[t]; ok {
		return v
	}
	if t.IsConst() && isIntSort(t.Sort) {
		return ival{t.Val, t.Val}
	}
	return ival{}
}

func setIv(t *Term, lo, hi *big.Int) *Term {
	if _, ok := ivals[t]; !ok {
		ivals[t] = ival{lo, hi}
	}
	return t
}

func minmax(xs ...*big.Int) (lo, hi *big.Int) {
	lo, hi = xs[0], xs[0]
	for _, x := range xs[1:] {
		if x.Cmp(lo) < 0 {
			lo = x
		}
		if x.Cmp(hi) > 0 {
			hi = x
		}
	}
	return
}

func IntBin(op string, a, b *Term) *Term {
	if a.IsConst() && b.IsConst() {
		r := new(big.Int)
		switch op {
		case "+":
			return ConstInt(r.Add(a.Val, b.Val))
		case "-":
			return ConstInt(r.Sub(a.Val, b.Val))
		case "*":
			return ConstInt(r.Mul(a.Val, b.Val))
		case "div": // euclidean/floor for positive divisor
			if b.Val.Sign() > 0 {
				q, _ := new(big.Int).DivMod(a.Val, b.Val, new(big.Int))
				return ConstInt(q)
			}
		case "mod":
			if b.Val.Sign() > 0 {
				return ConstInt(r.Mod(a.Val, b.Val))
			}
		}
	}
	switch op {
	case "+":
		if a.IsConst() && a.Val.Sign() == 0 {
			return b
		}
		if b.IsConst() && b.Val.Sign() == 0 {
			return a
		}
	case "-":
		if b.IsConst() && b.Val.Sign() == 0 {
			return a
		}
	case "*":
		if a.IsConst() && a.Val.Cmp(bi(1)) == 0 {
			return b
		}
		if b.IsConst() && b.Val.Cmp(bi(1)) == 0 {
			return a
		}
	case "div":
		if b.IsConst() && b.Val.Cmp(bi(1)) == 0 {
			return a
		}
	}
	t := mk(op, IntSort, a, b)
	ia, ib := iv(a), iv(b)
	if _, ok := ivals[t]; !ok && ia.lo != nil && ib.lo != nil {
		switch op {
		case "+":
			ivals[t] = ival{new(big.Int).Add(ia.lo, ib.lo), new(big.Int).Add(ia.hi, ib.hi)}
		case "-":
			ivals[t] = ival{new(big.Int).Sub(ia.lo, ib.hi), new(big.Int).Sub(ia.hi, ib.lo)}
		case "*":
			lo, hi := minmax(new(big.Int).Mul(ia.lo, ib.lo), new(big.Int).Mul(ia.lo, ib.hi), new(big.Int).Mul(ia.hi, ib.lo), new(big.Int).Mul(ia.hi, ib.hi))
			ivals[t] = ival{lo, hi}
		case "div":
			if ib.lo.Sign() > 0 {
				f := func(x, y *big.Int) *big.Int { q, _ := new(big.Int).DivMod(x, y, new(big.Int)); return q }
				lo, hi := minmax(f(ia.lo, ib.lo), f(ia.lo, ib.hi), f(ia.hi, ib.lo), f(ia.hi, ib.hi))
				ivals[t] = ival{lo, hi}
			}
		case "mod":
			if ib.lo.Sign() > 0 {
				ivals[t] = ival{bi(0), new(big.Int).Sub(ib.hi, bi(1))}
			}
		}
	}
	return t
}

func IntCmp(op string, a, b *Term) *Term {
	if a.IsConst() && b.IsConst() {
		c := a.Val.Cmp(b.Val)
		switch op {
		case "=":
			return ConstBool(c == 0)
		case "<":
			return ConstBool(c < 0)
		case "<=":
			return ConstBool(c <= 0)
		}
	}
	if op == "=" && a == b {
		return tTrue
	}
	// interval-based decisions
	ia, ib := iv(a), iv(b)
	if ia.lo != nil && ib.lo != nil {
		switch op {
		case "<":
			if ia.hi.Cmp(ib.lo) < 0 {
				return tTrue
			}
			if ia.lo.Cmp(ib.hi) >= 0 {
				return tFalse
			}
		case "<=":
			if ia.hi.Cmp(ib.lo) <= 0 {
				return tTrue
			}
			if ia.lo.Cmp(ib.hi) > 0 {
				return tFalse
			}
		}
	}
	return mk(op, BoolSort, a, b)
}

// wrapKind reduces t into the range of kind k (two's complement wrap), if needed.
func wrapKind(k types.BasicKind, t *Term) *Term {
	lo, hi := kindRange(k)
	i := iv(t)
	if i.lo != nil && i.lo.Cmp(lo) >= 0 && i.hi.Cmp(hi) <= 0 {
		return t
	}
	w, signed := kindWidth(k)
	m := ConstInt(new(big.Int).Lsh(bi(1), uint(w)))
	if i.lo != nil {
		// the interval spans only a few multiples of 2^w: wrap with an ite chain (linear, no mod)
		kmin, _ := new(big.Int).DivMod(new(big.Int).Sub(i.lo, lo), m.Val, new(big.Int))
		kmax, _ := new(big.Int).DivMod(new(big.Int).Sub(i.hi, lo), m.Val, new(big.Int))
		if new(big.Int).Sub(kmax, kmin).Cmp(bi(4)) <= 0 {
			// value = t - k*2^w for the k with lo + k*2^w <= t < lo + (k+1)*2^w
			kk := new(big.Int).Set(kmax)
			r := IntBin("-", t, ConstInt(new(big.Int).Mul(kk, m.Val)))
			for kk.Cmp(kmin) > 0 {
				kk = new(big.Int).Sub(kk, bi(1))
				bound := new(big.Int).Add(lo, new(big.Int).Mul(new(big.Int).Add(kk, bi(1)), m.Val))
				r = Ite(IntCmp("<", t, ConstInt(bound)), IntBin("-", t, ConstInt(new(big.Int).Mul(kk, m.Val))), r)
			}
			setIv(r, lo, hi)
			return r
		}
	}
	if !signed {
		return IntBin("mod", t, m)
	}
	h := ConstInt(new(big.Int).Lsh(bi(1), uint(w-1)))
	return IntBin("-", IntBin("mod", IntBin("+", t, h), m), h)
}

func intTermOf(v value) *Term {
	switch v := v.(type) {
	case *sym:
		return v.T
	}
	k, _ := kindOf(v)
	_, signed := kindWidth(k)
	if signed {
		return ConstInt(bi(asInt64(v)))
	}
	return ConstInt(new(big.Int).SetUint64(asUint64(v)))
}

func mkIntVal(k types.BasicKind, t *Term) value {
	if t.IsConst() {
		w, _ := kindWidth(k)
		return mkVal(k, ConstBV(t.Val, w))
	}
	return &sym{K: k, T: t}
}

func isPow2Minus1(v *big.Int) (int, bool) {
	x := new(big.Int).Add(v, bi(1))
	if x.Sign() > 0 && new(big.Int).And(x, v).Sign() == 0 {
		return x.BitLen() - 1, true
	}
	return 0, false
}

func intBinop(op token.Token, x, y value) value {
	kx, _ := kindOf(x)
	_, signed := kindWidth(kx)
	a, b := intTermOf(x), intTermOf(y)
	if intBinopPre != nil {
		if v := intBinopPre(op, kx, a, b); v != nil {
			return v
		}
	}
	ti := func(t *Term) value { return mkIntVal(kx, wrapKind(kx, t)) }
	switch op {
	case token.ADD:
		return ti(IntBin("+", a, b))
	case token.SUB:
		return ti(IntBin("-", a, b))
	case token.MUL:
		return ti(IntBin("*", a, b))
	case token.QUO, token.REM:
		var q *Term
		ib := iv(b)
		ia := iv(a)
		if ib.lo != nil && ib.lo.Sign() > 0 && ia.lo != nil && ia.lo.Sign() >= 0 {
			if op == token.REM {
				// non-negative dividend, positive divisor: Go's % is the mathematical mod,
				// whose interval [0, b.hi-1] avoids a wrap term
				return ti(IntBin("mod", a, b))
			}
			q = IntBin("div", a, b)
		} else if !signed {
			q = IntBin("div", a, b)
		} else {
			// truncated division via abs values
			zero := ConstInt(bi(0))
			na, nb := IntBin("-", zero, a), IntBin("-", zero, b)
			absA := Ite(IntCmp("<", a, zero), na, a)
			absB := Ite(IntCmp("<", b, zero), nb, b)
			qa := mk("div", IntSort, absA, absB)
			neg := Not(BoolEq(IntCmp("<", a, zero), IntCmp("<", b, zero)))
			q = Ite(neg, IntBin("-", zero, qa), qa)
		}
		if op == token.QUO {
			return ti(q)
		}
		return ti(IntBin("-", a, IntBin("*", b, q)))
	case token.EQL:
		return mkVal(types.Bool, IntCmp("=", a, b))
	case token.NEQ:
		return mkVal(types.Bool, Not(IntCmp("=", a, b)))
	case token.LSS:
		return mkVal(types.Bool, IntCmp("<", a, b))
	case token.LEQ:
		return mkVal(types.Bool, IntCmp("<=", a, b))
	case token.GTR:
		return mkVal(types.Bool, IntCmp("<", b, a))
	case token.GEQ:
		return mkVal(types.Bool, IntCmp("<=", b, a))
	case token.SHL, token.SHR:
		if !b.IsConst() {
			panic(unsupported("int mode: shift by symbolic amount"))
		}
		n := uint(b.Val.Uint64())
		p := ConstInt(new(big.Int).Lsh(bi(1), n))
		if op == token.SHL {
			return ti(IntBin("*", a, p))
		}
		return ti(IntBin("div", a, p)) // floor division = arithmetic shift
	case token.AND:
		c, other := b, a
		if a.IsConst() {
			c, other = a, b
		}
		if c.IsConst() {
			if k, ok := isPow2Minus1(c.Val); ok && iv(other).lo != nil && iv(other).lo.Sign() >= 0 {
				return ti(IntBin("mod", other, ConstInt(new(big.Int).Lsh(bi(1), uint(k)))))
			}
			if c.Val.Sign() >= 0 && iv(other).lo != nil && iv(other).lo.Sign() >= 0 && c.Val.BitLen() <= 64 {
				r := ConstInt(bi(0))
				for k := 0; k < c.Val.BitLen(); k++ {
					if c.Val.Bit(k) == 1 {
						p := ConstInt(new(big.Int).Lsh(bi(1), uint(k)))
						r = IntBin("+", r, IntBin("*", p, IntBin("mod", IntBin("div", other, p), ConstInt(bi(2)))))
					}
				}
				return ti(r)
			}
		}
	case token.XOR, token.OR, token.AND_NOT:
		c, other := b, a
		if a.IsConst() && op != token.AND_NOT {
			c, other = a, b
		}
		io := iv(other)
		if op == token.XOR && c.IsConst() && !signed {
			_, khi := kindRange(kx)
			if c.Val.Cmp(khi) == 0 { // ^ all-ones
				return ti(IntBin("-", ConstInt(khi), other))
			}
			if kx == types.Uint8 && c.Val.Int64() == 0x80 {
				return ti(Ite(IntCmp("<", other, ConstInt(bi(128))), IntBin("+", other, ConstInt(bi(128))), IntBin("-", other, ConstInt(bi(128)))))
			}
		}
		if c.IsConst() && c.Val.Sign() == 0 && op != token.AND_NOT {
			return ti(other)
		}
		if c.IsConst() && c.Val.Sign() >= 0 && io.lo != nil && io.lo.Sign() >= 0 && c.Val.BitLen() <= 64 {
			// bitwise op with a non-negative constant on a non-negative operand:
			// result = other + sum over set bits k of c of delta_k*2^k, with bit_k = (other div 2^k) mod 2
			r := other
			for k := 0; k < c.Val.BitLen(); k++ {
				if c.Val.Bit(k) == 0 {
					continue
				}
				p := ConstInt(new(big.Int).Lsh(bi(1), uint(k)))
				var bit *Term
				if io.hi.Cmp(new(big.Int).Lsh(bi(1), uint(k))) < 0 {
					bit = ConstInt(bi(0))
				} else {
					bit = IntBin("mod", IntBin("div", other, p), ConstInt(bi(2)))
				}
				switch op {
				case token.XOR: // bit 0 -> +2^k, bit 1 -> -2^k
					r = IntBin("+", r, IntBin("*", p, IntBin("-", ConstInt(bi(1)), IntBin("*", ConstInt(bi(2)), bit))))
				case token.OR: // bit 0 -> +2^k
					r = IntBin("+", r, IntBin("*", p, IntBin("-", ConstInt(bi(1)), bit)))
				case token.AND_NOT: // bit 1 -> -2^k
					r = IntBin("-", r, IntBin("*", p, bit))
				}
			}
			return ti(r)
		}
	}
	if intBinopExt != nil {
		if v := intBinopExt(op, kx, a, b); v != nil {
			return v
		}
	}
	panic(unsupported(fmt.Sprintf("int mode: binop %s", op)))
}
