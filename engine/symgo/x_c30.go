package symgo

// Engine extensions for the C30 / C25 harnesses (package compile/ast).
//
//  1. Product normalisation in int mode (exact; switched on only by a harness that calls the empty
//     function compile/ast.v30normalizeProducts, so that no other harness sees different terms).
//     In int mode a Go `x * y` whose interval fits the operand type is the mathematical product
//     term (* x y). With the switch on, products are kept in one canonical form - constant
//     coefficient first, then the non-product factors ordered by term id - using only
//     commutativity and associativity of integer multiplication, and `a / b`, `a % b` are
//     simplified when every factor of b (and its coefficient) cancels against a: a = b*q exactly,
//     hence a / b = q and a % b = 0 for every b != 0 (Go's truncated division is exact division
//     then). Division by a symbolic zero is not modelled by the engine in any mode (no panic is
//     produced); the code under test guards its divisions (core.OpDiv, core.OpMul).
//  2. util/slc.Same[ast.Expr] (unsafe.SliceData), as x_c21.go does for []string.

import (
	"go/token"
	"go/types"
	"math/big"
	"sort"
)

var c30Norm bool

type c30mono struct {
	coef *big.Int
	fs   []*Term
}

func c30flat(t *Term, m *c30mono) {
	switch {
	case t.IsConst() && isIntSort(t.Sort):
		m.coef.Mul(m.coef, t.Val)
	case t.Op == "*" && isIntSort(t.Sort) && len(t.Args) == 2:
		c30flat(t.Args[0], m)
		c30flat(t.Args[1], m)
	default:
		m.fs = append(m.fs, t)
	}
}

func c30monoOf(ts ...*Term) *c30mono {
	m := &c30mono{coef: big.NewInt(1)}
	for _, t := range ts {
		c30flat(t, m)
	}
	sort.SliceStable(m.fs, func(i, j int) bool { return m.fs[i].id < m.fs[j].id })
	return m
}

func (m *c30mono) term() *Term {
	r := ConstInt(m.coef)
	if m.coef.Sign() == 0 {
		return r
	}
	for _, f := range m.fs {
		r = IntBin("*", r, f)
	}
	return r
}

// c30cancel returns a/b as a monomial when b's factors and coefficient cancel exactly.
func c30cancel(a, b *c30mono) *c30mono {
	if b.coef.Sign() == 0 {
		return nil
	}
	q, r := new(big.Int).QuoRem(a.coef, b.coef, new(big.Int))
	if r.Sign() != 0 {
		return nil
	}
	rest := append([]*Term(nil), a.fs...)
	for _, f := range b.fs {
		found := false
		for i, g := range rest {
			if g == f {
				rest = append(rest[:i], rest[i+1:]...)
				found = true
				break
			}
		}
		if !found {
			return nil
		}
	}
	return &c30mono{coef: q, fs: rest}
}

func c30Pre(op token.Token, k types.BasicKind, a, b *Term) value {
	if !isIntSort(a.Sort) || !isIntSort(b.Sort) {
		return nil
	}
	ti := func(t *Term) value { return mkIntVal(k, wrapKind(k, t)) }
	switch op {
	case token.MUL:
		if a.IsConst() && b.IsConst() {
			return nil
		}
		return ti(c30monoOf(a, b).term())
	case token.QUO, token.REM:
		if b.IsConst() && len(c30monoOf(a).fs) == 0 {
			return nil
		}
		q := c30cancel(c30monoOf(a), c30monoOf(b))
		if q == nil {
			return nil
		}
		if op == token.REM {
			return ti(ConstInt(bi(0)))
		}
		return ti(q.term())
	}
	return nil
}

func init() {
	externals[modPath+"/compile/ast.v30normalizeProducts"] = func(fr *frame, a []value) value {
		c30Norm = true
		return nil
	}
	prev := intBinopPre
	intBinopPre = func(op token.Token, k types.BasicKind, a, b *Term) value {
		if prev != nil {
			if v := prev(op, k, a, b); v != nil {
				return v
			}
		}
		if !c30Norm {
			return nil
		}
		return c30Pre(op, k, a, b)
	}

	data := func(v value) uintptr {
		s := v.([]value)
		switch {
		case s == nil:
			return 0
		case cap(s) == 0:
			return 1
		}
		return uintptrOf(&s[:1][0])
	}
	externals[modPath+"/util/slc.Same["+modPath+"/compile/ast.Expr]"] = func(fr *frame, a []value) value {
		return len(a[0].([]value)) == len(a[1].([]value)) && data(a[0]) == data(a[1])
	}
}
