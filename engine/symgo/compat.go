package symgo

import "go/types"

func mustDeref(t types.Type) types.Type {
	if ptr, ok := t.Underlying().(*types.Pointer); ok {
		return ptr.Elem()
	}
	panic("mustDeref: not a pointer: " + t.String())
}
