// Package zzverifrt is the harness runtime of the /verif checks. It is never part of /repo:
// it is injected as an overlay package. Under the symbolic engine (symgo) most functions
// here are intrinsics (nondet inputs become SMT variables, Assume/Assert become solver
// queries). Compiled natively the same functions replay a recorded assignment
// (env VERIF_REPLAY=file.json) so that a solver model can be run against the real code.
package zzverifrt

import (
	"encoding/json"
	"fmt"
	"math/big"
	"runtime"
	"os"
	"strconv"
	"strings"
)

type vector struct {
	Vals     map[string][]string `json:"vals"` // name -> values in call order (decimal)
	Thorough bool                `json:"thorough"`
}

var vec *vector
var used = map[string]int{}

// Failed holds labels of assertions that failed during a native replay.
var Failed []string

// Log holds the native observation log (Observe, Reach, failed asserts).
var Log []string

func load() {
	if vec != nil {
		return
	}
	vec = &vector{Vals: map[string][]string{}}
	if f := os.Getenv("VERIF_REPLAY"); f != "" {
		b, err := os.ReadFile(f)
		if err != nil {
			panic(err)
		}
		if err := json.Unmarshal(b, vec); err != nil {
			panic(err)
		}
	}
}

// Reset clears replay state (used by the native replay driver between vectors).
func Reset(file string) {
	vec = nil
	used = map[string]int{}
	Failed = nil
	Log = nil
	os.Setenv("VERIF_REPLAY", file)
}

func next(name string) string {
	load()
	i := used[name]
	used[name]++
	if vs := vec.Vals[name]; i < len(vs) {
		return vs[i]
	}
	return "0" // unconstrained by the model
}

// Thorough reports whether the thorough tier is running (concrete in the engine).
func Thorough() bool { load(); return vec.Thorough }

func U64(name string) uint64 { n, _ := strconv.ParseUint(next(name), 10, 64); return n }
func I64(name string) int64  { n, _ := strconv.ParseInt(next(name), 10, 64); return n }
func Int(name string) int    { return int(I64(name)) }
func I32(name string) int32  { return int32(I64(name)) }
func U32(name string) uint32 { return uint32(U64(name)) }
func I16(name string) int16  { return int16(I64(name)) }
func U16(name string) uint16 { return uint16(U64(name)) }
func I8(name string) int8    { return int8(I64(name)) }
func Byte(name string) byte  { return byte(U64(name)) }
func Bool(name string) bool  { s := next(name); return s == "1" || s == "true" }
func Bytes(name string, n int) []byte {
	b := make([]byte, n)
	for i := range b {
		b[i] = Byte(fmt.Sprintf("%s_%d", name, i))
	}
	return b
}
func Str(name string, n int) string { return string(Bytes(name, n)) }

// Pick is a nondet int in [0,n) that the engine forks on immediately (concrete on each path).
func Pick(name string, n int) int { return Int(name) }

// Choice is a symbolic int in [0,n).
func Choice(name string, n int) int { return Int(name) }

func U64Range(name string, lo, hi uint64) uint64 { return U64(name) }
func IntRange(name string, lo, hi int) int       { return Int(name) }
func I64Range(name string, lo, hi int64) int64   { return I64(name) }

// Concrete forks the engine over the feasible values of v (at most 64) and returns it concrete.
func Concrete(v int) int { return v }

func Assume(c bool) {
	if !c {
		panic("zzverifrt: replayed assignment violates an Assume")
	}
}
func Assert(label string, c bool) {
	if !c {
		Failed = append(Failed, label)
		Log = append(Log, "FAILED "+label)
	}
}
func Reach(label string) {}

// Observe records a value for translator validation (conformance): the engine evaluates it
// under a solver model, the native replay prints it, the runner compares.
func Observe(label string, v any) {
	Log = append(Log, "OBS "+label+"="+fmtObs(v))
}

func fmtObs(v any) string {
	switch v := v.(type) {
	case string:
		return "s:" + hex(v)
	case []byte:
		return "s:" + hex(string(v))
	case bool:
		if v {
			return "b:1"
		}
		return "b:0"
	case int:
		return "i:" + strconv.FormatInt(int64(v), 10)
	case int8:
		return "i:" + strconv.FormatInt(int64(v), 10)
	case int16:
		return "i:" + strconv.FormatInt(int64(v), 10)
	case int32:
		return "i:" + strconv.FormatInt(int64(v), 10)
	case int64:
		return "i:" + strconv.FormatInt(v, 10)
	case uint:
		return "i:" + strconv.FormatUint(uint64(v), 10)
	case uint8:
		return "i:" + strconv.FormatUint(uint64(v), 10)
	case uint16:
		return "i:" + strconv.FormatUint(uint64(v), 10)
	case uint32:
		return "i:" + strconv.FormatUint(uint64(v), 10)
	case uint64:
		return "i:" + strconv.FormatUint(v, 10)
	}
	return fmt.Sprintf("?:%T", v)
}

func hex(s string) string {
	var sb strings.Builder
	for i := 0; i < len(s); i++ {
		fmt.Fprintf(&sb, "%02x", s[i])
	}
	return sb.String()
}

// Try runs f and reports whether it panicked (ordinary Go in both worlds).
func Try(f func()) (panicked bool) {
	defer func() {
		if e := recover(); e != nil {
			if s, ok := e.(string); ok && strings.HasPrefix(s, "zzverifrt:") {
				panic(e)
			}
			panicked = true
		}
	}()
	f()
	return false
}

// TryMsg runs f and returns the panic value formatted with %v ("" if none) natively; in the
// engine panic texts built by fmt are placeholders, so harnesses must not branch on them
// except through HasPrefix-free helpers. Provided for diagnostics only.
func TryMsg(f func()) (msg string, panicked bool) {
	defer func() {
		if e := recover(); e != nil {
			if s, ok := e.(string); ok && strings.HasPrefix(s, "zzverifrt:") {
				panic(e)
			}
			panicked = true
			msg = fmt.Sprint(e)
		}
	}()
	f()
	return "", false
}

// Implies / And / Or / Ite are branch-free helpers for oracles (the engine builds one term).
func Implies(a, b bool) bool { return !a || b }
func And(a, b bool) bool     { return a && b }
func Or(a, b bool) bool      { return a || b }
func IteInt(c bool, a, b int) int {
	if c {
		return a
	}
	return b
}

// AddFits / SubFits / MulFits report whether the exact mathematical result fits in int64
// (ghost arithmetic: the engine evaluates them over unbounded integers / 128-bit vectors).
func AddFits(a, b int64) bool {
	s := a + b
	return (s > a) == (b > 0)
}
func SubFits(a, b int64) bool {
	d := a - b
	return (d < a) == (b > 0)
}
func MulFits(a, b int64) bool {
	if a == 0 || b == 0 {
		return true
	}
	if (a == -1 && b == -9223372036854775808) || (b == -1 && a == -9223372036854775808) {
		return false
	}
	p := a * b
	return p/b == a
}

// Yield marks a visible scheduling point in harness threads.
func Yield() {}

// Go starts a harness thread (an engine thread under the symbolic scheduler). Natively the
// function runs to completion immediately unless a schedule is being replayed.
func Go(f func()) { f() }

// Z is a ghost mathematical integer for oracles (unbounded; the engine uses Int terms, arith=int only).
type Z struct{ b *big.Int }

func ZI(n int64) Z  { return Z{big.NewInt(n)} }
func ZU(n uint64) Z { return Z{new(big.Int).SetUint64(n)} }

func (a Z) Add(b Z) Z { return Z{new(big.Int).Add(a.b, b.b)} }
func (a Z) Sub(b Z) Z { return Z{new(big.Int).Sub(a.b, b.b)} }
func (a Z) Mul(b Z) Z { return Z{new(big.Int).Mul(a.b, b.b)} }
func (a Z) MulPow10(k int) Z {
	return Z{new(big.Int).Mul(a.b, new(big.Int).Exp(big.NewInt(10), big.NewInt(int64(k)), nil))}
}
func (a Z) Neg() Z        { return Z{new(big.Int).Neg(a.b)} }
func (a Z) Abs() Z        { return Z{new(big.Int).Abs(a.b)} }
func (a Z) Le(b Z) bool   { return a.b.Cmp(b.b) <= 0 }
func (a Z) Lt(b Z) bool   { return a.b.Cmp(b.b) < 0 }
func (a Z) Ge(b Z) bool   { return a.b.Cmp(b.b) >= 0 }
func (a Z) Gt(b Z) bool   { return a.b.Cmp(b.b) > 0 }
func (a Z) Eq(b Z) bool   { return a.b.Cmp(b.b) == 0 }

// TryKind runs f and classifies the outcome: 0 = returned, 1 = panicked with an ordinary value
// (string, error, exception object), 2 = panicked with a Go runtime error (nil dereference,
// index or slice bounds, division by zero, failed type assertion...).
func TryKind(f func()) (kind int) {
	defer func() {
		if e := recover(); e != nil {
			if s, ok := e.(string); ok && strings.HasPrefix(s, "zzverifrt:") {
				panic(e)
			}
			kind = 1
			if _, ok := e.(runtime.Error); ok {
				kind = 2
			}
		}
	}()
	f()
	return 0
}

// MulDiv64 is a ghost operation for oracles: floor(a*b/c) computed without overflow (c != 0);
// ok reports whether the quotient fits in 64 bits.
func MulDiv64(a, b, c uint64) (q uint64, ok bool) {
	p := new(big.Int).Mul(new(big.Int).SetUint64(a), new(big.Int).SetUint64(b))
	p.Div(p, new(big.Int).SetUint64(c))
	return p.Uint64(), p.IsUint64()
}

// MulLe is a ghost comparison for oracles: a*b <= c*d over unbounded integers.
func MulLe(a, b, c, d uint64) bool {
	x := new(big.Int).Mul(new(big.Int).SetUint64(a), new(big.Int).SetUint64(b))
	y := new(big.Int).Mul(new(big.Int).SetUint64(c), new(big.Int).SetUint64(d))
	return x.Cmp(y) <= 0
}
