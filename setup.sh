#!/bin/sh
# builds the symbolic engine from /verif/engine (offline; module cache only)
set -e
cd "$(dirname "$0")/engine"
unset GOSUMDB
export GOFLAGS=-mod=mod GOPROXY=off
mkdir -p ../bin
go build -o ../bin/symgo ./cmd/symgo
echo "symgo built"
