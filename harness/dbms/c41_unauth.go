package dbms

import (
	"crypto/sha1"

	"github.com/apmckinlay/gsuneido/core"
	"github.com/apmckinlay/gsuneido/dbms/commands"
	rt "github.com/apmckinlay/gsuneido/zzverifrt"
)

// C41 one arbitrary request on an unauthenticated connection (command byte and 0..3 argument
// bytes fully symbolic; the connection may or may not have an outstanding nonce): afterwards the
// connection is still unauthenticated; every command outside {Auth, LibGet, Libraries, Nonce,
// SessionId, EndSession} is answered with an error (or the connection is closed) and leaves the
// token table and the other connection untouched.
//
//symgo:harness prop=C41 tier=quick shards=16 timeout=500 ttimeout=1700 bounds=1_request;command_byte_any;0..3_argument_bytes_any(thorough_4);nonce_outstanding_or_not
func VerifC41OneRequest() {
	c, other := vsetup()
	if rt.Pick("nonce-outstanding", 2) == 1 {
		c.sc.nonce = rt.Str("nonce", 8)
	}
	cmd := rt.Byte("cmd")
	maxarg := 4
	if rt.Thorough() {
		maxarg = 5
	}
	n := rt.Pick("arglen", maxarg)
	req := append([]byte{cmd}, rt.Bytes("arg", n)...)
	resp := c.request(req)
	rt.Reach("handled")
	rt.Assert("unauth/still-unauthenticated", c.unauth())
	if !vallowed(cmd) {
		if len(resp) > 0 {
			if c := commands.Command(cmd); c == commands.ReadCount || c == commands.WriteCount || c == commands.Cursors || c == commands.Log {
				// these can answer ok without going through the dbms: a constant about the session's own
				// (necessarily empty) state, or - Log with an empty message - nothing at all
				rt.Assert("unauth/refused-own-empty-state", resp[0] == 0)
			} else {
				rt.Assert("unauth/refused", resp[0] == 0)
			}
		}
		rt.Assert("unauth/no-token-created", len(tokens) == 0)
		_, otherThere := serverConns[other.id]
		rt.Assert("unauth/other-connection-untouched", otherThere && len(other.sessions) == 1 && !other.conn.(*vconn).closed)
	}
}

// C41 authentication attempts that need no secret must fail: (a) Nonce, then Auth as a user that
// does not exist with sha1(nonce + "") - no password hash is known for it; (b) Token requested by
// the unauthenticated connection itself, then Auth with whatever came back; (c) Auth with a token
// the server never issued. In this scenario no users exist and nobody authenticated ever issued a
// token, so the connection must stay unauthenticated.
//
//symgo:harness prop=C41 tier=quick shards=4 timeout=400 bounds=3_attack_sequences_of_2_requests;user_name_0..1_arbitrary_bytes
func VerifC41AuthAttempts() {
	c, _ := vsetup()
	switch rt.Pick("attack", 3) {
	case 0:
		resp := c.request([]byte{byte(commands.Nonce)})
		rt.Assert("attempt/nonce-issued", len(resp) == 2+nonceSize && resp[0] == 1)
		if len(resp) != 2+nonceSize {
			return
		}
		nonce := string(resp[2:])
		user := rt.Str("user", rt.Pick("userlen", 2))
		rt.Assume(user == "" || user[0] != 0)
		h := sha1.Sum([]byte(nonce))
		s := user + "\x00" + string(h[:])
		req := append([]byte{byte(commands.Auth), byte(2 * len(s))}, s...)
		resp = c.request(req)
		rt.Reach("auth-attempted")
		rt.Assert("attempt/unknown-user-rejected", c.unauth())
	case 1:
		resp := c.request([]byte{byte(commands.Token)})
		if len(resp) > 0 && resp[0] == 1 {
			// a token was handed to an unauthenticated client; try to use it
			rt.Assert("attempt/token-refused", false)
			tok := resp[2:]
			req := append([]byte{byte(commands.Auth), byte(2 * len(tok))}, tok...)
			c.request(req)
		}
		rt.Reach("token-attempted")
		rt.Assert("attempt/self-issued-token-rejected", c.unauth())
	case 2:
		tok := rt.Bytes("tok", tokenSize)
		req := append([]byte{byte(commands.Auth), byte(2 * len(tok))}, tok...)
		c.request(req)
		rt.Reach("forged-token-attempted")
		rt.Assert("attempt/forged-token-rejected", c.unauth())
	}
}

// vusers is the database the server thread looks users up in: exactly one user "u" whose stored
// password hash is "ph" (everything else of IDbms is unused by AuthUser)
type vusers struct {
	core.IDbms
}

func (d *vusers) Unwrap() core.IDbms { return d }

func (d *vusers) Get(th *core.Thread, query core.Value, dir core.Dir) (core.Row, *core.Header, string) {
	user := core.ToStr(query.(*core.SuObject).Get(th, core.SuStr("user")))
	if user != "u" {
		return nil, nil, ""
	}
	var rb core.RecordBuilder
	rb.Add(core.SuStr("u"))
	rb.Add(core.SuStr("ph"))
	return core.Row{core.DbRec{Record: rb.Build()}}, core.SimpleHeader([]string{"user", "passhash"}), "users"
}

// C41 with an existing user ("u", password hash "ph"): authentication succeeds with
// u NUL sha1(nonce + hash) over the nonce just issued to this connection - and only then: a
// proper prefix of that string, the right string without a nonce having been requested, and the
// right string over a nonce that was already used for a failed attempt are all refused.
//
//symgo:harness prop=C41 tier=quick shards=4 timeout=400 bounds=1_user;5_scripted_request_sequences;arbitrary_prefix_length_1..22_and_arbitrary_wrong_hash_bytes
func VerifC41ValidUser() {
	c, _ := vsetup()
	c.th.SetDbms(&vusers{})
	auth := func(s []byte) {
		c.request(append([]byte{byte(commands.Auth), byte(2 * len(s))}, s...))
	}
	nonce := func() string {
		resp := c.request([]byte{byte(commands.Nonce)})
		rt.Assume(len(resp) == 2+nonceSize && resp[0] == 1)
		return string(resp[2:])
	}
	right := func(n string) []byte {
		h := sha1.Sum([]byte(n + "ph"))
		return append([]byte("u\x00"), h[:]...)
	}
	switch rt.Pick("script", 5) {
	case 0:
		auth(right(nonce()))
		rt.Assert("user/valid-login-accepted", !c.unauth())
	case 1:
		s := right(nonce())
		n := 1 + rt.Pick("prefix", len(s)-1) // a proper prefix
		auth(s[:n])
		rt.Assert("user/prefix-of-the-proof-refused", c.unauth())
	case 2:
		n := nonce()
		wrong := append([]byte("u\x00"), rt.Bytes("wrong", 20)...)
		h := sha1.Sum([]byte(n + "ph"))
		same := true
		for i := range h {
			same = rt.And(same, wrong[2+i] == h[i])
		}
		rt.Assume(!same)
		auth(wrong)
		rt.Assert("user/wrong-proof-refused", c.unauth())
		auth(right(n)) // the nonce was consumed by the failed attempt
		rt.Assert("user/nonce-is-single-use", c.unauth())
	case 3:
		auth(right("")) // no nonce was ever requested
		rt.Assert("user/no-nonce-refused", c.unauth())
	case 4:
		n := nonce()
		n2 := nonce() // a second nonce replaces the first
		rt.Assume(n2 != n) // environment: the random source does not repeat a nonce
		auth(right(n))
		rt.Assert("user/stale-nonce-refused", c.unauth())
	}
	rt.Reach("done")
}
