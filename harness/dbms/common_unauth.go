package dbms

import (
	"net"

	"github.com/apmckinlay/gsuneido/core"
	"github.com/apmckinlay/gsuneido/dbms/commands"
	"github.com/apmckinlay/gsuneido/dbms/mux"
	"github.com/apmckinlay/gsuneido/options"
)

//symgo:needs dbms/mux

type vconn struct {
	net.Conn
	closed bool
}

func (c *vconn) Close() error { c.closed = true; return nil }

type vclient struct {
	pipe *mux.VerifPipe
	wb   *mux.WriteBuf
	sc   *serverConn
	th   *core.Thread
	pos  int // start of the next response in pipe.Out
}

// vsetup: an unauthenticated client connection (id 7) and an unrelated, authenticated
// connection (id 9) with one session "victim"
func vsetup() (*vclient, *serverConn) {
	options.Action = "server" // the server side of the protocol is under test
	for k := range serverConns {
		delete(serverConns, k)
	}
	for k := range tokens {
		delete(tokens, k)
	}
	p := &mux.VerifPipe{}
	c := &vclient{pipe: p, wb: mux.VerifNewWriteBuf(p), th: core.NewThread(nil)}
	c.sc = &serverConn{dbms: &DbmsUnauth{dbms: &DbmsLocal{}}, id: 7, conn: &vconn{},
		sessions: make(map[uint32]*serverSession), remoteAddr: "1.2.3.4"}
	serverConns[c.sc.id] = c.sc
	other := &serverConn{dbms: &DbmsLocal{}, id: 9, conn: &vconn{},
		sessions: make(map[uint32]*serverSession), remoteAddr: "5.6.7.8"}
	os := &serverSession{id: 1, sc: other}
	os.sessionId.Store("victim")
	other.sessions[1] = os
	serverConns[other.id] = other
	return c, other
}

// request sends one request and returns the payload of the response (nil if none was written)
func (c *vclient) request(req []byte) []byte {
	id := uint64(c.sc.id)<<32 | 1
	doRequest(c.wb, c.th, id, req)
	out := c.pipe.Out[c.pos:]
	c.pos = len(c.pipe.Out)
	if len(out) < mux.HeaderSize {
		return nil
	}
	return out[mux.HeaderSize:]
}

func (c *vclient) unauth() bool {
	_, still := c.sc.dbms.(*DbmsUnauth)
	return still
}

func vallowed(cmd byte) bool {
	switch commands.Command(cmd) {
	case commands.Auth, commands.LibGet, commands.Libraries, commands.Nonce, commands.SessionId, commands.EndSession:
		return true
	}
	return false
}

