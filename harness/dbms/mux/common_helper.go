package mux

// VerifPipe is an in-memory connection for harnesses (package-internal helper, overlay only).
type VerifPipe struct{ Out []byte }

func (p *VerifPipe) Read(b []byte) (int, error)  { return 0, nil }
func (p *VerifPipe) Write(b []byte) (int, error) { p.Out = append(p.Out, b...); return len(b), nil }
func (p *VerifPipe) Close() error                { return nil }

func VerifNewWriteBuf(p *VerifPipe) *WriteBuf { return newWriteBuf(&conn{rw: p}, 1) }
