package mux

import (
	"github.com/apmckinlay/gsuneido/core"
	"github.com/apmckinlay/gsuneido/util/varint"
	rt "github.com/apmckinlay/gsuneido/zzverifrt"
)

// C14: the client-server zig-zag varint returns every int64 exactly, uses at most 10 bytes and
// exactly varint.Len(zigzag) bytes; bool and byte round trip; a following value is unaffected.
//
//symgo:harness prop=C14 tier=quick shards=2 bounds=all_int64;all_bytes;all_bools
func VerifC14WireInt() {
	wb := VerifNewWriteBuf(&VerifPipe{})
	n := rt.I64("n")
	b := rt.Byte("b")
	f := rt.Bool("f")
	wb.PutInt64(n).PutByte(b).PutBool(f).PutInt64(-1)
	rt.Reach("written")
	enc := wb.buf[HeaderSize:]
	zz := uint64(n<<1) ^ uint64(n>>63)
	rt.Assert("wire/int-len", len(enc) == varint.Len(zz)+3 && len(enc) <= 13)
	rt.Observe("enc", enc)
	rb := &ReadBuf{}
	rb.SetBuf(enc)
	rt.Assert("wire/int64", rb.GetInt64() == n)
	rt.Assert("wire/byte", rb.GetByte() == b)
	rt.Assert("wire/bool", rb.GetBool() == f)
	rt.Assert("wire/next", rb.GetInt64() == -1 && rb.Remaining() == 0)
}

// C14: size-prefixed strings, string lists and records round trip.
//
//symgo:harness prop=C14 tier=quick shards=2 bounds=strings_of_0..2_bytes;lists_of_0..2
func VerifC14WireStrs() {
	wb := VerifNewWriteBuf(&VerifPipe{})
	k := rt.Pick("nstrs", 3)
	ss := make([]string, k)
	for i := range ss {
		ss[i] = rt.Str("s"+string(rune('0'+i)), rt.Pick("len"+string(rune('0'+i)), 3))
	}
	rec := rt.Str("rec", rt.Pick("reclen", 3))
	wb.PutStrs(ss).PutRec(core.Record(rec)).PutStr("z")
	rt.Reach("written")
	rb := &ReadBuf{}
	rb.SetBuf(wb.buf[HeaderSize:])
	got := rb.GetStrs()
	rt.Assert("wire/strs-count", len(got) == k)
	for i := 0; i < k && i < len(got); i++ {
		rt.Assert("wire/strs-elem", got[i] == ss[i])
	}
	rt.Assert("wire/rec", string(rb.GetRec()) == rec)
	rt.Assert("wire/str-after", rb.GetStr() == "z" && rb.Remaining() == 0)
}

// C14: size-prefixed int lists round trip.
//
//symgo:harness prop=C14 tier=quick shards=4 bounds=lists_of_0..2_ints;ints_any_int64
func VerifC14WireInts() {
	wb := VerifNewWriteBuf(&VerifPipe{})
	m := rt.Pick("nints", 3)
	ints := make([]int, m)
	for i := range ints {
		ints[i] = rt.Int("i" + string(rune('0'+i)))
	}
	wb.PutInts(ints).PutStr("z")
	rt.Reach("written")
	rb := &ReadBuf{}
	rb.SetBuf(wb.buf[HeaderSize:])
	gm := rb.GetInt()
	rt.Assert("wire/ints-count", gm == m)
	for i := 0; i < m; i++ {
		rt.Assert("wire/ints-elem", rb.GetInt() == ints[i])
	}
	rt.Assert("wire/str-after-ints", rb.GetStr() == "z" && rb.Remaining() == 0)
}
