package mux

import (
	"io"
	"strings"

	rt "github.com/apmckinlay/gsuneido/zzverifrt"
)

// vwire is a connection whose Write appends to the wire and whose Read hands the wire back in
// fragments of chosen sizes (short reads), then reports EOF
type vwire struct {
	data  []byte
	pos   int
	frags []int
	fi    int
}

func (w *vwire) Write(b []byte) (int, error) { w.data = append(w.data, b...); return len(b), nil }
func (w *vwire) Close() error                { return nil }
func (w *vwire) Read(b []byte) (int, error) {
	if w.pos >= len(w.data) {
		return 0, io.EOF
	}
	n := len(b)
	if w.fi < len(w.frags) {
		n = min(n, w.frags[w.fi])
		w.fi++
	}
	n = min(n, len(w.data)-w.pos)
	copy(b, w.data[w.pos:w.pos+n])
	w.pos += n
	return n, nil
}

// vmsg builds a message body of the given size whose first and last bytes are the given marks
func vmsg(size int, first, last byte) string {
	if size == 0 {
		return ""
	}
	b := []byte(strings.Repeat("m", size))
	b[0] = first
	b[size-1] = last
	return string(b)
}

// C40 transport: two sessions share one connection; each sends one message written in two parts
// whose sizes are chosen around the write buffer size (so a message is sent in one, two or three
// frames, and large parts bypass the buffer), with arbitrary marker bytes; the two sessions' frames
// are interleaved on the wire in a chosen order and the reader receives the wire in short reads of
// chosen sizes. The reader must deliver to each session exactly its own message - complete, once,
// with the right bytes - and then report the end of the connection.
//
//symgo:disabled-harness prop=C40 tier=quick shards=8 timeout=500 ttimeout=1700 shrink=dbms/mux/readwrite.go:bufSize=64 bounds=write_buffer_shrunk_to_64_bytes;2_sessions_x_1_message_of_2_parts;first_part_size_in_{1,55,65},_second_part_1_byte_(thorough:_both_parts_in_{0,1,54,55,64,65,136});4_interleavings;short_reads_of_{5,all}(thorough_{1,5,9,64,all});arbitrary_marker_bytes outside=the_dbms_request/response_layer_above_the_transport;more_sessions;socket_errors
func VerifC40Frames() {
	// around the (shrunk) buffer: fits with the header, exactly fills, one more, a full buffer, larger
	sizes := []int{1, bufSize - HeaderSize, bufSize + 1}
	if rt.Thorough() {
		sizes = []int{0, 1, bufSize - HeaderSize - 1, bufSize - HeaderSize, bufSize, bufSize + 1, 2*bufSize + 8}
	}
	w := &vwire{}
	c := &conn{rw: w}
	wb := [2]*WriteBuf{newWriteBuf(c, 1), newWriteBuf(c, 2)}
	var part [2][2]string
	for s := 0; s < 2; s++ {
		for p := 0; p < 2; p++ {
			nm := string(rune('0'+s)) + string(rune('0'+p))
			sz := 1
			if p == 0 || rt.Thorough() {
				sz = sizes[rt.Pick("size"+nm, len(sizes))]
			}
			part[s][p] = vmsg(sz, rt.Byte("first"+nm), rt.Byte("last"+nm))
		}
	}
	w0 := func(s, p int) { wb[s].WriteString(part[s][p]) }
	end := func(s int) { wb[s].EndMsg() }
	switch rt.Pick("interleaving", 4) {
	case 0:
		w0(0, 0)
		w0(0, 1)
		end(0)
		w0(1, 0)
		w0(1, 1)
		end(1)
	case 1:
		w0(0, 0)
		w0(1, 0)
		w0(0, 1)
		w0(1, 1)
		end(0)
		end(1)
	case 2:
		w0(0, 0)
		w0(1, 0)
		w0(1, 1)
		end(1)
		w0(0, 1)
		end(0)
	case 3:
		w0(1, 0)
		w0(0, 0)
		w0(0, 1)
		w0(1, 1)
		end(1)
		end(0)
	}
	rt.Reach("written")
	frags := []int{5, 1 << 30}
	if rt.Thorough() {
		frags = []int{1, 5, 9, 64, 1 << 30}
	}
	frag := frags[rt.Pick("fragment", len(frags))]
	for i := 0; i < 64; i++ {
		w.frags = append(w.frags, frag)
	}
	var got [3][]string
	ended := 0
	c.reader(func(id uint32, data []byte) {
		if data == nil {
			ended++
			return
		}
		if id <= 2 {
			got[id] = append(got[id], string(data))
		} else {
			rt.Assert("frames/unknown-session", false)
		}
	})
	rt.Reach("read")
	rt.Assert("frames/end-reported-once", ended == 1)
	for s := 0; s < 2; s++ {
		want := part[s][0] + part[s][1]
		rt.Assert("frames/exactly-one-message-per-session", len(got[s+1]) == 1)
		if len(got[s+1]) == 1 {
			rt.Assert("frames/message-length", len(got[s+1][0]) == len(want))
			rt.Assert("frames/message-bytes", got[s+1][0] == want)
		}
	}
}
