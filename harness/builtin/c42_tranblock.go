package builtin

import (
	. "github.com/apmckinlay/gsuneido/core"
	rt "github.com/apmckinlay/gsuneido/zzverifrt"
)

// a recording transaction and dbms (only what Transaction / SuTran use is implemented)
type vtran struct {
	ITran
	completes, aborts int
	failComplete      bool
}

func (t *vtran) Complete() string {
	t.completes++
	if t.failComplete {
		return "conflict"
	}
	return ""
}
func (t *vtran) Abort() string  { t.aborts++; return "" }
func (t *vtran) String() string { return "vtran" }

type vdbms struct {
	IDbms
	tran *vtran
}

func (d *vdbms) Transaction(update bool) ITran { return d.tran }
func (d *vdbms) Unwrap() IDbms                 { return d }

// C42: Transaction(update:, block) with a block that (0) returns normally, (1) returns from the
// enclosing function (block return), (2) throws, (3) completes the transaction itself and
// returns, (4) rolls it back itself and then throws, (5) returns normally but the commit fails.
// The transaction is completed exactly once iff the block finished (cases 0, 1), rolled back
// exactly once iff it threw (case 2), left alone if the block already ended it, and the
// exception (the block's, or the failed commit's) always propagates.
//
//symgo:harness prop=C42 tier=quick timeout=400 bounds=6_block_behaviours;read_and_update_transactions;arbitrary_1-byte_return/exception_value
func VerifC42Block() {
	tran := &vtran{}
	th := NewThread(nil)
	th.SetDbms(&vdbms{tran: tran})
	behaviour := rt.Pick("behaviour", 6)
	tag := rt.Str("tag", 1)
	tran.failComplete = behaviour == 5
	block := &SuBuiltin1{Fn: func(st Value) Value {
		switch behaviour {
		case 1:
			panic(BlockReturn)
		case 2:
			panic("boom " + tag)
		case 3:
			st.(*SuTran).Complete()
		case 4:
			st.(*SuTran).Rollback()
			panic("boom " + tag)
		}
		return SuStr(tag)
	}, BuiltinParams: BuiltinParams{ParamSpec: ParamSpec1}}
	var args []Value
	if rt.Pick("update", 2) == 1 {
		args = []Value{nil, True, block}
	} else {
		args = []Value{True, nil, block}
	}
	var result Value
	var thrown any
	func() {
		defer func() { thrown = recover() }()
		result = Transaction(th, args)
	}()
	rt.Reach("ran")
	switch behaviour {
	case 0:
		rt.Assert("block/normal-completes-once", tran.completes == 1 && tran.aborts == 0 && thrown == nil)
		rt.Assert("block/result-returned", result != nil && result.Equal(SuStr(tag)))
	case 1:
		rt.Assert("block/return-completes-once", tran.completes == 1 && tran.aborts == 0)
		rt.Assert("block/return-propagates", thrown == BlockReturn)
	case 2:
		rt.Assert("block/throw-rolls-back-once", tran.completes == 0 && tran.aborts == 1)
		s, ok := thrown.(string)
		rt.Assert("block/exception-propagates", ok && s == "boom "+tag)
	case 3:
		rt.Assert("block/self-completed-not-touched", tran.completes == 1 && tran.aborts == 0 && thrown == nil)
	case 4:
		rt.Assert("block/self-rolled-back-not-touched", tran.completes == 0 && tran.aborts == 1)
		s, ok := thrown.(string)
		rt.Assert("block/exception-propagates", ok && s == "boom "+tag)
	case 5:
		rt.Assert("block/failed-commit-reported", tran.completes == 1 && thrown != nil)
	}
}
