package core

import (
	"math"

	rt "github.com/apmckinlay/gsuneido/zzverifrt"
)

// anyIntVal returns an integer Value with a symbolic payload n in its canonical integer
// representation (small int when it fits, else SuInt64), exactly as IntVal builds it.
func verifIntVal(n int) Value { return IntVal(n) }

// C26: + and - on two integer-represented values: exact when the exact result fits in int64,
// otherwise the result must be the decimal result, not a wrapped integer.
//
//symgo:harness prop=C26 tier=quick arith=int bounds=all_int64_pairs;op_in_{+,-} outside=none
func VerifC26AddSub() {
	a := rt.IntRange("a", math.MinInt64, math.MaxInt64)
	b := rt.IntRange("b", math.MinInt64, math.MaxInt64)
	sub := rt.Pick("op", 2) == 1
	x, y := verifIntVal(a), verifIntVal(b)
	var r Value
	var fits bool
	var exact int
	if sub {
		r = OpSub(x, y)
		fits = rt.SubFits(int64(a), int64(b))
		exact = a - b
	} else {
		r = OpAdd(x, y)
		fits = rt.AddFits(int64(a), int64(b))
		exact = a + b
	}
	rt.Reach("computed")
	ri, isInt := SuIntToInt(r)
	rt.Observe("isInt", isInt)
	if isInt {
		rt.Observe("ri", ri)
	}
	if fits {
		rt.Assert("addsub/exact-when-fits", isInt && ri == exact)
	} else {
		rt.Assert("addsub/no-wrap", !isInt)
	}
}

// C26: unary minus and +1/-1.
//
//symgo:harness prop=C26 tier=quick arith=int bounds=all_int64
func VerifC26Unary() {
	a := rt.IntRange("a", math.MinInt64, math.MaxInt64)
	x := verifIntVal(a)
	switch rt.Pick("op", 2) {
	case 0:
		r := OpUnaryMinus(x)
		ri, isInt := SuIntToInt(r)
		rt.Observe("isInt", isInt)
		if a != math.MinInt64 {
			rt.Assert("neg/exact-when-fits", isInt && ri == -a)
		} else {
			rt.Assert("neg/no-wrap", !isInt)
		}
	case 1:
		r := OpAdd1(x)
		ri, isInt := SuIntToInt(r)
		if a != math.MaxInt64 {
			rt.Assert("add1/exact-when-fits", isInt && ri == a+1)
		} else {
			rt.Assert("add1/no-wrap", !isInt)
		}
	}
	rt.Reach("computed")
}
