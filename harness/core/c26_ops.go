package core

import (
	"math"

	rt "github.com/apmckinlay/gsuneido/zzverifrt"
)

// anyIntVal returns an integer Value with a symbolic payload n in its canonical integer
// representation (small int when it fits, else SuInt64), exactly as IntVal builds it.
func verifIntVal(n int) Value { return IntVal(n) }

// C26: + and - on two integer-represented values: exact when the exact result fits in int64,
// otherwise the result must be the decimal result, not a wrapped integer.
//
//symgo:harness prop=C26 tier=quick arith=int qtimeout=5000 timeout=120 havoc=util/dnum.Add havoc=util/dnum.Sub havoc=util/dnum.Mul havoc=util/dnum.Div havoc=util/dnum.FromInt havoc=(util/dnum.Dnum).Neg bounds=all_int64_pairs;op_in_{+,-} outside=none
func VerifC26AddSub() {
	a := rt.IntRange("a", math.MinInt64, math.MaxInt64)
	b := rt.IntRange("b", math.MinInt64, math.MaxInt64)
	sub := rt.Pick("op", 2) == 1
	x, y := verifIntVal(a), verifIntVal(b)
	var r Value
	var fits bool
	var exact int
	if sub {
		r = OpSub(x, y)
		fits = rt.SubFits(int64(a), int64(b))
		exact = a - b
	} else {
		r = OpAdd(x, y)
		fits = rt.AddFits(int64(a), int64(b))
		exact = a + b
	}
	rt.Reach("computed")
	ri, isInt := SuIntToInt(r)
	rt.Observe("isInt", isInt)
	if isInt {
		rt.Observe("ri", ri)
	}
	if fits {
		rt.Assert("addsub/exact-when-fits", isInt && ri == exact)
	} else {
		rt.Assert("addsub/no-wrap", !isInt)
	}
}

// C26: unary minus and +1/-1.
//
//symgo:harness prop=C26 tier=quick arith=int qtimeout=5000 timeout=120 havoc=util/dnum.Add havoc=util/dnum.Sub havoc=util/dnum.Mul havoc=util/dnum.Div havoc=util/dnum.FromInt havoc=(util/dnum.Dnum).Neg bounds=all_int64
func VerifC26Unary() {
	a := rt.IntRange("a", math.MinInt64, math.MaxInt64)
	x := verifIntVal(a)
	switch rt.Pick("op", 2) {
	case 0:
		r := OpUnaryMinus(x)
		ri, isInt := SuIntToInt(r)
		rt.Observe("isInt", isInt)
		if a != math.MinInt64 {
			rt.Assert("neg/exact-when-fits", isInt && ri == -a)
		} else {
			rt.Assert("neg/no-wrap", !isInt)
		}
	case 1:
		r := OpAdd1(x)
		ri, isInt := SuIntToInt(r)
		if a != math.MaxInt64 {
			rt.Assert("add1/exact-when-fits", isInt && ri == a+1)
		} else {
			rt.Assert("add1/no-wrap", !isInt)
		}
	}
	rt.Reach("computed")
}

// C26: * on two integer-represented values. The solver cannot decide full-width symbolic
// multiplication, so one operand ranges over all int64 and the other over a stated set of
// magnitudes (every power of two and its neighbours, small numbers, int64 extremes).
//
//symgo:harness prop=C26 tier=quick arith=int qtimeout=20000 timeout=200 ttimeout=1500 havoc=util/dnum.Add havoc=util/dnum.Sub havoc=util/dnum.Mul havoc=util/dnum.Div havoc=util/dnum.FromInt havoc=(util/dnum.Dnum).Neg shards=8 tshards=16 bounds=a_any_int64;b_in_{0,±1,±2,±3,±7,±10,±2^k,±(2^k±1),min,max} outside=arbitrary_pairs
func VerifC26Mul() {
	a := rt.IntRange("a", math.MinInt64, math.MaxInt64)
	k := rt.Pick("k", 64)
	if !rt.Thorough() {
		// quick tier: a spread of shift amounts (thorough: all 64)
		ks := []int{0, 1, 31, 32, 62, 63}
		if k >= len(ks) {
			rt.Assume(false)
		}
		k = ks[k]
	}
	var b int
	switch v := rt.Pick("variant", 8); v {
	case 0:
		b = 1 << k
	case 1:
		b = -(1 << k)
	case 2:
		b = 1<<k - 1
	case 3:
		b = 1<<k + 1
	case 4:
		b = -(1<<k - 1)
	case 5:
		b = -(1<<k + 1)
	case 6:
		b = []int{0, 3, 7, 10, 1000, 1000000007}[k%6]
	case 7:
		b = []int{math.MinInt64, math.MaxInt64, -3, -10, -7, 12345}[k%6]
	}
	swap := rt.Bool("swap")
	x, y := verifIntVal(a), verifIntVal(b)
	var r Value
	if swap {
		r = OpMul(y, x)
	} else {
		r = OpMul(x, y)
	}
	rt.Reach("computed")
	ri, isInt := SuIntToInt(r)
	if rt.MulFits(int64(a), int64(b)) {
		rt.Assert("mul/exact-when-fits", isInt && ri == a*b)
	} else {
		rt.Assert("mul/no-wrap", !isInt)
	}
}

// C26: / on two integer-represented values: an exact integer quotient is returned as that
// integer when it fits; MinInt64 / -1 must not wrap.
//
//symgo:harness prop=C26 tier=quick arith=int qtimeout=5000 timeout=120 havoc=util/dnum.Add havoc=util/dnum.Sub havoc=util/dnum.Mul havoc=util/dnum.Div havoc=util/dnum.FromInt havoc=(util/dnum.Dnum).Neg bounds=a_any_int64;b_in_{±1,±2,±3,±10,±2^31,min,max}
func VerifC26Div() {
	a := rt.IntRange("a", math.MinInt64, math.MaxInt64)
	b := []int{1, -1, 2, -2, 3, -3, 10, -10, 1 << 31, -(1 << 31), math.MinInt64, math.MaxInt64}[rt.Pick("b", 12)]
	r := OpDiv(verifIntVal(a), verifIntVal(b))
	rt.Reach("computed")
	ri, isInt := SuIntToInt(r)
	if a == math.MinInt64 && b == -1 {
		rt.Assert("div/no-wrap", !isInt)
	} else if a%b == 0 {
		rt.Assert("div/exact-when-divisible", isInt && ri == a/b)
	}
}
