package core

import (
	"github.com/apmckinlay/gsuneido/util/dnum"
	rt "github.com/apmckinlay/gsuneido/zzverifrt"
)

// ---------------------------------------------------------------------------------------------
// C36: container operations match list and map semantics.
//
// The model (vobM) is an ordered Go slice plus an association list of named integer keys, with
// the documented rule: a named integer key equal to the list size joins the list (and pulls the
// following keys in). Values are small integers.

type vobM struct {
	list []int
	nk   []int // named keys (all integers here)
	nv   []int
}

func (m *vobM) clone() *vobM {
	return &vobM{list: append([]int{}, m.list...), nk: append([]int{}, m.nk...), nv: append([]int{}, m.nv...)}
}

func (m *vobM) idx(k int) int {
	for i := range m.nk {
		if m.nk[i] == k {
			return i
		}
	}
	return -1
}

func (m *vobM) delNamed(i int) {
	m.nk = append(append([]int{}, m.nk[:i]...), m.nk[i+1:]...)
	m.nv = append(append([]int{}, m.nv[:i]...), m.nv[i+1:]...)
}

func (m *vobM) putNamed(k, v int) {
	if i := m.idx(k); i >= 0 {
		m.nv[i] = v
	} else {
		m.nk = append(m.nk, k)
		m.nv = append(m.nv, v)
	}
}

// migrate: while a named key equals the list size it moves to the end of the list
func (m *vobM) migrate() {
	for {
		i := m.idx(len(m.list))
		if i < 0 {
			return
		}
		m.list = append(m.list, m.nv[i])
		m.delNamed(i)
	}
}

func (m *vobM) inList(k int) bool { return 0 <= k && k < len(m.list) }

func (m *vobM) get(k int) (int, bool) {
	if m.inList(k) {
		return m.list[k], true
	}
	if i := m.idx(k); i >= 0 {
		return m.nv[i], true
	}
	return 0, false
}

func (m *vobM) add(v int) {
	m.list = append(m.list, v)
	m.migrate()
}

func (m *vobM) set(k, v int) {
	if k == len(m.list) {
		m.add(v)
	} else if m.inList(k) {
		m.list[k] = v
	} else {
		m.putNamed(k, v)
	}
}

func (m *vobM) insert(at, v int) {
	if 0 <= at && at <= len(m.list) {
		l := append([]int{}, m.list[:at]...)
		l = append(l, v)
		m.list = append(l, m.list[at:]...)
	} else {
		m.putNamed(at, v)
	}
	m.migrate()
}

func (m *vobM) listDel(k int) {
	m.list = append(append([]int{}, m.list[:k]...), m.list[k+1:]...)
}

// delete: list members after a deleted list member shift down
func (m *vobM) delete(k int) bool {
	if m.inList(k) {
		m.listDel(k)
		return true
	}
	if i := m.idx(k); i >= 0 {
		m.delNamed(i)
		return true
	}
	return false
}

// erase: list members after an erased list member keep their keys (they become named)
func (m *vobM) erase(k int) bool {
	if m.inList(k) {
		for j := k + 1; j < len(m.list); j++ {
			m.putNamed(j, m.list[j])
		}
		m.list = append([]int{}, m.list[:k]...)
		return true
	}
	if i := m.idx(k); i >= 0 {
		m.delNamed(i)
		return true
	}
	return false
}

// vobInt decodes a stored value (-999 = not an integer value)
func vobInt(v Value) int {
	if v == nil {
		return -998
	}
	if n, ok := SuIntToInt(v); ok {
		return n
	}
	return -999
}

// vobKey: an operation key, enumerated (concrete per path, so that hashing is concrete) over
// -1, 0 .. L+4 and two keys whose 7-bit hash tags collide with L+1 and L+2.
func vobKey(name string, L int) int {
	c := []int{-1}
	for i := 0; i <= L+4; i++ {
		c = append(c, i)
	}
	c = append(c, L+1+128, L+2+128)
	return c[rt.Pick(name, len(c))]
}

func vobVal(name string) int {
	v := rt.IntRange(name, 0, 5)
	rt.Assume(0 <= v && v <= 5)
	return v
}

// vobBuild builds an arbitrary object state with L list members and M named integer members
// through the real Add and Set, and the corresponding model. A valid state has no named
// integer key in [0, L] (such a key would be in the list).
func vobBuild[C interface {
	Add(Value)
	Put(*Thread, Value, Value)
}](ob C, maxL, maxM int) (C, *vobM) {
	L := rt.Pick("L", maxL+1)
	M := rt.Pick("M", maxM+1)
	m := &vobM{}
	for i := 0; i < L; i++ {
		v := vobVal("lv")
		ob.Add(IntVal(v))
		m.list = append(m.list, v)
	}
	for j := 0; j < M; j++ {
		cands := []int{-1, L + 1, L + 3, L + 1 + 128}
		if rt.Thorough() {
			cands = []int{-1, L + 1, L + 2, L + 4, L + 1 + 128}
		}
		k := cands[rt.Pick("nk", len(cands))]
		for _, k0 := range m.nk {
			rt.Assume(k != k0)
		}
		v := vobVal("nv")
		ob.Put(nil, IntVal(k), IntVal(v))
		m.nk = append(m.nk, k)
		m.nv = append(m.nv, v)
	}
	return ob, m
}

// vobCheck compares the real object with the model: the sizes, every list slot and every named
// member (with equal sizes this is equality of the two maps).
func vobCheck(label string, ob *SuObject, m *vobM) {
	ls := ob.ListSize()
	rt.Observe(label+".listsize", ls)
	rt.Observe(label+".namedsize", ob.NamedSize())
	rt.Assert(label+"/size", ob.Size() == len(m.list)+len(m.nk))
	rt.Assert(label+"/listsize", ls == len(m.list))
	rt.Assert(label+"/namedsize", ob.NamedSize() == len(m.nk))
	for i := 0; i < len(m.list) && i < ls; i++ {
		rt.Assert(label+"/list", vobInt(ob.ListGet(i)) == m.list[i])
	}
	for j := range m.nk {
		rt.Assert(label+"/named", vobInt(ob.GetIfPresent(nil, IntVal(m.nk[j]))) == m.nv[j])
	}
}

const (
	vopAdd = iota
	vopInsert
	vopSet
	vopPut
	vopDelete
	vopErase
	vopPopFirst
	vopPopLast
	vopFind
	vopUnique
	vopSort
	vopReverse
	vopDeleteAll
	vopSlice
	vopCopy
	vopDefault
	vopGet
	vopN
)

// vobStep applies one operation (kind op, symbolic arguments) to the object and the model and
// checks the operation's result.
func vobStep(tag string, op int, ob *SuObject, m *vobM) {
	switch op {
	case vopAdd:
		v := vobVal(tag + "v")
		ob.Add(IntVal(v))
		m.add(v)
	case vopInsert:
		at, v := vobKey(tag+"k", len(m.list)), vobVal(tag+"v")
		ob.Insert(at, IntVal(v))
		m.insert(at, v)
	case vopSet:
		k, v := vobKey(tag+"k", len(m.list)), vobVal(tag+"v")
		ob.Set(IntVal(k), IntVal(v))
		m.set(k, v)
	case vopPut:
		// the key is given as an equal decimal number
		k, v := vobKey(tag+"k", len(m.list)), vobVal(tag+"v")
		ob.Put(nil, SuDnum{Dnum: dnum.FromInt(int64(k))}, IntVal(v))
		m.set(k, v)
	case vopDelete:
		k := vobKey(tag+"k", len(m.list))
		r := ob.Delete(nil, IntVal(k))
		rt.Observe(tag+"deleted", r)
		rt.Assert("delete/result", r == m.delete(k))
	case vopErase:
		k := vobKey(tag+"k", len(m.list))
		r := ob.Erase(nil, IntVal(k))
		rt.Observe(tag+"erased", r)
		rt.Assert("erase/result", r == m.erase(k))
	case vopPopFirst:
		r := ob.PopFirst()
		if len(m.list) == 0 {
			rt.Assert("popfirst/empty", r == nil)
		} else {
			rt.Assert("popfirst/result", vobInt(r) == m.list[0])
			m.listDel(0)
		}
	case vopPopLast:
		r := ob.PopLast()
		if len(m.list) == 0 {
			rt.Assert("poplast/empty", r == nil)
		} else {
			rt.Assert("poplast/result", vobInt(r) == m.list[len(m.list)-1])
			m.listDel(len(m.list) - 1)
		}
	case vopFind:
		v := vobVal(tag + "v")
		r := ob.Find(IntVal(v))
		first := -1
		for i := len(m.list) - 1; i >= 0; i-- {
			if m.list[i] == v {
				first = i
			}
		}
		if first >= 0 {
			rt.Assert("find/first-list-position", vobInt(r) == first)
		} else if r == False {
			for j := range m.nv {
				rt.Assert("find/missed-named", m.nv[j] != v)
			}
		} else {
			j := m.idx(vobInt(r))
			rt.Assert("find/named-key", j >= 0 && m.nv[j] == v)
		}
	case vopUnique:
		ob.Unique()
		var l []int
		for i, x := range m.list {
			if i == 0 || x != m.list[i-1] {
				l = append(l, x)
			}
		}
		m.list = l
	case vopSort:
		ob.Sort(nil, False)
		l := append([]int{}, m.list...)
		for i := 1; i < len(l); i++ { // insertion sort
			for j := i; j > 0 && l[j] < l[j-1]; j-- {
				l[j], l[j-1] = l[j-1], l[j]
			}
		}
		m.list = l
	case vopReverse:
		ob.Reverse()
		var l []int
		for i := len(m.list) - 1; i >= 0; i-- {
			l = append(l, m.list[i])
		}
		m.list = l
	case vopDeleteAll:
		ob.DeleteAll()
		m.list, m.nk, m.nv = nil, nil, nil
	case vopSlice, vopCopy:
		n := 0
		var c *SuObject
		if op == vopSlice {
			n = rt.Pick(tag+"n", len(m.list)+2)
			c = ob.Slice(n).(*SuObject)
		} else {
			c = ob.Copy().(*SuObject)
		}
		mc := m.clone()
		if n < len(mc.list) {
			mc.list = mc.list[n:]
		} else {
			mc.list = nil
		}
		vobCheck("copy", c, mc)
		// the two objects are independent: change one, then the other
		k, v := vobKey(tag+"k", len(m.list)), vobVal(tag+"v")
		if rt.Bool(tag + "copyfirst") {
			c.Set(IntVal(k), IntVal(v))
			mc.set(k, v)
			vobCheck("copy/changed-copy", c, mc)
			vobCheck("copy/original-kept", ob, m)
			ob.Add(IntVal(v))
			m.add(v)
		} else {
			ob.Set(IntVal(k), IntVal(v))
			m.set(k, v)
			vobCheck("copy/changed-original", ob, m)
			vobCheck("copy/copy-kept", c, mc)
			c.Add(IntVal(v))
			mc.add(v)
		}
		vobCheck("copy/second-change", c, mc)
	case vopDefault:
		v := vobVal(tag + "v")
		ob.SetDefault(IntVal(v))
		k := vobKey(tag+"k", len(m.list))
		g := ob.Get(nil, IntVal(k))
		mv, ok := m.get(k)
		if !ok {
			mv = v
		}
		rt.Assert("default/get", vobInt(g) == mv)
	case vopGet:
		// an arbitrary key: a list index, a named key or an absent key
		p := vobKey(tag+"k", len(m.list))
		g := ob.GetIfPresent(nil, IntVal(p))
		mv, ok := m.get(p)
		rt.Observe(tag+"present", g != nil)
		if ok {
			rt.Assert("get/member", g != nil && vobInt(g) == mv)
		} else {
			rt.Assert("get/absent", g == nil && ob.Get(nil, IntVal(p)) == nil)
		}
		rt.Assert("get/haskey", ob.HasKey(IntVal(p)) == ok)
	}
}

// C36 one step: from an arbitrary object state (0..3 list members, 0..2 named integer members)
// one operation with arbitrary arguments gives the state and result of the list+map model.
//
//symgo:harness prop=C36 tier=quick shards=16 tshards=16 timeout=300 ttimeout=1700 bounds=state:0..3_list_members+0..2_named_int_members_with_keys_in_{-1,L+1,L+3,L+129}_(thorough:0..4+0..3,keys_in_{-1,L+1,L+2,L+4,L+129});operation_keys_enumerated_in_{-1..L+4,L+129,L+130};values_symbolic_in_0..5;one_operation_of_17_kinds outside=string_keys;larger_objects;concurrent_objects
func VerifC36Step() {
	maxL, maxM := 3, 2
	if rt.Thorough() {
		maxL, maxM = 4, 3
	}
	ob, m := vobBuild(ob0(), maxL, maxM)
	op := rt.Pick("op", vopN)
	vobStep("a.", op, ob, m)
	rt.Reach("stepped")
	vobCheck("after", ob, m)
}

func ob0() *SuObject { return &SuObject{} }

// C36 two steps (thorough): two key-taking mutators in sequence from a small state.
//
//symgo:harness prop=C36 tier=thorough tshards=16 ttimeout=1700 bounds=state:0..2_list_members+0..1_named_member;two_operations_from_{Add,Insert,Set,Delete,Erase,PopFirst}_with_enumerated_keys;values_symbolic_in_0..5
func VerifC36TwoSteps() {
	ob, m := vobBuild(ob0(), 2, 1)
	ops := []int{vopAdd, vopInsert, vopSet, vopDelete, vopErase, vopPopFirst}
	vobStep("a.", ops[rt.Pick("op1", len(ops))], ob, m)
	vobStep("b.", ops[rt.Pick("op2", len(ops))], ob, m)
	rt.Reach("stepped")
	vobCheck("after", ob, m)
}

// C36 arbitrary keys: Set / Delete / Get with a key that is any 64-bit integer (symbolic, so the
// hash and the slot search are decided by the solver) on a small state.
//
//symgo:harness prop=C36 tier=quick shards=8 timeout=300 bounds=state:0..1_list_members+0..1_named_member_(thorough_0..2+0..2);key_any_int64_(symbolic);one_of_Set,Delete,Erase,Insert_then_Get
func VerifC36AnyKey() {
	maxL, maxM := 1, 1
	if rt.Thorough() {
		maxL, maxM = 2, 2
	}
	ob, m := vobBuild(ob0(), maxL, maxM)
	k := rt.Int("k")
	v := vobVal("v")
	switch rt.Pick("op", 4) {
	case 0:
		ob.Set(IntVal(k), IntVal(v))
		m.set(k, v)
		rt.Assert("anykey/get-after-set", vobInt(ob.Get(nil, IntVal(k))) == v)
	case 1:
		r := ob.Delete(nil, IntVal(k))
		rt.Observe("deleted", r)
		rt.Assert("anykey/delete-result", r == m.delete(k))
		if !m.inList(k) {
			rt.Assert("anykey/gone-after-delete", ob.GetIfPresent(nil, IntVal(k)) == nil)
		}
	case 2:
		r := ob.Erase(nil, IntVal(k))
		rt.Observe("erased", r)
		rt.Assert("anykey/erase-result", r == m.erase(k))
		rt.Assert("anykey/gone-after-erase", ob.GetIfPresent(nil, IntVal(k)) == nil)
	case 3:
		ob.Insert(k, IntVal(v))
		m.insert(k, v)
	}
	rt.Reach("done")
	vobCheck("anykey", ob, m)
}

// vobLess: the value order used by the sort model: numbers by value, then strings by byte
func vobLess(r1, v1, r2, v2 int) bool { return r1 < r2 || (r1 == r2 && v1 < v2) }

// C36 sort: Sort orders the list by value comparison and is stable: members that compare equal
// but are distinguishable (the same number held as small int, as 64-bit int and as decimal)
// keep their relative order; numbers sort before strings.
//
//symgo:harness prop=C36 tier=quick arith=int shards=8 timeout=300 ttimeout=1700 bounds=lists_of_2..3_members_(thorough_4);each_a_number_0..2_held_as_small_int|int64|decimal_or_a_1-byte_string outside=user_supplied_comparison_functions
func VerifC36SortStable() {
	n := 2 + rt.Pick("n", 2)
	if rt.Thorough() {
		n = 2 + rt.Pick("n4", 3)
	}
	in := make([]Value, n)
	rank := make([]int, n)
	val := make([]int, n)
	for i := range in {
		kind := rt.Pick("kind", 4)
		if kind < 3 {
			v := rt.IntRange("v", 0, 2)
			rt.Assume(0 <= v && v <= 2)
			val[i] = v
			switch kind {
			case 0:
				in[i] = SuInt(v)
			case 1:
				in[i] = SuInt64{int64: int64(v)}
			case 2:
				in[i] = SuDnum{Dnum: dnum.FromInt(int64(v))}
			}
		} else {
			s := rt.Str("s", 1)
			rank[i], val[i] = 1, int(s[0])
			in[i] = SuStr(s)
		}
	}
	ob := NewSuObject(append([]Value{}, in...))
	ob.Set(SuInt(-1), SuInt(7)) // a named member, to stay
	ob.Sort(nil, False)
	rt.Reach("sorted")
	// model: stable insertion sort of the indexes
	idx := make([]int, n)
	for i := range idx {
		idx[i] = i
	}
	for i := 1; i < n; i++ {
		for j := i; j > 0 && vobLess(rank[idx[j]], val[idx[j]], rank[idx[j-1]], val[idx[j-1]]); j-- {
			idx[j], idx[j-1] = idx[j-1], idx[j]
		}
	}
	rt.Assert("sort/size", ob.ListSize() == n && ob.NamedSize() == 1)
	for i := 0; i < n && i < ob.ListSize(); i++ {
		rt.Observe("pos", idx[i])
		rt.Assert("sort/stable-order", ob.ListGet(i) == in[idx[i]])
	}
	for i := 1; i < ob.ListSize(); i++ {
		rt.Assert("sort/ordered-by-compare", ob.ListGet(i-1).Compare(ob.ListGet(i)) <= 0)
	}
}

// C36 read-only: every mutator of a read-only object or record panics and changes nothing;
// members of a read-only object are read-only too; a copy is modifiable and independent.
//
//symgo:harness prop=C36 tier=quick shards=8 timeout=300 bounds=object_or_record;state:0..2_list_members+0..1_named_member;every_mutator_with_enumerated_keys;nested_member_objects_one_level outside=concurrent_objects;database_records
func VerifC36ReadOnly() {
	isRec := rt.Pick("record", 2) == 1
	var c Container
	var ob *SuObject
	if isRec {
		r := NewSuRecord()
		c, ob = r, &r.ob
	} else {
		ob = &SuObject{}
		c = ob
	}
	_, m := vobBuild(c, 2, 1)
	var child *SuObject
	op := rt.Pick("op", 17)
	if op >= 15 {
		// a member object (in the list or named)
		child = SuObjectOf(SuInt(1))
		if op == 15 {
			c.Add(child)
		} else {
			ob.Set(SuStr("child"), child)
		}
	}
	c.SetReadOnly()
	rt.Assert("readonly/flag", c.IsReadOnly())
	k := 0
	if op >= 1 && op <= 5 || op == 14 {
		k = vobKey("k", len(m.list))
	}
	v := vobVal("v")
	mayReturn := false // popping an empty list has nothing to change
	panicked := rt.Try(func() {
		switch op {
		case 0:
			c.Add(IntVal(v))
		case 1:
			c.Insert(k, IntVal(v))
		case 2:
			if isRec {
				c.(*SuRecord).Set(IntVal(k), IntVal(v))
			} else {
				ob.Set(IntVal(k), IntVal(v))
			}
		case 3:
			c.Put(nil, IntVal(k), IntVal(v))
		case 4:
			c.Delete(nil, IntVal(k))
		case 5:
			c.Erase(nil, IntVal(k))
		case 6:
			c.DeleteAll()
		case 7:
			mayReturn = len(m.list) == 0
			ob.PopFirst()
		case 8:
			mayReturn = len(m.list) == 0
			ob.PopLast()
		case 9:
			ob.Sort(nil, False)
		case 10:
			ob.Unique()
		case 11:
			ob.Reverse()
		case 12:
			ob.SetDefault(IntVal(v))
		case 13:
			if isRec {
				c.(*SuRecord).Clear()
			} else {
				ob.deleteAll()
			}
		case 14:
			// (an absent member of an object is reported as not found, which is a panic too)
			c.GetPut(nil, IntVal(k), IntVal(v), func(x, y Value) Value { return y }, false)
		case 15, 16:
			child.Add(IntVal(v))
		}
	})
	rt.Reach("tried")
	rt.Observe("panicked", panicked)
	if !mayReturn {
		rt.Assert("readonly/mutator-rejected", panicked)
	}
	if op >= 15 {
		rt.Assert("readonly/member-unchanged", child.Size() == 1)
		return
	}
	vobCheck("readonly/unchanged", ob, m)
	// a copy can be modified and does not share with the original
	cp := c.Copy()
	rt.Assert("readonly/copy-modifiable", !cp.IsReadOnly())
	cp.Add(IntVal(v))
	mc := m.clone()
	mc.add(v)
	vobCheck("readonly/copy", cp.ToObject(), mc)
	vobCheck("readonly/unchanged-by-copy", ob, m)
}
