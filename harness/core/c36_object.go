package core

import (
	"github.com/apmckinlay/gsuneido/util/dnum"
	rt "github.com/apmckinlay/gsuneido/zzverifrt"
)

// ---------------------------------------------------------------------------------------------
// C36: container operations match list and map semantics.
//
// The model (vobM) is an ordered Go slice plus an association list of named integer keys, with
// the documented rule: a named integer key equal to the list size joins the list (and pulls the
// following keys in). Values are small integers.

type vobM struct {
	list []int
	nk   []int // named keys (all integers here)
	nv   []int
}

func (m *vobM) clone() *vobM {
	return &vobM{list: append([]int{}, m.list...), nk: append([]int{}, m.nk...), nv: append([]int{}, m.nv...)}
}

func (m *vobM) idx(k int) int {
	for i := range m.nk {
		if m.nk[i] == k {
			return i
		}
	}
	return -1
}

func (m *vobM) delNamed(i int) {
	m.nk = append(append([]int{}, m.nk[:i]...), m.nk[i+1:]...)
	m.nv = append(append([]int{}, m.nv[:i]...), m.nv[i+1:]...)
}

func (m *vobM) putNamed(k, v int) {
	if i := m.idx(k); i >= 0 {
		m.nv[i] = v
	} else {
		m.nk = append(m.nk, k)
		m.nv = append(m.nv, v)
	}
}

// migrate: while a named key equals the list size it moves to the end of the list
func (m *vobM) migrate() {
	for {
		i := m.idx(len(m.list))
		if i < 0 {
			return
		}
		m.list = append(m.list, m.nv[i])
		m.delNamed(i)
	}
}

func (m *vobM) inList(k int) bool { return 0 <= k && k < len(m.list) }

func (m *vobM) get(k int) (int, bool) {
	if m.inList(k) {
		return m.list[k], true
	}
	if i := m.idx(k); i >= 0 {
		return m.nv[i], true
	}
	return 0, false
}

func (m *vobM) add(v int) {
	m.list = append(m.list, v)
	m.migrate()
}

func (m *vobM) set(k, v int) {
	if k == len(m.list) {
		m.add(v)
	} else if m.inList(k) {
		m.list[k] = v
	} else {
		m.putNamed(k, v)
	}
}

func (m *vobM) insert(at, v int) {
	if 0 <= at && at <= len(m.list) {
		l := append([]int{}, m.list[:at]...)
		l = append(l, v)
		m.list = append(l, m.list[at:]...)
	} else {
		m.putNamed(at, v)
	}
	m.migrate()
}

func (m *vobM) listDel(k int) {
	m.list = append(append([]int{}, m.list[:k]...), m.list[k+1:]...)
}

// delete: list members after a deleted list member shift down
func (m *vobM) delete(k int) bool {
	if m.inList(k) {
		m.listDel(k)
		return true
	}
	if i := m.idx(k); i >= 0 {
		m.delNamed(i)
		return true
	}
	return false
}

// erase: list members after an erased list member keep their keys (they become named)
func (m *vobM) erase(k int) bool {
	if m.inList(k) {
		for j := k + 1; j < len(m.list); j++ {
			m.putNamed(j, m.list[j])
		}
		m.list = append([]int{}, m.list[:k]...)
		return true
	}
	if i := m.idx(k); i >= 0 {
		m.delNamed(i)
		return true
	}
	return false
}

// vobInt decodes a stored value (-999 = not an integer value)
func vobInt(v Value) int {
	if v == nil {
		return -998
	}
	if n, ok := SuIntToInt(v); ok {
		return n
	}
	return -999
}

const vobKeyLo, vobKeyHi = -3, 140 // key range: contains two keys 128 apart (same 7-bit hash tag)

func vobKey(name string) int {
	k := rt.IntRange(name, vobKeyLo, vobKeyHi)
	rt.Assume(vobKeyLo <= k && k <= vobKeyHi)
	return k
}

func vobVal(name string) int {
	v := rt.IntRange(name, 0, 5)
	rt.Assume(0 <= v && v <= 5)
	return v
}

// vobBuild builds an arbitrary object state with L list members and M named integer members
// through the real Add and Set, and the corresponding model. A valid state has no named
// integer key in [0, L] (such a key would be in the list).
func vobBuild(maxL, maxM int) (*SuObject, *vobM) {
	L := rt.Pick("L", maxL+1)
	M := rt.Pick("M", maxM+1)
	ob := &SuObject{}
	m := &vobM{}
	for i := 0; i < L; i++ {
		v := vobVal("lv")
		ob.Add(IntVal(v))
		m.list = append(m.list, v)
	}
	for j := 0; j < M; j++ {
		k := vobKey("nk")
		rt.Assume(k < 0 || k > L)
		for _, k0 := range m.nk {
			rt.Assume(k != k0)
		}
		v := vobVal("nv")
		ob.Set(IntVal(k), IntVal(v))
		m.nk = append(m.nk, k)
		m.nv = append(m.nv, v)
	}
	return ob, m
}

// vobCheck compares the real object with the model: sizes, every list slot, and an arbitrary
// probe key (which covers every named key, every list index and every absent key).
func vobCheck(label string, ob *SuObject, m *vobM) {
	ls := ob.ListSize()
	rt.Observe(label+".listsize", ls)
	rt.Observe(label+".namedsize", ob.NamedSize())
	rt.Assert(label+"/listsize", ls == len(m.list))
	rt.Assert(label+"/namedsize", ob.NamedSize() == len(m.nk))
	rt.Assert(label+"/size", ob.Size() == len(m.list)+len(m.nk))
	for i := 0; i < len(m.list) && i < ls; i++ {
		rt.Assert(label+"/list", vobInt(ob.ListGet(i)) == m.list[i])
	}
	p := vobKey(label + ".probe")
	g := ob.GetIfPresent(nil, IntVal(p))
	mv, ok := m.get(p)
	if ok {
		rt.Assert(label+"/member", g != nil && vobInt(g) == mv)
	} else {
		rt.Assert(label+"/absent", g == nil)
	}
	rt.Assert(label+"/haskey", ob.HasKey(IntVal(p)) == ok)
}

// vobCheckLight: sizes and list only (used for the second object of a copy pair)
func vobCheckLight(label string, ob *SuObject, m *vobM) {
	ls := ob.ListSize()
	rt.Assert(label+"/listsize", ls == len(m.list))
	rt.Assert(label+"/namedsize", ob.NamedSize() == len(m.nk))
	for i := 0; i < len(m.list) && i < ls; i++ {
		rt.Assert(label+"/list", vobInt(ob.ListGet(i)) == m.list[i])
	}
	for j := range m.nk {
		rt.Assert(label+"/named", vobInt(ob.GetIfPresent(nil, IntVal(m.nk[j]))) == m.nv[j])
	}
}

const (
	vopAdd = iota
	vopInsert
	vopSet
	vopPut
	vopDelete
	vopErase
	vopPopFirst
	vopPopLast
	vopFind
	vopUnique
	vopSort
	vopReverse
	vopDeleteAll
	vopSlice
	vopCopy
	vopDefault
	vopN
)

// vobStep applies one operation (kind op, symbolic arguments) to the object and the model and
// checks the operation's result.
func vobStep(tag string, op int, ob *SuObject, m *vobM) {
	switch op {
	case vopAdd:
		v := vobVal(tag + "v")
		ob.Add(IntVal(v))
		m.add(v)
	case vopInsert:
		at, v := vobKey(tag+"k"), vobVal(tag+"v")
		ob.Insert(at, IntVal(v))
		m.insert(at, v)
	case vopSet:
		k, v := vobKey(tag+"k"), vobVal(tag+"v")
		ob.Set(IntVal(k), IntVal(v))
		m.set(k, v)
	case vopPut:
		// the key is given as an equal decimal number
		k, v := vobKey(tag+"k"), vobVal(tag+"v")
		ob.Put(nil, SuDnum{Dnum: dnum.FromInt(int64(k))}, IntVal(v))
		m.set(k, v)
	case vopDelete:
		k := vobKey(tag + "k")
		r := ob.Delete(nil, IntVal(k))
		rt.Observe(tag+"deleted", r)
		rt.Assert("delete/result", r == m.delete(k))
	case vopErase:
		k := vobKey(tag + "k")
		r := ob.Erase(nil, IntVal(k))
		rt.Observe(tag+"erased", r)
		rt.Assert("erase/result", r == m.erase(k))
	case vopPopFirst:
		r := ob.PopFirst()
		if len(m.list) == 0 {
			rt.Assert("popfirst/empty", r == nil)
		} else {
			rt.Assert("popfirst/result", vobInt(r) == m.list[0])
			m.listDel(0)
		}
	case vopPopLast:
		r := ob.PopLast()
		if len(m.list) == 0 {
			rt.Assert("poplast/empty", r == nil)
		} else {
			rt.Assert("poplast/result", vobInt(r) == m.list[len(m.list)-1])
			m.listDel(len(m.list) - 1)
		}
	case vopFind:
		v := vobVal(tag + "v")
		r := ob.Find(IntVal(v))
		first := -1
		for i := len(m.list) - 1; i >= 0; i-- {
			if m.list[i] == v {
				first = i
			}
		}
		if first >= 0 {
			rt.Assert("find/first-list-position", vobInt(r) == first)
		} else if r == False {
			for j := range m.nv {
				rt.Assert("find/missed-named", m.nv[j] != v)
			}
		} else {
			j := m.idx(vobInt(r))
			rt.Assert("find/named-key", j >= 0 && m.nv[j] == v)
		}
	case vopUnique:
		ob.Unique()
		var l []int
		for i, x := range m.list {
			if i == 0 || x != m.list[i-1] {
				l = append(l, x)
			}
		}
		m.list = l
	case vopSort:
		ob.Sort(nil, False)
		l := append([]int{}, m.list...)
		for i := 1; i < len(l); i++ { // insertion sort
			for j := i; j > 0 && l[j] < l[j-1]; j-- {
				l[j], l[j-1] = l[j-1], l[j]
			}
		}
		m.list = l
	case vopReverse:
		ob.Reverse()
		var l []int
		for i := len(m.list) - 1; i >= 0; i-- {
			l = append(l, m.list[i])
		}
		m.list = l
	case vopDeleteAll:
		ob.DeleteAll()
		m.list, m.nk, m.nv = nil, nil, nil
	case vopSlice, vopCopy:
		n := 0
		var c *SuObject
		if op == vopSlice {
			n = rt.Pick(tag+"n", len(m.list)+2)
			c = ob.Slice(n).(*SuObject)
		} else {
			c = ob.Copy().(*SuObject)
		}
		mc := m.clone()
		if n < len(mc.list) {
			mc.list = mc.list[n:]
		} else {
			mc.list = nil
		}
		vobCheckLight("copy", c, mc)
		// the two objects are independent: change one, then the other
		k, v := vobKey(tag+"k"), vobVal(tag+"v")
		if rt.Bool(tag + "copyfirst") {
			c.Set(IntVal(k), IntVal(v))
			mc.set(k, v)
			vobCheckLight("copy/changed-copy", c, mc)
			vobCheckLight("copy/original-kept", ob, m)
			ob.Add(IntVal(v))
			m.add(v)
		} else {
			ob.Set(IntVal(k), IntVal(v))
			m.set(k, v)
			vobCheckLight("copy/changed-original", ob, m)
			vobCheckLight("copy/copy-kept", c, mc)
			c.Add(IntVal(v))
			mc.add(v)
		}
		vobCheckLight("copy/second-change", c, mc)
	case vopDefault:
		v := vobVal(tag + "v")
		ob.SetDefault(IntVal(v))
		k := vobKey(tag + "k")
		g := ob.Get(nil, IntVal(k))
		mv, ok := m.get(k)
		if !ok {
			mv = v
		}
		rt.Assert("default/get", vobInt(g) == mv)
	}
}

// C36 one step: from an arbitrary object state (0..3 list members, 0..2 named integer members)
// one operation with arbitrary arguments gives the state and result of the list+map model.
//
//symgo:harness prop=C36 tier=quick shards=8 tshards=16 timeout=300 ttimeout=1700 bounds=state:0..3_list_members+0..2_named_int_members(thorough:0..4+0..3);keys_in_-3..140;values_0..5;one_operation_of_16_kinds_with_symbolic_arguments outside=string_keys;objects_over_4+3_members;concurrent_objects
func VerifC36Step() {
	maxL, maxM := 3, 2
	if rt.Thorough() {
		maxL, maxM = 4, 3
	}
	ob, m := vobBuild(maxL, maxM)
	op := rt.Pick("op", vopN)
	vobStep("a.", op, ob, m)
	rt.Reach("stepped")
	vobCheck("after", ob, m)
}
