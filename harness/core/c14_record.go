package core

import (
	"strings"

	rt "github.com/apmckinlay/gsuneido/zzverifrt"
)

// vrecField: a field that is empty, 1..2 arbitrary bytes, or a filler of a length that puts the
// record near a header size-class boundary (content concrete: Build only copies it).
func vrecField(name string, big int) string {
	switch k := rt.Pick(name+"_kind", 4); k {
	case 0:
		return ""
	case 1:
		return rt.Str(name, 1)
	case 2:
		return rt.Str(name, 2)
	}
	d := rt.Pick(name+"_fill", 8) // fill lengths big-3 .. big+4
	return strings.Repeat("x", big-3+d) + rt.Str(name+"t", 1)
}

func vrecCheck(flds []string) {
	var b RecordBuilder
	for _, f := range flds {
		b.AddRaw(f)
	}
	r := b.Build()
	rt.Reach("built")
	n := len(flds)
	rt.Assert("record/count", r.Count() == n)
	rt.Assert("record/len", r.Len() == len(r) && RecLen([]byte(r)) == len(r))
	total := 0
	for i, f := range flds {
		rt.Assert("record/field", r.GetRaw(i) == f)
		total += len(f)
	}
	rt.Assert("record/beyond", r.GetRaw(n) == "" && r.GetRaw(-1) == "")
	rt.Assert("record/tblength", len(r) == tblength(n, total))
	// truncate keeps exactly the leading k fields (trailing empties trimmed)
	k := rt.Pick("trunc", n+1)
	t := r.Truncate(k)
	want := flds[:k]
	for len(want) > 0 && k < n && want[len(want)-1] == "" {
		want = want[:len(want)-1]
	}
	rt.Assert("truncate/count", t.Count() == len(want))
	for i, f := range want {
		rt.Assert("truncate/field", t.GetRaw(i) == f)
	}
	rt.Assert("truncate/beyond", t.GetRaw(len(want)) == "")
}

// C14: records of 1..3 fields around the 8-bit/16-bit header boundary (total length 0xfc..0x104)
// and small records: every field reads back exactly; Truncate keeps exactly the leading fields.
//
//symgo:harness prop=C14 tier=quick shards=8 timeout=300 bounds=1..3_fields;each_empty|1..2_arbitrary_bytes|filler_so_total_length_spans_0xf0..0x108
func VerifC14RecordSmall() {
	n := rt.Pick("nfields", 3) + 1
	flds := make([]string, n)
	for i := range flds {
		flds[i] = vrecField("f"+string(rune('0'+i)), 245)
	}
	vrecCheck(flds)
}

// C14: same around the 16-bit/32-bit header boundary (total length near 0x10000).
//
//symgo:harness prop=C14 tier=thorough shards=8 ttimeout=1500 bounds=1..2_fields;total_length_spans_0xfff0..0x10010
func VerifC14RecordBig() {
	n := rt.Pick("nfields", 2) + 1
	flds := make([]string, n)
	for i := range flds {
		flds[i] = vrecField("f"+string(rune('0'+i)), 65524)
	}
	vrecCheck(flds)
}

// C14: the size-class arithmetic: for every field count and data size the offset width chosen
// can represent the total length, and the total is header + offsets + data.
//
//symgo:harness prop=C14 tier=quick bounds=nfields_1..0x3fff;datasize_0..1000000
func VerifC14Tblength() {
	nf := rt.Int("nf")
	ds := rt.Int("ds")
	rt.Assume(1 <= nf && nf <= MaxValues && 0 <= ds && ds <= maxRecordLen)
	l := tblength(nf, ds)
	m := mode(l)
	rt.Reach("computed")
	w := 1
	if m == type16 {
		w = 2
	} else if m == type32 {
		w = 4
	}
	rt.Assert("tblength/total", l == hdrlen+w*(1+nf)+ds)
	rt.Assert("tblength/fits-width", (w == 1 && l < 0x100) || (w == 2 && l < 0x10000) || (w == 4 && l <= 0xffffffff))
}
