package core

import (
	"math"
	"strings"

	"github.com/apmckinlay/gsuneido/util/dnum"
	rt "github.com/apmckinlay/gsuneido/zzverifrt"
)

func vsgn(n int) int {
	if n < 0 {
		return -1
	} else if n > 0 {
		return 1
	}
	return 0
}

// C13 integers: Unpack(Pack(n)) == n for every int64, PackSize == length.
//
//symgo:harness prop=C13 tier=quick arith=int shards=4 timeout=300 bounds=all_int64
func VerifC13IntRoundTrip() {
	n := rt.I64Range("n", math.MinInt64, math.MaxInt64)
	x := SuInt64{int64: n}
	p := Pack(x)
	rt.Reach("packed")
	rt.Observe("p", p)
	rt.Assert("int/packsize", x.PackSize(nil) == len(p))
	v := Unpack(p)
	vi, ok := SuIntToInt(v)
	if ok {
		rt.Assert("int/roundtrip", int64(vi) == n)
	} else {
		// an integer may legitimately come back as an equal decimal
		dn, isDn := v.(SuDnum)
		rt.Assert("int/roundtrip-as-decimal", isDn && dn.Equal(x) && x.Equal(dn))
	}
}

// C13 integers: an integer packs to the same bytes whether it is held as SuInt64, as a small
// int or as a decimal (canonical encoding).
//
//symgo:harness prop=C13 tier=quick arith=int shards=4 timeout=300 bounds=all_|n|<10^16_(decimal_exact);small_ints_in_int16
func VerifC13IntCanonical() {
	n := rt.I64Range("n", -9999999999999999, 9999999999999999)
	p1 := Pack(SuInt64{int64: n})
	p2 := Pack(SuDnum{Dnum: dnum.FromInt(n)})
	rt.Reach("packed")
	rt.Assert("canonical/int64-vs-decimal", p1 == p2)
	if MinSuInt <= n && n <= MaxSuInt {
		p3 := Pack(SuInt(int(n)))
		rt.Assert("canonical/smallint", p1 == p3)
	}
}

// C13 integers: byte order of packed integers == numeric order.
//
//symgo:harness prop=C13 tier=quick arith=int shards=16 timeout=400 bounds=all_pairs_of_int64_with_equal_sign_classes_split_by_label
func VerifC13IntOrder() {
	a := rt.I64Range("a", math.MinInt64, math.MaxInt64)
	b := rt.I64Range("b", math.MinInt64, math.MaxInt64)
	rt.Assume(a < b)
	pa, pb := Pack(SuInt64{int64: a}), Pack(SuInt64{int64: b})
	rt.Reach("packed")
	less := strings.Compare(pa, pb) < 0
	switch {
	case a >= 0:
		rt.Assert("order/int-nonneg", less)
	case b >= 0:
		rt.Assert("order/int-mixed-sign", less)
	default:
		rt.Assert("order/int-negative", less)
	}
}

// C13 strings, booleans, type-tag order, "" smallest.
//
//symgo:harness prop=C13 tier=quick shards=2 bounds=strings_of_0..3_bytes;booleans
func VerifC13StrBool() {
	n := rt.Pick("len", 4)
	s := rt.Str("s", n)
	p := Pack(SuStr(s))
	v := Unpack(p)
	vs, ok := v.(SuStr)
	rt.Assert("str/roundtrip", ok && string(vs) == s)
	rt.Assert("str/packsize", SuStr(s).PackSize(nil) == len(p))
	m := rt.Pick("len2", 4)
	t := rt.Str("t", m)
	q := Pack(SuStr(t))
	rt.Assert("str/order", vsgn(strings.Compare(p, q)) == vsgn(strings.Compare(s, t)))
	rt.Assert("empty-smallest", Pack(SuStr("")) <= p && Pack(SuStr("")) <= Pack(True.(Packable)) && Pack(SuStr("")) <= Pack(False.(Packable)))
	rt.Assert("bool/roundtrip", Unpack(Pack(True.(Packable))) == True && Unpack(Pack(False.(Packable))) == False)
	rt.Assert("bool/order", Pack(False.(Packable)) < Pack(True.(Packable)))
	if n > 0 {
		rt.Assert("tag/bool<number<string", Pack(True.(Packable)) < Pack(SuInt(0)) && Pack(SuInt(0)) < p && Pack(SuDnum{Dnum: dnum.NegInf}) > Pack(True.(Packable)) && Pack(SuDnum{Dnum: dnum.PosInf}) < p)
	}
}
