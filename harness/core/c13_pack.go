package core

import (
	"math"
	"strings"

	"github.com/apmckinlay/gsuneido/util/dnum"
	rt "github.com/apmckinlay/gsuneido/zzverifrt"
)

func vsgn(n int) int {
	if n < 0 {
		return -1
	} else if n > 0 {
		return 1
	}
	return 0
}

var vpow10 = [20]uint64{1, 10, 100, 1000, 10000, 100000, 1000000, 10000000, 100000000, 1000000000,
	10000000000, 100000000000, 1000000000000, 10000000000000, 100000000000000, 1000000000000000,
	10000000000000000, 100000000000000000, 1000000000000000000, 10000000000000000000}

// vclass describes a class of int64 values: sign, number of decimal digits k (0 = the number
// zero), and number of trailing zero digits t (-1 = any).
type vclass struct {
	neg  bool
	k, t int
}

// vint: an arbitrary int64 of the class. The magnitude range is declared to the engine, so the
// digit-count loops of the code under test are decided from intervals without forking; with
// t >= 0 the value is q*10^t with q%10 != 0, so the trailing-zero loops have one feasible exit.
func vint(name string, c vclass) int64 {
	if c.k == 0 {
		return 0
	}
	lim := uint64(math.MaxInt64)
	if c.neg {
		lim++
	}
	var m uint64
	if c.t < 0 {
		m = rt.U64Range(name, vpow10[c.k-1], min(vpow10[c.k]-1, lim))
	} else {
		p := vpow10[c.t]
		q := rt.U64Range(name, vpow10[c.k-1-c.t], min(vpow10[c.k-c.t]-1, lim/p))
		rt.Assume(q%10 != 0)
		m = q * p
	}
	if c.neg {
		return -int64(m)
	}
	return int64(m)
}

// vpickClass: thorough: every sign and digit count with any number of trailing zeros (= every
// int64); quick: one of the listed classes.
func vpickClass(name string, quick []vclass) vclass {
	if rt.Thorough() {
		neg := rt.Pick(name+"_neg", 2) == 1
		k := rt.Pick(name+"_digits", 20)
		if neg && k == 0 {
			rt.Assume(false)
		}
		return vclass{neg, k, -1}
	}
	return quick[rt.Pick(name+"_class", len(quick))]
}

// vcheckNumEncoding is the independent statement of the packed number format: tag by sign; zero is
// the tag alone; otherwise an exponent byte e (biased by 0x80) and base-100 digit pairs with
// |value| = 0.d1d2d3... * 10^e, first digit non-zero, no trailing zero pair; a negative number has
// the exponent and digit bytes complemented. Checks the digit part against |value| = mag * 10^-scale
// for the (concrete) exponent e; the caller checks the exponent byte.
func vcheckNumEncoding(p string, neg bool, e int, mag rt.Z, scale int) {
	xor, tag := byte(0), byte(PackPlus)
	if neg {
		xor, tag = 0xff, PackMinus
	}
	rt.Assert("encoding/tag", len(p) >= 1 && p[0] == tag)
	if len(p) < 3 || len(p) > 12 {
		rt.Assert("encoding/length", false)
		return
	}
	npairs := len(p) - 2
	inRange := true
	sum := rt.ZI(0)
	for j := 0; j < npairs; j++ {
		d := p[2+j] ^ xor
		inRange = rt.And(inRange, d <= 99)
		sum = sum.MulPow10(2).Add(rt.ZU(uint64(d)))
	}
	rt.Assert("encoding/pairs-0..99", inRange)
	rt.Assert("encoding/leading-digit-nonzero", p[2]^xor >= 10)
	rt.Assert("encoding/no-trailing-zero-pair", p[len(p)-1]^xor != 0)
	// mag / 10^scale == sum / 100^npairs * 10^e
	l, r := e-2*npairs, -scale
	if l >= r {
		rt.Assert("encoding/value", sum.MulPow10(l-r).Eq(mag))
	} else {
		rt.Assert("encoding/value", sum.Eq(mag.MulPow10(r-l)))
	}
}

// vexpByte decodes the exponent byte of a packed non-zero number.
func vexpByte(p string, neg bool) int {
	if len(p) < 2 {
		return -1000
	}
	if neg {
		return int(int8(p[1] ^ 0x80 ^ 0xff))
	}
	return int(int8(p[1] ^ 0x80))
}

// C13 integers: Unpack(Pack(n)) == n for every int64, PackSize == length, and the bytes are the
// canonical number format with value n.
//
//symgo:harness prop=C13 tier=quick arith=int solver=z3-new shards=4 tshards=16 timeout=300 ttimeout=1500 bounds=quick:_all_int64_with_1..5_or_16_digits,_10_digits_(0_or_9_trailing_zeros),_17_(0,16),_18_(0),_19_digits_(0,1,2,3_(negative),17_or_18_trailing_zeros),_zero;thorough:_every_int64
func VerifC13IntRoundTrip() {
	c := vpickClass("n", []vclass{{false, 0, 0},
		{false, 1, -1}, {false, 2, -1}, {false, 3, -1}, {false, 4, -1}, {false, 5, -1}, {false, 10, 0}, {false, 10, 9}, {false, 16, -1},
		{false, 17, 0}, {false, 17, 16}, {false, 18, 0}, {false, 19, 0}, {false, 19, 1}, {false, 19, 18},
		{true, 1, -1}, {true, 2, -1}, {true, 3, -1}, {true, 4, -1}, {true, 5, -1}, {true, 10, 0}, {true, 10, 9}, {true, 16, -1},
		{true, 17, 0}, {true, 17, 16}, {true, 18, 0}, {true, 19, 0}, {true, 19, 1}, {true, 19, 2}, {true, 19, 3}, {true, 19, 17}, {true, 19, 18}})
	n := vint("n", c)
	x := SuInt64{int64: n}
	p := Pack(x)
	rt.Reach("packed")
	rt.Observe("p", p)
	rt.Assert("int/packsize", x.PackSize(nil) == len(p))
	if c.k == 0 {
		rt.Assert("encoding/zero", p == string([]byte{PackPlus}))
	} else {
		e := rt.Concrete(vexpByte(p, c.neg))
		rt.Assert("encoding/exponent", e == c.k)
		vcheckNumEncoding(p, c.neg, e, rt.ZI(n).Abs(), 0)
	}
	var v Value
	if rt.Try(func() { v = Unpack(p) }) {
		rt.Assert("roundtrip/int-unpack-panics", false)
		return
	}
	vi, ok := SuIntToInt(v)
	rt.Observe("isInt", ok)
	if ok {
		rt.Assert("int/roundtrip", int64(vi) == n)
	} else {
		// an integer may legitimately come back as a decimal of exactly the same value
		dn, isDn := v.(SuDnum)
		rt.Assert("int/roundtrip-as-decimal", isDn && dn.Equal(x))
		rt.Assert("roundtrip/int-as-decimal-equal-both-ways", isDn && x.Equal(dn))
	}
}

// C13 integers: an integer packs to the same bytes whether it is held as SuInt64, as a small
// int or as a decimal (canonical encoding). Thorough: every integer of up to 16 digits except
// those of exactly 14 digits (solver unknown); of the 17..19-digit integers that a decimal holds exactly (at most 16 significant digits) only those
// with 16 or with 1 significant digits (the solvers time out on dnum.FromInt's rounding loop for
// the others). For those the same conclusion follows from two checks that do cover them: every
// int64 (VerifC13IntRoundTrip) and every Dnum (VerifC13DnumRoundTrip) packs to the canonical
// format of exactly its value, and that format is unique per value.
//
//symgo:harness prop=C13 tier=quick arith=int solver=z3-new shards=3 tshards=16 timeout=300 ttimeout=1500 bounds=quick:_integers_of_1..4_digits,_16_digits_(0,1,15_trailing_zeros),_17_(1,16)_and_19_digits_(3,18);thorough:_every_integer_of_1..13,_15_or_16_digits,_17..19_digits_with_16_or_1_significant_digits;small_ints_in_int16 outside=14-digit_integers;17..19-digit_integers_with_2..15_significant_digits
func VerifC13IntCanonical() {
	var c vclass
	if rt.Thorough() {
		c.neg = rt.Pick("n_neg", 2) == 1
		c.k = rt.Pick("n_digits", 19) + 1
		c.t = -1
		if c.k == 14 { // z3 (4.8 and 5.1) answers unknown on the digit sums of 100*n for part of this class
			rt.Assume(false)
		}
		if c.k > 16 { // needs at least k-16 trailing zeros: the fewest (16 significant digits) or the most (1)
			c.t = []int{c.k - 16, c.k - 1}[rt.Pick("n_tz", 2)]
		}
	} else {
		quick := []vclass{{false, 1, -1}, {false, 2, -1}, {false, 3, -1}, {false, 4, -1}, {false, 16, 0}, {false, 16, 1}, {false, 16, 15},
			{false, 17, 1}, {false, 17, 16}, {false, 19, 3}, {false, 19, 18},
			{true, 1, -1}, {true, 2, -1}, {true, 3, -1}, {true, 4, -1}, {true, 16, 0}, {true, 16, 1}, {true, 16, 15},
			{true, 17, 1}, {true, 17, 16}, {true, 19, 3}, {true, 19, 18}}
		c = quick[rt.Pick("n_class", len(quick))]
	}
	n := vint("n", c)
	p1 := Pack(SuInt64{int64: n})
	p2 := Pack(SuDnum{Dnum: dnum.FromInt(n)})
	rt.Reach("packed")
	rt.Observe("p1", p1)
	rt.Observe("p2", p2)
	// both encodings are first checked against the format statement (value n); the solver then
	// has the two digit sums as lemmas when it compares the bytes
	e := rt.Concrete(vexpByte(p1, c.neg))
	rt.Assert("encoding/exponent", e == c.k && vexpByte(p2, c.neg) == e)
	vcheckNumEncoding(p1, c.neg, e, rt.ZI(n).Abs(), 0)
	vcheckNumEncoding(p2, c.neg, e, rt.ZI(n).Abs(), 0)
	rt.Assert("canonical/int64-vs-decimal", p1 == p2)
	if c.k <= 5 && MinSuInt <= n && n <= MaxSuInt {
		rt.Reach("smallint")
		p3 := Pack(SuInt(int(n)))
		rt.Assert("canonical/smallint", p1 == p3)
	}
}

// vorderAsserts: a < b (as values) must give pa < pb (as bytes); one label per case. For two
// negative numbers of different packed length where the shorter encoding is a prefix of the
// longer one the format cannot order them correctly: that case has its own label.
func vorderAsserts(kind string, aNeg, bNonNeg bool, pa, pb string) {
	less := pa < pb
	switch {
	case !aNeg:
		rt.Assert("order/"+kind+"-nonneg", less)
	case bNonNeg:
		rt.Assert("order/"+kind+"-mixed-sign", less)
	case len(pa) == len(pb):
		rt.Assert("order/"+kind+"-negative-equal-length", less)
	default:
		short, long := pa, pb
		if len(pb) < len(pa) {
			short, long = pb, pa
		}
		if long[:len(short)] == short {
			rt.Reach("negative-prefix-pair")
			rt.Assert("order/negative-prefix", less)
		} else {
			rt.Assert("order/"+kind+"-negative", less)
		}
	}
}

type vpair struct{ a, b vclass }

// C13 integers: byte order of packed integers == numeric order, directly on pairs of int64.
// (All pairs of decimals, hence of integers up to 16 digits, are in VerifC13DnumOrder.)
//
//symgo:harness prop=C13 tier=quick arith=int solver=z3-new shards=6 tshards=16 timeout=300 ttimeout=1700 bounds=pairs_a<b_of_int64;quick:_both_1..3_digits_same_sign,_(1|2,_2|3_digits),_17|17,_19|19,_18|19_digits_(no_trailing_zero),_mixed_signs_1..2_digits_and_19_digits_and_zero;thorough:_same_sign_and_digit_count_up_to_8_digits_(any),_9..19_digits_(0,1,k-1_trailing_zeros),_all_digit-count_pairs_(no_trailing_zero),_adjacent_digit_counts_up_to_6_(any),_all_mixed-sign_digit-count_pairs_(no_trailing_zero)
func VerifC13IntOrder() {
	var ca, cb vclass
	if rt.Thorough() {
		switch rt.Pick("case", 5) {
		case 0: // same sign, same digit count 1..8, any trailing zeros
			neg := rt.Pick("neg", 2) == 1
			k := rt.Pick("k", 8) + 1
			ca, cb = vclass{neg, k, -1}, vclass{neg, k, -1}
		case 1: // same sign, same digit count 9..19, trailing zeros in {0,1,k-1}
			neg := rt.Pick("neg", 2) == 1
			k := rt.Pick("k", 11) + 9
			ts := []int{0, 1, k - 1}
			ca, cb = vclass{neg, k, ts[rt.Pick("ta", 3)]}, vclass{neg, k, ts[rt.Pick("tb", 3)]}
		case 2: // same sign, any two different digit counts, no trailing zero
			neg := rt.Pick("neg", 2) == 1
			k1, k2 := rt.Pick("k1", 19)+1, rt.Pick("k2", 19)+1
			if k1 >= k2 {
				rt.Assume(false)
			}
			ca, cb = vclass{neg, k1, 0}, vclass{neg, k2, 0}
			if neg {
				ca, cb = cb, ca
			}
		case 3: // same sign, adjacent digit counts up to 6|7, any trailing zeros
			neg := rt.Pick("neg", 2) == 1
			k := rt.Pick("k", 6) + 1
			ca, cb = vclass{neg, k, -1}, vclass{neg, k + 1, -1}
			if neg {
				ca, cb = cb, ca
			}
		case 4: // a negative, b zero or positive, no trailing zero
			ca, cb = vclass{true, rt.Pick("k1", 19) + 1, 0}, vclass{false, rt.Pick("k2", 20), 0}
		}
	} else {
		quick := []vpair{
			{vclass{false, 1, -1}, vclass{false, 1, -1}}, {vclass{false, 2, -1}, vclass{false, 2, -1}}, {vclass{false, 3, -1}, vclass{false, 3, -1}},
			{vclass{true, 1, -1}, vclass{true, 1, -1}}, {vclass{true, 2, -1}, vclass{true, 2, -1}}, {vclass{true, 3, -1}, vclass{true, 3, -1}},
			{vclass{false, 1, -1}, vclass{false, 2, -1}}, {vclass{false, 2, -1}, vclass{false, 3, -1}},
			{vclass{true, 2, -1}, vclass{true, 1, -1}}, {vclass{true, 3, -1}, vclass{true, 2, -1}},
			{vclass{false, 17, 0}, vclass{false, 17, 0}}, {vclass{false, 19, 0}, vclass{false, 19, 0}}, {vclass{false, 18, 0}, vclass{false, 19, 0}},
			{vclass{true, 17, 0}, vclass{true, 17, 0}}, {vclass{true, 19, 0}, vclass{true, 19, 0}}, {vclass{true, 19, 0}, vclass{true, 18, 0}},
			{vclass{true, 19, 2}, vclass{true, 19, 0}},
			{vclass{true, 1, -1}, vclass{false, 0, 0}}, {vclass{true, 2, -1}, vclass{false, 1, -1}}, {vclass{true, 1, -1}, vclass{false, 2, -1}},
			{vclass{true, 19, 0}, vclass{false, 19, 0}}, {vclass{true, 19, 0}, vclass{false, 0, 0}},
		}
		pr := quick[rt.Pick("pair", len(quick))]
		ca, cb = pr.a, pr.b
	}
	a, b := vint("a", ca), vint("b", cb)
	rt.Assume(a < b)
	pa, pb := Pack(SuInt64{int64: a}), Pack(SuInt64{int64: b})
	rt.Reach("packed")
	rt.Observe("pa", pa)
	rt.Observe("pb", pb)
	vorderAsserts("int", ca.neg, !cb.neg, pa, pb)
}

// vdnum: an arbitrary valid dnum.Dnum: zero, +inf, -inf, or sign * 0.coef * 10^exp with a
// 16-digit coefficient and any int8 exponent.
func vdnum(name string) dnum.Dnum {
	sign := int8(1)
	switch rt.Pick(name+"_kind", 5) {
	case 0:
		return dnum.Zero
	case 1:
		return dnum.PosInf
	case 2:
		return dnum.NegInf
	case 3:
		sign = -1
	}
	coef := rt.U64Range(name+"_coef", 1000000000000000, 9999999999999999)
	exp := rt.IntRange(name+"_exp", -128, 127)
	return dnum.Raw(sign, coef, exp)
}

func vfiniteDnum(x dnum.Dnum) bool { return x.Sign() == 1 || x.Sign() == -1 }

// C13 decimals: every valid Dnum packs to PackSize bytes in the canonical number format with
// exactly its value, and Unpack returns an equal value (the same decimal, or the exactly equal
// integer).
//
//symgo:harness prop=C13 tier=quick arith=int solver=z3-new shards=4 tshards=8 timeout=300 ttimeout=900 bounds=all_valid_Dnum:_zero,_+-inf,_both_signs,_all_16-digit_coefficients,_all_int8_exponents
func VerifC13DnumRoundTrip() {
	x := vdnum("x")
	sx := SuDnum{Dnum: x}
	p := Pack(sx)
	rt.Reach("packed")
	rt.Observe("p", p)
	rt.Assert("dnum/packsize", sx.PackSize(nil) == len(p))
	switch {
	case x.Sign() == 0:
		rt.Assert("encoding/zero", p == string([]byte{PackPlus}))
	case x.Sign() == 2:
		rt.Assert("encoding/+inf", p == string([]byte{PackPlus, 0xff, 0xff}))
	case x.Sign() == -2:
		rt.Assert("encoding/-inf", p == string([]byte{PackMinus, 0, 0}))
	default:
		// value = 0.coef * 10^exp: exponent byte, then the digits as 0.coef (exponent 0)
		rt.Assert("encoding/exponent", vexpByte(p, x.Sign() < 0) == x.Exp())
		vcheckNumEncoding(p, x.Sign() < 0, 0, rt.ZU(x.Coef()), 16)
	}
	var v Value
	if rt.Try(func() { v = Unpack(p) }) {
		rt.Assert("roundtrip/dnum-unpack-panics", false)
		return
	}
	vd, isDn := v.(SuDnum)
	rt.Observe("isDnum", isDn)
	if isDn {
		rt.Assert("dnum/roundtrip", vd.Dnum == x)
		return
	}
	vi, ok := SuIntToInt(v)
	rt.Assert("dnum/roundtrip-type", ok)
	rt.Observe("vi", vi)
	if !vfiniteDnum(x) {
		rt.Assert("dnum/roundtrip-zero", x.Sign() == 0 && vi == 0)
		return
	}
	// an integral decimal may come back as the exactly equal integer: vi == sign*coef*10^(exp-16)
	e := rt.Concrete(x.Exp())
	iv := rt.ZI(int64(vi))
	if x.Sign() < 0 {
		iv = iv.Neg()
	}
	if e <= 16 {
		rt.Assert("dnum/roundtrip-int-exact", iv.MulPow10(16-e).Eq(rt.ZU(x.Coef())))
	} else {
		rt.Assert("dnum/roundtrip-int-exact", iv.Eq(rt.ZU(x.Coef()).MulPow10(e-16)))
	}
}

// C13 decimals: for every pair of valid Dnums, byte order of the packed values == dnum.Compare
// == order by value (model: sign class, then (exponent, coefficient) since coefficients are
// normalised), and equal values have equal bytes.
//
//symgo:harness prop=C13 tier=quick arith=int solver=z3-new shards=8 tshards=8 timeout=300 ttimeout=900 bounds=all_pairs_x<=y_of_valid_Dnum_(zero,_+-inf,_both_signs,_all_16-digit_coefficients,_all_int8_exponents)
func VerifC13DnumOrder() {
	x, y := vdnum("x"), vdnum("y")
	// value order model
	var less, equal bool
	switch {
	case x.Sign() != y.Sign():
		less, equal = x.Sign() < y.Sign(), false
	case !vfiniteDnum(x):
		less, equal = false, true
	default:
		magLess := rt.Or(x.Exp() < y.Exp(), rt.And(x.Exp() == y.Exp(), x.Coef() < y.Coef()))
		equal = rt.And(x.Exp() == y.Exp(), x.Coef() == y.Coef())
		if x.Sign() > 0 {
			less = magLess
		} else {
			less = rt.And(!magLess, !equal)
		}
	}
	rt.Assume(rt.Or(less, equal)) // x <= y: covers every unordered pair
	c := dnum.Compare(x, y)
	px, py := Pack(SuDnum{Dnum: x}), Pack(SuDnum{Dnum: y})
	rt.Reach("packed")
	rt.Observe("c", c)
	rt.Observe("px", px)
	rt.Observe("py", py)
	rt.Assert("order/dnum-compare-is-value-order", rt.And(rt.And((c < 0) == less, (c == 0) == equal), c <= 0))
	if c == 0 {
		rt.Assert("canonical/dnum-equal-values-equal-bytes", px == py)
		return
	}
	vorderAsserts("dnum", x.Sign() < 0, y.Sign() >= 0, px, py)
}

type vdateVal struct {
	date, time uint32
	extra      uint8 // 0: plain date
}

func (d vdateVal) value() Packable {
	sd := SuDate{date: d.date, time: d.time}
	if d.extra == 0 {
		return sd
	}
	return SuTimestamp{SuDate: sd, extra: d.extra}
}

func vdate(name string) vdateVal {
	d := vdateVal{date: rt.U32(name + "_date"), time: rt.U32(name + "_time")}
	if rt.Pick(name+"_ts", 2) == 1 {
		d.extra = rt.Byte(name + "_extra")
		rt.Assume(d.extra != 0)
	}
	return d
}

// C13 dates and timestamps: round trip, PackSize, byte order == Compare == (date, time, extra)
// order, where a plain date sorts as a timestamp with extra 0.
//
//symgo:harness prop=C13 tier=quick shards=1 timeout=300 bounds=all_32-bit_date_and_time_words_(a_superset_of_the_valid_dates);timestamp_extra_1..255;pairs_date|date,_date|timestamp,_timestamp|timestamp
func VerifC13Dates() {
	d1, d2 := vdate("d1"), vdate("d2")
	v1, v2 := d1.value(), d2.value()
	p1, p2 := Pack(v1), Pack(v2)
	rt.Reach("packed")
	rt.Observe("p1", p1)
	rt.Observe("p2", p2)
	want := 9
	if d1.extra != 0 {
		want = 10
	}
	rt.Assert("date/packsize", v1.PackSize(nil) == len(p1) && len(p1) == want)
	rt.Assert("date/tag", p1[0] == PackDate)
	u := Unpack(p1)
	if d1.extra == 0 {
		ud, ok := u.(SuDate)
		rt.Assert("date/roundtrip", ok && ud.date == d1.date && ud.time == d1.time)
	} else {
		ut, ok := u.(SuTimestamp)
		rt.Assert("timestamp/roundtrip", ok && ut.date == d1.date && ut.time == d1.time && ut.extra == d1.extra)
	}
	rt.Assert("date/equal-after-roundtrip", v1.(Value).Equal(u) && u.Equal(v1))
	// order
	less := rt.Or(d1.date < d2.date, rt.And(d1.date == d2.date,
		rt.Or(d1.time < d2.time, rt.And(d1.time == d2.time, d1.extra < d2.extra))))
	equal := rt.And(d1.date == d2.date, rt.And(d1.time == d2.time, d1.extra == d2.extra))
	c := v1.(Value).Compare(v2.(Value))
	rt.Observe("c", c)
	rt.Assert("order/date-compare-is-value-order", (c < 0) == less && (c == 0) == equal)
	rt.Assert("order/date", (p1 < p2) == less && (p1 == p2) == equal)
}

// C13 strings, booleans, type-tag order, "" smallest.
//
//symgo:harness prop=C13 tier=quick shards=2 bounds=strings_of_0..3_bytes;booleans;one_arbitrary_date_or_timestamp;one_finite_decimal_with_arbitrary_sign_and_exponent
func VerifC13StrBool() {
	n := rt.Pick("len", 4)
	s := rt.Str("s", n)
	p := Pack(SuStr(s))
	rt.Reach("packed")
	rt.Observe("p", p)
	v := Unpack(p)
	vs, ok := v.(SuStr)
	rt.Assert("str/roundtrip", ok && string(vs) == s)
	rt.Assert("str/packsize", SuStr(s).PackSize(nil) == len(p))
	m := rt.Pick("len2", 4)
	t := rt.Str("t", m)
	q := Pack(SuStr(t))
	rt.Assert("str/order", vsgn(strings.Compare(p, q)) == vsgn(strings.Compare(s, t)))
	pt, pf := Pack(True.(Packable)), Pack(False.(Packable))
	rt.Assert("empty-smallest", Pack(SuStr("")) == "" && "" <= p && "" < pt && "" < pf)
	rt.Assert("bool/roundtrip", Unpack(pt) == True && Unpack(pf) == False)
	rt.Assert("bool/order", pf < pt)
	if n > 0 {
		d := vdate("d")
		pd := Pack(d.value())
		sign := int8(1 - 2*rt.Pick("x_neg", 2))
		x := dnum.Raw(sign, 1234567890123456, int(rt.I8("x_exp")))
		px := Pack(SuDnum{Dnum: x})
		rt.Assert("tag/bool<number<string<date", pt < px && px < p && p < pd &&
			pt < Pack(SuInt(0)) && Pack(SuInt(0)) < p &&
			pt < Pack(SuDnum{Dnum: dnum.NegInf}) && Pack(SuDnum{Dnum: dnum.PosInf}) < p)
	}
}
