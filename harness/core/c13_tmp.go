package core

import (
	"github.com/apmckinlay/gsuneido/util/dnum"
	rt "github.com/apmckinlay/gsuneido/zzverifrt"
)

var vks = []string{"k0", "k1", "k2", "k3", "k4", "k5", "k6", "k7", "k8", "k9", "k10", "k11", "k12", "k13", "k14", "k15", "k16"}

//symgo:harness prop=C13 tier=quick arith=int solver=z3-new shards=11 timeout=300 qtimeout=8000 bounds=tmp
func VerifC13Tmp() {
	k := rt.Pick("k", 11) + 5
	c := vclass{false, k, -1}
	n := vint("n", c)
	p2 := Pack(SuDnum{Dnum: dnum.FromInt(n)})
	rt.Reach("packed")
	e := rt.Concrete(vexpByte(p2, c.neg))
	npairs := len(p2) - 2
	sum := rt.ZI(0)
	for j := 0; j < npairs; j++ {
		d := p2[2+j]
		sum = sum.MulPow10(2).Add(rt.ZU(uint64(d)))
	}
	mag := rt.ZI(n)
	l := e - 2*npairs
	if l >= 0 {
		rt.Assert("value/"+vks[k], sum.MulPow10(l).Eq(mag))
	} else {
		rt.Assert("value/"+vks[k], sum.Eq(mag.MulPow10(-l)))
	}
}
