package core

import (
	"math"

	"github.com/apmckinlay/gsuneido/util/dnum"
	rt "github.com/apmckinlay/gsuneido/zzverifrt"
)

// C28: value comparison is a consistent total order; Equal values compare as equal and hash
// equally; object members are found under any key Equal to the one used to store them.
//
// Layout of the check:
//   numbers        int mode, dnum.FromInt replaced by its contract (proved by VerifC28FromIntSpec):
//                  VerifC28NumOrder / VerifC28NumOrderWide (triples: antisymmetry, transitivity,
//                  Equal symmetric, Equal => Compare 0), VerifC28NumExact (anchor: the order is
//                  the numeric one), VerifC28NumHash / VerifC28NumHashWide (bv: Equal => same hash,
//                  member lookup)
//   everything     bv mode, VerifC28Pairs: every pair of kinds (booleans, small ints, 64-bit ints,
//                  decimals, strings as SuStr/SuConcat/SuExcept, dates, timestamps, objects):
//                  antisymmetry, type order, Compare = an explicit model order inside each class
//                  (a total order by construction, hence transitivity), Equal => Compare 0,
//                  same hash, member lookup
//   objects        VerifC28Objects / VerifC28ObjectHashOrder
//   triples        VerifC28Triples (thorough): direct transitivity over the non-decimal kinds

const v28coefMin, v28coefMax = 1000_0000_0000_0000, 9999_9999_9999_9999
const v28exact = 9999_9999_9999_9999 // integers up to this magnitude are exact as decimals

func v28sgn(n int) int {
	if n < 0 {
		return -1
	} else if n > 0 {
		return 1
	}
	return 0
}

// ------------------------------------------------------------------------------------------
// dnum.FromInt contract

// v28roundings: r1, r2, r3 are |n| rounded half up by one, two and three digits, one digit at a
// time (r = floor((x+5)/10)).
func v28roundings(n int64, r1, r2, r3 uint64) bool {
	u := rt.ZI(n).Abs()
	R1, R2, R3 := rt.ZU(r1), rt.ZU(r2), rt.ZU(r3)
	div := func(x, q rt.Z) bool {
		x5 := x.Add(rt.ZI(5))
		return rt.And(q.MulPow10(1).Le(x5), x5.Lt(q.MulPow10(1).Add(rt.ZI(10))))
	}
	return rt.And(rt.And(div(u, R1), div(R1, R2)), div(R2, R3))
}

// v28fromIntRes: coef x 10^(exp-16) is |n| (n != 0) brought to exactly 16 digits: scaled up when
// it has fewer, rounded digit by digit while it has more.
func v28fromIntRes(n int64, coef uint64, exp int, r1, r2, r3 uint64) bool {
	u := rt.ZI(n).Abs()
	c := rt.ZU(coef)
	M := rt.ZU(v28coefMax)
	R1, R2, R3 := rt.ZU(r1), rt.ZU(r2), rt.ZU(r3)
	exact := false
	for p := 0; p <= 15; p++ {
		exact = rt.Or(exact, rt.And(exp == 16-p, c.Eq(u.MulPow10(p))))
	}
	res := rt.And(u.Le(M), exact)
	res = rt.Or(res, rt.And(rt.And(u.Gt(M), R1.Le(M)), rt.And(c.Eq(R1), exp == 17)))
	res = rt.Or(res, rt.And(rt.And(R1.Gt(M), R2.Le(M)), rt.And(c.Eq(R2), exp == 18)))
	res = rt.Or(res, rt.And(R2.Gt(M), rt.And(c.Eq(R3), exp == 19)))
	return res
}

func v28roundVars(tag string) (r1, r2, r3 uint64) {
	r1 = rt.U64Range(tag+"r1", 0, 1<<63)
	r2 = rt.U64Range(tag+"r2", 0, 1<<63)
	r3 = rt.U64Range(tag+"r3", 0, 1<<63)
	return
}

// v28sumFromInt stands for dnum.FromInt in the numeric harnesses (summary=): a result
// constrained by the contract (which determines it uniquely).
func v28sumFromInt(n int64) dnum.Dnum {
	if n == 0 {
		return dnum.Zero
	}
	sign := int8(1)
	if n < 0 {
		sign = -1
	}
	coef := rt.U64Range("fi.coef", v28coefMin, v28coefMax)
	exp := rt.IntRange("fi.exp", 1, 19)
	r1, r2, r3 := v28roundVars("fi.")
	rt.Assume(v28roundings(n, r1, r2, r3))
	rt.Assume(v28fromIntRes(n, coef, exp, r1, r2, r3))
	return dnum.Raw(sign, coef, exp)
}

// C28 lemma: the real dnum.FromInt satisfies the contract used by the numeric harnesses, for
// every int64 (split by sign and number of digits so that the ranges are tight).
//
//symgo:harness prop=C28 tier=quick arith=int shards=4 timeout=450 qtimeout=120000 bounds=all_int64_(case_split:sign_x_1..19_digits,zero,MinInt64)
func VerifC28FromIntSpec() {
	var n int64
	e := rt.Pick("digits", 21)
	switch e {
	case 0:
		n = 0
	case 20:
		n = math.MinInt64
	default:
		lo, hi := int64(1), int64(9)
		for i := 1; i < e; i++ {
			lo, hi = lo*10, hi*10+9
		}
		if e == 19 {
			hi = math.MaxInt64
		}
		n = rt.I64Range("m", lo, hi)
		if rt.Pick("neg", 2) == 1 {
			n = -n
		}
	}
	d := dnum.FromInt(n)
	rt.Reach("converted")
	rt.Observe("coef", d.Coef())
	rt.Observe("exp", d.Exp())
	if n == 0 {
		rt.Assert("fromint/zero", d == dnum.Zero)
		return
	}
	want := 1
	if n < 0 {
		want = -1
	}
	rt.Assert("fromint/sign", d.Sign() == want)
	rt.Assert("fromint/normalized", v28coefMin <= d.Coef() && d.Coef() <= v28coefMax && 1 <= d.Exp() && d.Exp() <= 19)
	r1, r2, r3 := v28roundVars("")
	rt.Assume(v28roundings(n, r1, r2, r3))
	rt.Assert("fromint/contract", v28fromIntRes(n, d.Coef(), d.Exp(), r1, r2, r3))
}

// ------------------------------------------------------------------------------------------
// numbers (int mode)

// v28num returns a numeric value: an integer in [lo,hi] in its canonical representation
// (small int or SuInt64), a finite normalized decimal (any sign, 16-digit coefficient,
// exponent -3..22), decimal zero, and in the thorough tier the infinities and a SuInt64 holding
// a small-int value. wide reports an integer beyond 16 digits.
func v28num(tag string, lo, hi int64) (v Value, wide bool) {
	nk := 2
	if rt.Thorough() {
		nk = 6
	}
	switch rt.Pick(tag+".kind", nk) {
	case 0:
		n := rt.I64Range(tag+".n", lo, hi)
		return IntVal(int(n)), n < -v28exact || n > v28exact
	case 1:
		sign := int8(1)
		if rt.Bool(tag + ".neg") {
			sign = -1
		}
		coef := rt.U64Range(tag+".coef", v28coefMin, v28coefMax)
		elo := -3
		if lo == math.MinInt64 {
			elo = 14 // (wide harnesses: the decimals near the 17..19-digit integers)
		}
		exp := rt.IntRange(tag+".exp", elo, 22)
		return SuDnum{Dnum: dnum.Raw(sign, coef, exp)}, false
	case 2:
		return SuDnum{Dnum: dnum.Zero}, false
	case 3:
		return SuDnum{Dnum: dnum.PosInf}, false
	case 4:
		return SuDnum{Dnum: dnum.NegInf}, false
	}
	n := rt.I64Range(tag+".n", MinSuInt, MaxSuInt)
	return SuInt64{int64: n}, false
}

func v28numOrder(lo, hi int64, wantWide bool) {
	a, wa := v28num("a", lo, hi)
	b, wb := v28num("b", lo, hi)
	c, wc := v28num("c", lo, hi)
	if wantWide {
		rt.Assume(wa || wb || wc)
	}
	cab, cba := a.Compare(b), b.Compare(a)
	rt.Reach("compared")
	rt.Observe("cab", cab)
	rt.Observe("cba", cba)
	rt.Assert("num/antisymmetric", v28sgn(cab) == -v28sgn(cba))
	if cab > 0 {
		return
	}
	cbc := b.Compare(c)
	rt.Observe("cbc", cbc)
	if cbc > 0 {
		return
	}
	cac := a.Compare(c)
	rt.Observe("cac", cac)
	rt.Reach("chain")
	rt.Assert("num/transitive", cac <= 0)
	if cab < 0 || cbc < 0 {
		rt.Assert("num/transitive-strict", cac < 0)
	}
}

func v28numEqual(lo, hi int64, wantWide bool) {
	a, wa := v28num("a", lo, hi)
	b, wb := v28num("b", lo, hi)
	if wantWide {
		rt.Assume(wa || wb)
	}
	eab, eba := a.Equal(b), b.Equal(a)
	rt.Reach("compared")
	rt.Observe("eab", eab)
	rt.Observe("eba", eba)
	rt.Assert("num/equal-symmetric", eab == eba)
	if eab || eba {
		rt.Reach("equal-pair")
		rt.Assert("num/equal-implies-compare-0", a.Compare(b) == 0 && b.Compare(a) == 0)
	}
}

// C28 numbers: triples of numeric values whose integers have at most 16 digits: Compare is
// antisymmetric and transitive.
//
//symgo:harness prop=C28 tier=quick arith=int shards=8 tshards=16 timeout=300 ttimeout=1700 qtimeout=120000 summary=util/dnum.FromInt=v28sumFromInt bounds=triples_of:integer_|n|<10^16_(small_int_or_SuInt64)|finite_16-digit_decimal_exponent_-3..22_(thorough:+decimal_zero,+infinities,+SuInt64_holding_a_small_value);FromInt_by_its_proved_contract outside=integers_of_17..19_digits_(VerifC28NumOrderWide);unnormalized_decimals
func VerifC28NumOrder() {
	v28numOrder(-v28exact, v28exact, false)
}

// C28 numbers, integers of 17..19 digits: the conversion to a 16-digit decimal inside Compare
// is lossy there.
//
//symgo:harness prop=C28 tier=quick arith=int shards=8 tshards=16 timeout=300 ttimeout=1700 qtimeout=120000 summary=util/dnum.FromInt=v28sumFromInt bounds=as_VerifC28NumOrder_with_any_int64,at_least_one_integer_of_17..19_digits,decimal_exponents_14..22
func VerifC28NumOrderWide() {
	v28numOrder(math.MinInt64, math.MaxInt64, true)
}

// C28 numbers: pairs: Equal is symmetric and Equal numbers compare as equal.
//
//symgo:harness prop=C28 tier=quick arith=int shards=8 tshards=8 timeout=300 ttimeout=1700 qtimeout=120000 summary=util/dnum.FromInt=v28sumFromInt bounds=pairs_of_the_values_of_VerifC28NumOrder_(integers_|n|<10^16)
func VerifC28NumEqual() {
	v28numEqual(-v28exact, v28exact, false)
}

// C28 numbers, pairs with an integer of 17..19 digits: a SuInt64 against the decimals of that
// magnitude (exponent 17..19), both directions of Equal.
//
//symgo:harness prop=C28 tier=quick arith=int shards=1 timeout=400 qtimeout=120000 summary=util/dnum.FromInt=v28sumFromInt bounds=SuInt64_of_17..19_digits_against_any_finite_16-digit_decimal_with_exponent_17..19
func VerifC28NumEqualWide() {
	n := rt.I64Range("a.n", math.MinInt64, math.MaxInt64)
	rt.Assume(n < -v28exact || n > v28exact)
	a := SuInt64{int64: n}
	sign := int8(1)
	if rt.Bool("b.neg") {
		sign = -1
	}
	coef := rt.U64Range("b.coef", v28coefMin, v28coefMax)
	b := SuDnum{Dnum: dnum.Raw(sign, coef, rt.Pick("b.exp", 3)+17)}
	eab, eba := a.Equal(b), b.Equal(a)
	rt.Reach("compared")
	rt.Observe("eab", eab)
	rt.Observe("eba", eba)
	rt.Assert("num/equal-symmetric", eab == eba)
}

// C28 numbers, anchor: an integer against a decimal that holds an integer value m exactly
// compares as n against m (so the order of the numeric classes is the numeric order).
//
//symgo:harness prop=C28 tier=quick arith=int shards=2 timeout=450 qtimeout=120000 summary=util/dnum.FromInt=v28sumFromInt ttimeout=1700 bounds=integer_|n|<10^16_against_every_decimal_holding_an_integer_m_of_16,15,9,5_or_1_digits_(thorough:1..16_digits)
func VerifC28NumExact() {
	p := rt.Pick("p", 16) // m has 16-p digits
	if !rt.Thorough() {
		rt.Assume(p == 0 || p == 1 || p == 7 || p == 11 || p == 15)
	}
	n := rt.I64Range("n", -v28exact, v28exact)
	pow := uint64(1)
	for i := 0; i < p; i++ {
		pow *= 10
	}
	mag := rt.U64Range("m", v28coefMin/pow, v28coefMax/pow)
	coef := mag * pow
	m := int64(mag)
	sign := int8(1)
	if rt.Bool("neg") {
		sign, m = -1, -m
	}
	x, d := IntVal(int(n)), SuDnum{Dnum: dnum.Raw(sign, coef, 16-p)}
	want := 0
	if n < m {
		want = -1
	} else if n > m {
		want = 1
	}
	c1, c2 := x.Compare(d), d.Compare(x)
	rt.Reach("compared")
	rt.Observe("c1", c1)
	rt.Assert("num/int-vs-integral-decimal-order", c1 == want && c2 == -want)
	rt.Assert("num/int-vs-integral-decimal-equal", x.Equal(d) == (want == 0) && d.Equal(x) == (want == 0))
}

// ------------------------------------------------------------------------------------------
// numbers: hashing and member lookup (bv mode; decimals are built directly, FromInt is not run)

func v28numHash() {
	var x Value
	if rt.Pick("x.kind", 2) == 0 {
		x = SuInt(int(rt.I16("x.n")))
	} else {
		x = SuInt64{int64: rt.I64("x.n")}
	}
	var y Value
	switch rt.Pick("y.kind", 4) {
	case 0:
		y = SuInt(int(rt.I16("y.n")))
	case 1:
		y = SuInt64{int64: rt.I64("y.n")}
	case 2:
		// every normalized decimal whose value is a non-zero integer of the int16 range:
		// mag (e digits) x 10^(16-e), exponent e
		sign := int8(1)
		if rt.Bool("y.neg") {
			sign = -1
		}
		mag := rt.U16("y.mag")
		e := rt.Pick("y.digits", 5) + 1
		lo, pow := uint16(1), uint64(v28coefMin)
		for i := 1; i < e; i++ {
			lo, pow = lo*10, pow/10
		}
		rt.Assume(lo <= mag && (e == 5 || mag < lo*10) && mag <= 32768 && (sign < 0 || mag <= 32767))
		y = SuDnum{Dnum: dnum.Raw(sign, uint64(mag)*pow, e)}
	case 3:
		y = SuDnum{Dnum: dnum.Zero}
	}
	// x is an integer: its Equal is exact for every kind of y
	eq := x.Equal(y)
	rt.Observe("eq", eq)
	if !eq {
		return
	}
	rt.Reach("equal-pair")
	rt.Assert("hash/equal-numbers-same-hash", x.Hash() == y.Hash() && x.Hash2() == y.Hash2())
}

func v28numHashWide() {
	var x, y Value
	how := rt.Pick("how", 2)
	if how == 0 {
		// any SuInt64 outside the small-int range against any decimal with exponent 16..19
		n := rt.I64("x.n")
		rt.Assume(n < MinSuInt || n > MaxSuInt)
		x = SuInt64{int64: n}
		sign := int8(1)
		if rt.Bool("y.neg") {
			sign = -1
		}
		coef := rt.U64Range("y.coef", v28coefMin, v28coefMax)
		y = SuDnum{Dnum: dnum.Raw(sign, coef, rt.Pick("y.exp", 4)+16)}
	} else {
		// enumerated integers just outside the small-int range and up
		ns := []int64{32768, -32769, 100000, -1000000, 123456789}
		n := ns[rt.Pick("n", len(ns))]
		x, y = SuInt64{int64: n}, SuDnum{Dnum: dnum.FromInt(n)}
	}
	eq := x.Equal(y)
	rt.Observe("eq", eq)
	if !eq {
		return
	}
	rt.Reach("equal-pair")
	if how == 0 || rt.Pick("check", 2) == 0 {
		rt.Assert("hash/equal-numbers-same-hash", x.Hash() == y.Hash() && x.Hash2() == y.Hash2())
		return
	}
	// (member lookup for the enumerated integers only: with a symbolic 64-bit hash the slot
	// search costs hundreds of multiplier queries)
	v28lookup("member/number-found-under-equal-key", x, y)
}

// v28lookup: a member stored under x is found under y and vice versa
func v28lookup(label string, x, y Value) {
	ob := &SuObject{}
	ob.Set(x, SuInt(7))
	g := ob.Get(nil, y)
	rt.Observe("found", g != nil)
	rt.Assert(label, g == SuInt(7))
	ob2 := &SuObject{}
	ob2.Set(y, SuInt(7))
	g2 := ob2.Get(nil, x)
	rt.Observe("found2", g2 != nil)
	rt.Assert(label, g2 == SuInt(7))
}

// C28 numbers: member lookup under an Equal number in another representation, for an
// enumerated set of integers in the small-int range (the solver-decided part is the hash
// equality of VerifC28NumHash; the map itself is C36).
//
//symgo:harness qtimeout=120000 prop=C28 tier=quick timeout=300 bounds=n_in_{-32768,-129,-1,0,1,2,9,10,127,128,1000,32767};key_pairs_of_small_int|SuInt64|decimal
func VerifC28NumLookup() {
	ns := []int{-32768, -129, -1, 0, 1, 2, 9, 10, 127, 128, 1000, 32767}
	n := ns[rt.Pick("n", len(ns))]
	mk := func(k int) Value {
		switch k {
		case 0:
			return SuInt(n)
		case 1:
			return SuInt64{int64: int64(n)}
		}
		return SuDnum{Dnum: dnum.FromInt(int64(n))}
	}
	x, y := mk(rt.Pick("x.kind", 3)), mk(rt.Pick("y.kind", 3))
	rt.Reach("built")
	rt.Assert("member/number-equal", x.Equal(y) && y.Equal(x))
	rt.Assert("hash/equal-numbers-same-hash", x.Hash() == y.Hash())
	v28lookup("member/number-found-under-equal-key", x, y)
}

// C28 numbers: Equal numbers hash equally and find each other's members - integers in any
// representation, and decimals against integers in the small-int range.
//
//symgo:harness qtimeout=120000 prop=C28 tier=quick arith=int shards=1 timeout=300 bounds=x:any_small_int_or_any_SuInt64;y:small_int|SuInt64|decimal_zero|every_normalized_decimal_holding_a_non-zero_integer_of_the_int16_range outside=decimal_against_an_integer_outside_int16_(VerifC28NumHashWide)
func VerifC28NumHash() {
	v28numHash()
}

// C28 numbers: a SuInt64 outside the int16 range against the Equal decimal.
//
//symgo:harness qtimeout=120000 prop=C28 tier=quick shards=1 timeout=300 bounds=x:SuInt64_outside_int16;y:any_finite_16-digit_decimal_with_exponent_16..19,or_the_decimal_of_n_in_{32768,-32769,100000,-1000000,123456789}
func VerifC28NumHashWide() {
	v28numHashWide()
}

// ------------------------------------------------------------------------------------------
// all kinds (bv mode)

const (
	v28Bool = iota
	v28Smi
	v28I64
	v28Dec
	v28Str
	v28Concat
	v28Except
	v28Date
	v28Ts
	v28Obj
	v28Kinds
)

// v28m is the model of a value: its class rank (boolean < number < string < date < object) and
// a key inside the class.
type v28m struct {
	kind, rank int
	n          int    // boolean 0/1; integer value; object: list length
	s          string // string content
	d, t       uint32 // date
	x          uint8  // timestamp extra (0 for a plain date)
	e          []int  // object: list elements (small ints)
}

func v28str(tag string, maxLen int) string {
	return rt.Str(tag+".s", rt.Pick(tag+".len", maxLen+1))
}

// v28val builds a value of the given kind with a symbolic payload
func v28val(tag string, kind, maxLen int) (Value, v28m) {
	m := v28m{kind: kind}
	switch kind {
	case v28Bool:
		b := rt.Bool(tag + ".b")
		if b {
			m.n = 1
		}
		return SuBool(b), m
	case v28Smi:
		m.rank, m.n = 1, rt.IntRange(tag+".n", MinSuInt, MaxSuInt)
		return SuInt(m.n), m
	case v28I64:
		m.rank, m.n = 1, rt.Int(tag+".n")
		return SuInt64{int64: int64(m.n)}, m
	case v28Dec:
		m.rank = 1
		sign := int8(1)
		if rt.Bool(tag + ".neg") {
			sign = -1
		}
		coef := rt.U64Range(tag+".coef", v28coefMin, v28coefMax)
		exp := rt.IntRange(tag+".exp", -128, 127)
		// (exponents 1..19 make Hash convert the decimal to an integer - divisions and
		// multiplications of the coefficient that the bit-vector solver does not get through;
		// those decimals are covered by the int-mode numeric harnesses and VerifC28NumHashWide)
		rt.Assume(exp <= 0 || exp >= 20)
		return SuDnum{Dnum: dnum.Raw(sign, coef, exp)}, m
	case v28Str:
		m.rank, m.s = 2, v28str(tag, maxLen)
		return SuStr(m.s), m
	case v28Concat:
		m.rank, m.s = 2, v28str(tag, maxLen)
		k := rt.Pick(tag+".split", len(m.s)+1)
		return NewSuConcat().Add(m.s[:k]).Add(m.s[k:]), m
	case v28Except:
		m.rank, m.s = 2, v28str(tag, maxLen)
		return &SuExcept{SuStr: SuStr(m.s), Callstack: EmptyObject}, m
	case v28Date:
		m.rank, m.d, m.t = 3, rt.U32(tag+".date"), rt.U32(tag+".time")
		return SuDate{date: m.d, time: m.t}, m
	case v28Ts:
		m.rank, m.d, m.t, m.x = 3, rt.U32(tag+".date"), rt.U32(tag+".time"), rt.Byte(tag+".extra")
		rt.Assume(m.x != 0)
		return SuTimestamp{SuDate: SuDate{date: m.d, time: m.t}, extra: m.x}, m
	}
	m.rank = 4
	ob := &SuObject{}
	m.n = rt.Pick(tag+".len", 2)
	for i := 0; i < m.n; i++ {
		e := rt.IntRange(tag+".e", -128, 127)
		m.e = append(m.e, e)
		ob.Add(SuInt(e))
	}
	return ob, m
}

func v28cmpInt(a, b int) int {
	if a < b {
		return -1
	} else if a > b {
		return 1
	}
	return 0
}

func v28cmpU(a, b uint32) int {
	if a < b {
		return -1
	} else if a > b {
		return 1
	}
	return 0
}

func v28cmpStr(a, b string) int {
	for i := 0; i < len(a) && i < len(b); i++ {
		if a[i] != b[i] {
			if a[i] < b[i] {
				return -1
			}
			return 1
		}
	}
	return v28cmpInt(len(a), len(b))
}

// v28model is the model order inside a class (decimals have no model here: see the numeric
// harnesses)
func v28model(a, b v28m) int {
	switch a.rank {
	case 0, 1:
		return v28cmpInt(a.n, b.n)
	case 2:
		return v28cmpStr(a.s, b.s)
	case 3:
		if c := v28cmpU(a.d, b.d); c != 0 {
			return c
		}
		if c := v28cmpU(a.t, b.t); c != 0 {
			return c
		}
		return v28cmpInt(int(a.x), int(b.x))
	}
	for i := 0; i < len(a.e) && i < len(b.e); i++ {
		if c := v28cmpInt(a.e[i], b.e[i]); c != 0 {
			return c
		}
	}
	return v28cmpInt(len(a.e), len(b.e))
}

// v28pair: everything the property says about two values
func v28pair(a, b Value, ma, mb v28m) {
	// (Equal first: its outcome then is an explicit equation of the path condition)
	eab, eba := a.Equal(b), b.Equal(a)
	rt.Observe("eab", eab)
	rt.Observe("eba", eba)
	rt.Assert("equal/symmetric", eab == eba)
	if eab {
		rt.Reach("equal-pair") // (decided here, so that the equations are part of the path condition)
	}
	cab, cba := a.Compare(b), b.Compare(a)
	rt.Reach("compared")
	rt.Observe("cab", cab)
	rt.Observe("cba", cba)
	rt.Assert("order/antisymmetric", v28sgn(cab) == -v28sgn(cba))
	if ma.rank != mb.rank {
		rt.Assert("order/boolean<number<string<date<object", v28sgn(cab) == v28cmpInt(ma.rank, mb.rank))
		rt.Assert("equal/only-inside-a-class", !eab)
		return
	}
	if ma.kind != v28Dec && mb.kind != v28Dec {
		rt.Assert("order/class-order", v28sgn(cab) == v28model(ma, mb))
	}
	if !eab {
		return
	}
	rt.Assert("equal/implies-compare-0", cab == 0)
	rt.Assert("hash/equal-values-same-hash", a.Hash() == b.Hash())
	rt.Assert("hash/equal-values-same-hash2", a.Hash2() == b.Hash2())
	if ma.kind == v28Dec && mb.kind == v28Dec {
		// (two Equal decimals are field-wise identical; the slot search with their symbolic
		// 64-bit hash costs a thousand multiplier queries, so the lookup is left to the
		// numeric harnesses)
		return
	}
	ob := &SuObject{}
	ob.Set(a, SuInt(7))
	g := ob.Get(nil, b)
	rt.Observe("found", g != nil)
	rt.Assert("member/found-under-equal-key", g == SuInt(7))
}

// C28 all kinds: every pair of kinds with symbolic payloads.
//
//symgo:harness qtimeout=120000 prop=C28 tier=quick shards=16 timeout=300 ttimeout=1700 bounds=pairs_of:boolean|small_int|SuInt64_(any)|finite_decimal_(any_16-digit_coefficient,exponent_<=0_or_>=20)|SuStr,SuConcat_(every_split),SuExcept_of_0..2_bytes_(thorough_0..3)|SuDate,SuTimestamp_(any_field_bits)|object_with_0..1_small-int_list_members outside=integer_against_decimal_and_decimals_with_exponent_1..19_(numeric_harnesses);hash_of_two_Equal_decimals_with_exponent_1..19;member_lookup_with_two_decimal_keys;longer_strings;nested_objects_(VerifC28Objects)
func VerifC28Pairs() {
	maxLen := 2
	if rt.Thorough() {
		maxLen = 3
	}
	ka, kb := rt.Pick("a.kind", v28Kinds), rt.Pick("b.kind", v28Kinds)
	// integer against decimal runs FromInt: covered in int mode by the numeric harnesses
	isInt := func(k int) bool { return k == v28Smi || k == v28I64 }
	rt.Assume(!(isInt(ka) && kb == v28Dec) && !(isInt(kb) && ka == v28Dec))
	a, ma := v28val("a", ka, maxLen)
	b, mb := v28val("b", kb, maxLen)
	v28pair(a, b, ma, mb)
}

// C28 triples (thorough): direct transitivity over the kinds that do not need FromInt.
//
//symgo:harness qtimeout=120000 prop=C28 tier=thorough tshards=16 ttimeout=1700 bounds=triples_of:boolean|small_int|SuInt64|SuStr,SuConcat,SuExcept_of_0..2_bytes|SuDate|SuTimestamp|object_with_0..1_members
func VerifC28Triples() {
	ks := []int{v28Bool, v28Smi, v28I64, v28Str, v28Concat, v28Except, v28Date, v28Ts, v28Obj}
	a, _ := v28val("a", ks[rt.Pick("a.kind", len(ks))], 2)
	b, _ := v28val("b", ks[rt.Pick("b.kind", len(ks))], 2)
	c, _ := v28val("c", ks[rt.Pick("c.kind", len(ks))], 2)
	cab := a.Compare(b)
	if cab > 0 {
		return
	}
	cbc := b.Compare(c)
	if cbc > 0 {
		return
	}
	cac := a.Compare(c)
	rt.Reach("chain")
	rt.Observe("cac", cac)
	rt.Assert("order/transitive", cac <= 0)
	if cab < 0 || cbc < 0 {
		rt.Assert("order/transitive-strict", cac < 0)
	}
}

// ------------------------------------------------------------------------------------------
// objects

type v28obm struct {
	list   []int
	nk, nv []int
}

// v28object builds an object or record with 0..maxL small-int list members and the given
// named members (keys from a fixed set, inserted in the given order; values symbolic)
func v28object(tag string, maxL int, keys []int) (Value, v28obm) {
	var m v28obm
	var c Container
	if rt.Pick(tag+".record", 2) == 1 {
		c = NewSuRecord()
	} else {
		c = &SuObject{}
	}
	n := rt.Pick(tag+".len", maxL+1)
	for i := 0; i < n; i++ {
		e := rt.IntRange(tag+".e", -128, 127)
		m.list = append(m.list, e)
		c.Add(SuInt(e))
	}
	for _, k := range keys {
		v := rt.IntRange(tag+".v", -128, 127)
		m.nk, m.nv = append(m.nk, k), append(m.nv, v)
		c.Put(nil, SuInt(k), SuInt(v))
	}
	return c, m
}

func v28obEqual(a, b v28obm) bool {
	if len(a.list) != len(b.list) || len(a.nk) != len(b.nk) {
		return false
	}
	for i := range a.list {
		if a.list[i] != b.list[i] {
			return false
		}
	}
	for i, k := range a.nk {
		found := false
		for j, k2 := range b.nk {
			if k == k2 && a.nv[i] == b.nv[j] {
				found = true
			}
		}
		if !found {
			return false
		}
	}
	return true
}

func v28obPair(a, b Value, ma, mb v28obm) {
	eab, eba := a.Equal(b), b.Equal(a)
	rt.Observe("eab", eab)
	rt.Assert("object/equal-symmetric", eab == eba)
	rt.Assert("object/equal-is-same-members", eab == v28obEqual(ma, mb))
	cab, cba := a.Compare(b), b.Compare(a)
	rt.Reach("compared")
	rt.Observe("cab", cab)
	rt.Assert("object/antisymmetric", v28sgn(cab) == -v28sgn(cba))
	rt.Assert("object/order-by-list-members", v28sgn(cab) == v28model(v28m{rank: 4, e: ma.list}, v28m{rank: 4, e: mb.list}))
	if !eab {
		return
	}
	rt.Reach("equal-pair")
	rt.Assert("object/equal-implies-compare-0", cab == 0)
	if rt.Pick("check", 2) == 0 {
		rt.Assert("hash/equal-objects-same-hash", a.Hash() == b.Hash() && a.Hash2() == b.Hash2())
		return
	}
	ob := &SuObject{}
	ob.Set(a, SuInt(7))
	g := ob.Get(nil, b)
	rt.Observe("found", g != nil)
	rt.Assert("member/found-under-equal-object-key", g == SuInt(7))
}

// C28 objects: pairs of objects/records with list members and at most one named member, or two
// named members inserted in the same order.
//
//symgo:harness qtimeout=120000 prop=C28 tier=quick shards=4 timeout=300 ttimeout=1700 bounds=pairs_of_object|record_with_0..1_(thorough_0..2)_small-int_list_members_and_named_members_from_{none,{-1},{5},{-1,5}_inserted_in_this_order};values_-128..127 outside=named_members_inserted_in_different_orders_(VerifC28ObjectHashOrder);nested_objects
func VerifC28Objects() {
	maxL := 1
	if rt.Thorough() {
		maxL = 2
	}
	sets := [][]int{nil, {-1}, {5}, {-1, 5}}
	a, ma := v28object("a", maxL, sets[rt.Pick("a.named", len(sets))])
	b, mb := v28object("b", maxL, sets[rt.Pick("b.named", len(sets))])
	v28obPair(a, b, ma, mb)
}

// C28 objects: the same two named members inserted in opposite orders.
//
//symgo:harness qtimeout=120000 prop=C28 tier=quick shards=1 timeout=300 bounds=pairs_of_object|record_with_0..1_list_members_and_named_members_-1_and_5_inserted_in_opposite_orders;values_any_int8
func VerifC28ObjectHashOrder() {
	a, ma := v28object("a", 1, []int{-1, 5})
	b, mb := v28object("b", 1, []int{5, -1})
	v28obPair(a, b, ma, mb)
}
