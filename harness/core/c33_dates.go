package core

import (
	rt "github.com/apmckinlay/gsuneido/zzverifrt"
)

// ---- independent reference calendar (proleptic Gregorian), plain / and %, years >= 0 ----

// vdLeap: Gregorian leap year rule (branch-free).
func vdLeap(y int) bool {
	return rt.And(y%4 == 0, rt.Or(y%100 != 0, y%400 == 0))
}

// vdCum: days before the first of month m (1..12) in a non-leap year.
func vdCum(m int) int {
	return rt.IteInt(m <= 1, 0, rt.IteInt(m == 2, 31, rt.IteInt(m == 3, 59, rt.IteInt(m == 4, 90,
		rt.IteInt(m == 5, 120, rt.IteInt(m == 6, 151, rt.IteInt(m == 7, 181, rt.IteInt(m == 8, 212,
			rt.IteInt(m == 9, 243, rt.IteInt(m == 10, 273, rt.IteInt(m == 11, 304, 334)))))))))))
}

// vdMonthLen: days in month m (1..12) of year y.
func vdMonthLen(y, m int) int {
	return rt.IteInt(m == 2, rt.IteInt(vdLeap(y), 29, 28),
		rt.IteInt(rt.Or(rt.Or(m == 4, m == 6), rt.Or(m == 9, m == 11)), 30, 31))
}

// vdDays: day number of y-m-d counted from 0000-01-01 = 0 (d may lie outside the month:
// the count simply continues). Leap years in [0,y) = ceil(y/4) - ceil(y/100) + ceil(y/400).
func vdDays(y, m, d int) int {
	return 365*y + (y+3)/4 - (y+99)/100 + (y+399)/400 +
		vdCum(m) + rt.IteInt(rt.And(vdLeap(y), m > 2), 1, 0) + d - 1
}

// vdValid: the Gregorian dates gSuneido represents: years 0..2999, plus exactly 3000-01-01 00:00.
func vdValid(y, m, d, h, mi, s, ms int) bool {
	fields := rt.And(rt.And(rt.And(0 <= y, y <= 3000), rt.And(1 <= m, m <= 12)),
		rt.And(rt.And(rt.And(0 <= h, h <= 23), rt.And(0 <= mi, mi <= 59)),
			rt.And(rt.And(0 <= s, s <= 59), rt.And(0 <= ms, ms <= 999))))
	dom := rt.And(1 <= d, d <= vdMonthLen(y, m))
	end := rt.Or(y < 3000, rt.And(rt.And(m == 1, d == 1), rt.And(rt.And(h == 0, mi == 0), rt.And(s == 0, ms == 0))))
	return rt.And(rt.And(fields, dom), end)
}

const vdMsPerDay = 86400000

func vdTod(h, mi, s, ms int) int { return ((h*60+mi)*60+s)*1000 + ms }

// vdPack: the documented representation (21 bits year, 4 month, 5 day / 10 hour, 6 min, 6 sec, 10 ms).
func vdPack(y, m, d, h, mi, s, ms int) SuDate {
	return SuDate{date: uint32(y*512 + m*32 + d), time: uint32(h*4194304 + mi*65536 + s*1024 + ms)}
}

// vdCentury: the centuries a harness case-splits over (quick: 1900s and 2000s).
func vdCentury(name string) int {
	if rt.Thorough() {
		return rt.Pick(name, 30)
	}
	return 19 + rt.Pick(name, 2)
}

// vdEnable switches on the engine's exact folding of shifts/masks/division by constants
// (engine/symgo/x_c33.go); natively a no-op.
func vdEnable() {}

// C33: NewDate accepts exactly the Gregorian dates of the range, builds the documented
// bit-packed representation, and the accessors return the fields.
//
//symgo:harness prop=C33 tier=quick arith=int timeout=300 ttimeout=1500 qtimeout=20000 shards=2 tshards=8 bounds=probe
func VerifC33New() {
	vdEnable()
	var y, m, d, h, mi, s, ms int
	switch kind := rt.Pick("kind", 3); kind {
	case 0: // every field inside its own range: the day-of-month rule decides
		y = vdCentury("century")*100 + rt.IntRange("yy", 0, 99)
		m = rt.Pick("month", 12) + 1
		d = rt.IntRange("day", 1, 31)
		h, mi, s, ms = rt.IntRange("hour", 0, 23), rt.IntRange("minute", 0, 59), rt.IntRange("second", 0, 59), rt.IntRange("ms", 0, 999)
	case 1: // one field just outside its range
		y, m, d = 2024, 2, rt.IntRange("day", 1, 29)
		h, mi, s, ms = rt.IntRange("hour", 0, 23), rt.IntRange("minute", 0, 59), rt.IntRange("second", 0, 59), rt.IntRange("ms", 0, 999)
		switch rt.Pick("bad", 14) {
		case 0:
			y = -1
		case 1:
			y = 3001
		case 2:
			m = 0
		case 3:
			m = 13
		case 4:
			d = 0
		case 5:
			d = 32
		case 6:
			h = -1
		case 7:
			h = 24
		case 8:
			mi = -1
		case 9:
			mi = 60
		case 10:
			s = -1
		case 11:
			s = 60
		case 12:
			ms = -1
		case 13:
			ms = 1000
		}
	case 2: // the end of the range: only 3000-01-01 00:00:00.000 exists in year 3000
		y = 3000
		m = rt.Pick("month", 2) + 1
		d = rt.IntRange("day", 1, 2)
		h, mi, s, ms = rt.IntRange("hour", 0, 1), rt.IntRange("minute", 0, 1), rt.IntRange("second", 0, 1), rt.IntRange("ms", 0, 1)
	}
	x := NewDate(y, m, d, h, mi, s, ms)
	rt.Reach("computed")
	isNil := x == NilDate
	rt.Observe("nil", isNil)
	want := vdValid(y, m, d, h, mi, s, ms)
	rt.Assert("new/accepts-exactly-gregorian", isNil != want)
	if !isNil {
		rt.Reach("valid")
		rt.Assert("new/representation", x == vdPack(y, m, d, h, mi, s, ms))
		rt.Assert("new/accessors", rt.And(rt.And(rt.And(x.Year() == y, x.Month() == m), rt.And(x.Day() == d, x.Hour() == h)),
			rt.And(rt.And(x.Minute() == mi, x.Second() == s), x.Millisecond() == ms)))
		rt.Observe("date", x.date)
		rt.Observe("time", x.time)
	}
}

// vdYear: a symbolic year 0..2999 written as 400*c4 + 100*cb + 4*q + b: with the year in this
// form every division of the calendar arithmetic has a quotient that is linear in c4 and q plus a
// small case table, which is what the solver can decide.
func vdYear() int {
	c4 := rt.IntRange("c4", 0, 7)
	cb := rt.IntRange("cb", 0, 3)
	q := rt.IntRange("q", 0, 24)
	b := rt.IntRange("b", 0, 3)
	y := 400*c4 + 100*cb + 4*q + b
	rt.Assume(y <= 2999)
	return y
}

// vdSource: a symbolic valid date with a concrete month.
func vdSource() (y, m, d, h, mi, s, ms int) {
	y = vdYear()
	m = rt.Pick("month", 12) + 1
	d = rt.IntRange("day", 1, 31)
	h, mi, s, ms = rt.IntRange("hour", 0, 23), rt.IntRange("minute", 0, 59), rt.IntRange("second", 0, 59), rt.IntRange("ms", 0, 999)
	rt.Assume(d <= vdMonthLen(y, m))
	return
}

// vdWalk: the month reached by moving j whole months from (y, m) - m and j concrete - and the
// number of days from the first of month m to the first of that month (negative backwards),
// by walking the calendar one month at a time.
func vdWalk(y, m, j int) (y2, m2, off int) {
	y2, m2 = y, m
	for ; j > 0; j-- {
		off += vdMonthLen(y2, m2)
		if m2++; m2 == 13 {
			y2, m2 = y2+1, 1
		}
	}
	for ; j < 0; j++ {
		if m2--; m2 == 0 {
			y2, m2 = y2-1, 12
		}
		off -= vdMonthLen(y2, m2)
	}
	return
}

// C33: adding days. The oracle walks the calendar month by month: if day+k, counted from the
// first of the source month, falls into the month j months away, the result is that month's
// day (day + k - days walked), same time of day. MinusDays inverts it.
//
//symgo:harness prop=C33 tier=quick arith=int timeout=300 ttimeout=1500 qtimeout=20000 shards=1 tshards=8 bounds=probe
func VerifC33PlusDays() {
	vdEnable()
	y, m, d, h, mi, s, ms := vdSource()
	src := vdPack(y, m, d, h, mi, s, ms)
	var j int
	if rt.Thorough() {
		j = rt.Pick("months_away", 29) - 14
	} else {
		j = rt.Pick("months_away", 3) - 1
	}
	y2, m2, off := vdWalk(y, m, j)
	d2 := rt.IntRange("day2", 1, 31) // the day of month reached: every k landing in that month
	rt.Assume(d2 <= vdMonthLen(y2, m2))
	k := d2 - d + off
	r := src.Plus(0, 0, k, 0, 0, 0, 0)
	rt.Reach("computed")
	rt.Observe("date", r.date)
	rt.Observe("time", r.time)
	want := vdPack(y2, m2, d2, h, mi, s, ms)
	rt.Assert("plusdays/year", r.Year() == y2)
	rt.Assert("plusdays/month", r.Month() == m2)
	rt.Assert("plusdays/day", r.Day() == d2)
	rt.Assert("plusdays/time-unchanged", r.time == src.time)
	rt.Assert("plusdays/representation", r == want)
	rt.Assert("minusdays/inverse-of-plus", rt.And(want.MinusDays(src) == k, src.MinusDays(want) == -k))
}
