package core

import (
	rt "github.com/apmckinlay/gsuneido/zzverifrt"
)

// ---- independent reference calendar (proleptic Gregorian), plain / and % ----

func vdLeap(y int) bool {
	return y%4 == 0 && (y%100 != 0 || y%400 == 0)
}

// vdMonthLen: days in month m (1..12) of year y
func vdMonthLen(y, m int) int {
	if m == 2 {
		if vdLeap(y) {
			return 29
		}
		return 28
	}
	if m == 4 || m == 6 || m == 9 || m == 11 {
		return 30
	}
	return 31
}

//symgo:harness prop=C33 tier=quick arith=int solver=cvc5 timeout=200 qtimeout=20000 shards=4 bounds=probe
func VerifC33Valid() {
	c := rt.Pick("century", 31)
	m := rt.Pick("month", 12) + 1
	yy := rt.IntRange("yy", 0, 99)
	y := c*100 + yy
	d := rt.IntRange("day", -2, 40)
	ok := valid(y, m, d, 0, 0, 0, 0)
	rt.Reach("computed")
	rt.Observe("ok", ok)
	want := y <= 3000 && d >= 1 && d <= vdMonthLen(y, m) && (y < 3000 || (m == 1 && d == 1))
	rt.Assert("valid/gregorian", ok == want)
}
