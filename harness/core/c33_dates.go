package core

import (
	rt "github.com/apmckinlay/gsuneido/zzverifrt"
)

// ---- independent reference calendar (proleptic Gregorian), plain / and %, years >= 0 ----

// vdLeap: Gregorian leap year rule (branch-free).
func vdLeap(y int) bool {
	return rt.And(y%4 == 0, rt.Or(y%100 != 0, y%400 == 0))
}

// vdCum: days before the first of month m (1..12) in a non-leap year.
func vdCum(m int) int {
	return rt.IteInt(m <= 1, 0, rt.IteInt(m == 2, 31, rt.IteInt(m == 3, 59, rt.IteInt(m == 4, 90,
		rt.IteInt(m == 5, 120, rt.IteInt(m == 6, 151, rt.IteInt(m == 7, 181, rt.IteInt(m == 8, 212,
			rt.IteInt(m == 9, 243, rt.IteInt(m == 10, 273, rt.IteInt(m == 11, 304, 334)))))))))))
}

// vdMonthLen: days in month m (1..12) of year y.
func vdMonthLen(y, m int) int {
	return rt.IteInt(m == 2, rt.IteInt(vdLeap(y), 29, 28),
		rt.IteInt(rt.Or(rt.Or(m == 4, m == 6), rt.Or(m == 9, m == 11)), 30, 31))
}

// vdDays: day number of y-m-d counted from 0000-01-01 = 0 (d may lie outside the month:
// the count simply continues). Leap years in [0,y) = ceil(y/4) - ceil(y/100) + ceil(y/400).
func vdDays(y, m, d int) int {
	return 365*y + (y+3)/4 - (y+99)/100 + (y+399)/400 +
		vdCum(m) + rt.IteInt(rt.And(vdLeap(y), m > 2), 1, 0) + d - 1
}

// vdValid: the Gregorian dates gSuneido represents: years 0..2999, plus exactly 3000-01-01 00:00.
func vdValid(y, m, d, h, mi, s, ms int) bool {
	fields := rt.And(rt.And(rt.And(0 <= y, y <= 3000), rt.And(1 <= m, m <= 12)),
		rt.And(rt.And(rt.And(0 <= h, h <= 23), rt.And(0 <= mi, mi <= 59)),
			rt.And(rt.And(0 <= s, s <= 59), rt.And(0 <= ms, ms <= 999))))
	dom := rt.And(1 <= d, d <= vdMonthLen(y, m))
	end := rt.Or(y < 3000, rt.And(rt.And(m == 1, d == 1), rt.And(rt.And(h == 0, mi == 0), rt.And(s == 0, ms == 0))))
	return rt.And(rt.And(fields, dom), end)
}

const vdMsPerDay = 86400000

func vdTod(h, mi, s, ms int) int { return ((h*60+mi)*60+s)*1000 + ms }

// vdPack: the documented representation (21 bits year, 4 month, 5 day / 10 hour, 6 min, 6 sec, 10 ms).
func vdPack(y, m, d, h, mi, s, ms int) SuDate {
	return SuDate{date: uint32(y*512 + m*32 + d), time: uint32(h*4194304 + mi*65536 + s*1024 + ms)}
}

// vdEnable switches on the engine's exact folding of shifts/masks/division by constants
// (engine/symgo/x_c33.go); natively a no-op.
func vdEnable() {}

// C33: NewDate accepts exactly the Gregorian dates of the range, builds the documented
// bit-packed representation, and the accessors return the fields.
//
//symgo:harness prop=C33 tier=quick arith=int timeout=300 ttimeout=1500 qtimeout=120000 shards=2 tshards=4 bounds=valid_dates_of_years_1900..2099_(thorough_400..2999),_century_and_month_case-split;days_28..31_of_every_month_of_2023,2024,1900,2000;year_3000_edge;each_field_one_step_outside_its_range_(on_2024-02) outside=years_0..399;fields_far_outside_their_ranges
func VerifC33New() {
	vdEnable()
	var y, m, d, h, mi, s, ms int
	switch kind := rt.Pick("kind", 4); kind {
	case 0: // any valid date of the century (quick: 1900s, 2000s; thorough: 400..2999)
		c := 19 + rt.Pick("century", 2)
		if rt.Thorough() {
			c = 4 + rt.Pick("century_t", 26)
		}
		y = c*100 + rt.IntRange("yy", 0, 99)
		m = rt.Pick("month", 12) + 1
		d = rt.IntRange("day", 1, 31)
		h, mi, s, ms = rt.IntRange("hour", 0, 23), rt.IntRange("minute", 0, 59), rt.IntRange("second", 0, 59), rt.IntRange("ms", 0, 999)
		rt.Assume(d <= vdMonthLen(y, m))
	case 3: // the day-of-month rule: days 28..31 of every month of a leap / non-leap / century year
		y = []int{2023, 2024, 1900, 2000}[rt.Pick("year", 4)]
		m = rt.Pick("month", 12) + 1
		d = rt.IntRange("day", 28, 31)
		h, mi, s, ms = rt.IntRange("hour", 0, 23), 0, 0, rt.IntRange("ms", 0, 999)
	case 1: // one field just outside its range
		y, m, d = 2024, 2, rt.IntRange("day", 1, 29)
		h, mi, s, ms = rt.IntRange("hour", 0, 23), rt.IntRange("minute", 0, 59), rt.IntRange("second", 0, 59), rt.IntRange("ms", 0, 999)
		switch rt.Pick("bad", 14) {
		case 0:
			y = -1
		case 1:
			y = 3001
		case 2:
			m = 0
		case 3:
			m = 13
		case 4:
			d = 0
		case 5:
			d = 32
		case 6:
			h = -1
		case 7:
			h = 24
		case 8:
			mi = -1
		case 9:
			mi = 60
		case 10:
			s = -1
		case 11:
			s = 60
		case 12:
			ms = -1
		case 13:
			ms = 1000
		}
	case 2: // the end of the range: only 3000-01-01 00:00:00.000 exists in year 3000
		y = 3000
		m = rt.Pick("month", 2) + 1
		d = rt.IntRange("day", 1, 2)
		h, mi, s, ms = rt.IntRange("hour", 0, 1), rt.IntRange("minute", 0, 1), rt.IntRange("second", 0, 1), rt.IntRange("ms", 0, 1)
	}
	x := NewDate(y, m, d, h, mi, s, ms)
	rt.Reach("computed")
	isNil := x == NilDate
	rt.Observe("nil", isNil)
	want := vdValid(y, m, d, h, mi, s, ms)
	rt.Assert("new/accepts-exactly-gregorian", isNil != want)
	if !isNil {
		rt.Reach("valid")
		rt.Assert("new/representation", x == vdPack(y, m, d, h, mi, s, ms))
		rt.Assert("new/accessors", rt.And(rt.And(rt.And(x.Year() == y, x.Month() == m), rt.And(x.Day() == d, x.Hour() == h)),
			rt.And(rt.And(x.Minute() == mi, x.Second() == s), x.Millisecond() == ms)))
		rt.Observe("date", x.date)
		rt.Observe("time", x.time)
	}
}

// vdYear: a symbolic year 400..2999 written as 400*c4 + 100*cb + 4*q + b: with the year in this
// form every division of the calendar arithmetic has a quotient that is linear in c4 and q plus a
// small case table, which is what the solver can decide.
func vdYear() int {
	c4 := rt.IntRange("c4", 1, 7)
	cb := rt.IntRange("cb", 0, 3)
	q := rt.IntRange("q", 0, 24)
	b := rt.IntRange("b", 0, 3)
	y := 400*c4 + 100*cb + 4*q + b
	rt.Assume(y <= 2999)
	return y
}

// vdSource: a symbolic valid date with a concrete month.
func vdSource() (y, m, d, h, mi, s, ms int) {
	y = vdYear()
	m = rt.Pick("month", 12) + 1
	d = rt.IntRange("day", 1, 31)
	h, mi, s, ms = rt.IntRange("hour", 0, 23), rt.IntRange("minute", 0, 59), rt.IntRange("second", 0, 59), rt.IntRange("ms", 0, 999)
	rt.Assume(d <= vdMonthLen(y, m))
	return
}

// vdPlus: d.Plus(...), ok=false if it panicked ("bad date": the result is outside years 0..3000).
func vdPlus(d SuDate, yr, mon, day, hr, min, sec, ms int) (r SuDate, ok bool) {
	ok = !rt.Try(func() { r = d.Plus(yr, mon, day, hr, min, sec, ms) })
	return
}

// vdWalk: the month reached by moving j whole months from (y, m) - m and j concrete - and the
// number of days from the first of month m to the first of that month (negative backwards),
// by walking the calendar one month at a time.
func vdWalk(y, m, j int) (y2, m2, off int) {
	y2, m2 = y, m
	for ; j > 0; j-- {
		off += vdMonthLen(y2, m2)
		if m2++; m2 == 13 {
			y2, m2 = y2+1, 1
		}
	}
	for ; j < 0; j++ {
		if m2--; m2 == 0 {
			y2, m2 = y2-1, 12
		}
		off -= vdMonthLen(y2, m2)
	}
	return
}

// C33: adding days. The oracle walks the calendar month by month: if day+k, counted from the
// first of the source month, falls into the month j months away, the result is that month's
// day (day + k - days walked), same time of day. MinusDays inverts it.
//
//symgo:harness prop=C33 tier=quick arith=int timeout=300 ttimeout=1700 qtimeout=120000 shards=2 tshards=8 bounds=source_any_valid_date_of_years_400..2999_(month_case-split);day_offsets_landing_in_the_previous,same_or_next_month_(|k|<=61);thorough:_up_to_14_months_away_(|k|<=440) outside=larger_day_offsets;several_offset_fields_at_once;years_0..399
func VerifC33PlusDays() {
	vdEnable()
	y, m, d, h, mi, s, ms := vdSource()
	src := vdPack(y, m, d, h, mi, s, ms)
	var j int
	if rt.Thorough() {
		j = rt.Pick("months_away", 29) - 14
	} else {
		j = rt.Pick("months_away", 3) - 1
	}
	y2, m2, off := vdWalk(y, m, j)
	d2 := rt.IntRange("day2", 1, 31) // the day of month reached: every k landing in that month
	rt.Assume(d2 <= vdMonthLen(y2, m2))
	k := d2 - d + off
	r, ok := vdPlus(src, 0, 0, k, 0, 0, 0, 0)
	rt.Reach("computed")
	rt.Observe("ok", ok)
	rt.Assert("plusdays/rejects-exactly-out-of-range", ok == vdValid(y2, m2, d2, h, mi, s, ms))
	if !ok {
		return
	}
	rt.Reach("in-range")
	rt.Observe("date", r.date)
	rt.Observe("time", r.time)
	want := vdPack(y2, m2, d2, h, mi, s, ms)
	rt.Assert("plusdays/year", r.Year() == y2)
	rt.Assert("plusdays/month", r.Month() == m2)
	rt.Assert("plusdays/day", r.Day() == d2)
	rt.Assert("plusdays/time-unchanged", r.time == src.time)
	rt.Assert("plusdays/representation", r == want)
	rt.Assert("minusdays/inverse-of-plus", rt.And(want.MinusDays(src) == k, src.MinusDays(want) == -k))
}

// vdShiftDay: the date `shift` days (|shift| <= 27, concrete) from y-m-d (m concrete): inside the
// month, or carried into the previous / following month (branch-free).
func vdShiftDay(y, m, d, shift int) (y2, m2, d2 int) {
	yp, mp, offp := vdWalk(y, m, -1)
	yn, mn, offn := vdWalk(y, m, 1)
	dd := d + shift
	under, over := dd < 1, dd > vdMonthLen(y, m)
	y2 = rt.IteInt(under, yp, rt.IteInt(over, yn, y))
	m2 = rt.IteInt(under, mp, rt.IteInt(over, mn, m))
	d2 = rt.IteInt(under, dd-offp, rt.IteInt(over, dd-offn, dd))
	return
}

// vdBoundaryDates: concrete dates around month, year, leap-day and range boundaries.
var vdBoundaryDates = [][3]int{
	{2023, 12, 31}, {2024, 2, 28}, {2024, 2, 29}, {2100, 2, 28}, {2999, 12, 31},
	// thorough only:
	{2024, 1, 1}, {2024, 3, 1}, {2023, 2, 28}, {2000, 2, 29}, {1999, 12, 31}, {1970, 1, 1}, {2024, 6, 30},
	{1700, 1, 1}, {1900, 2, 28}, {1900, 3, 1}, {2000, 1, 1}, {2000, 12, 31}, {2038, 1, 19}, {2226, 12, 31},
	{2227, 1, 1}, {2400, 2, 29}, {400, 1, 1}, {1, 1, 1}, {2024, 4, 30}, {2024, 7, 31}, {2024, 8, 1}, {2999, 12, 30},
}

// C33: adding hours, minutes, seconds or milliseconds (one field at a time) to a concrete boundary
// date with a symbolic time of day. With the time of day counted in ms, the sum lands `shift` whole
// days away at ms-of-day tod2; the date part is the date `shift` days later, and MinusMs inverts it.
// (With a symbolic date as well the solver does not decide the combined time and calendar
// normalisation; symbolic dates are covered by VerifC33PlusDays.)
//
//symgo:harness prop=C33 tier=quick arith=int timeout=300 ttimeout=1700 qtimeout=120000 shards=2 tshards=8 bounds=5_concrete_boundary_dates_(thorough_27);any_time_of_day;one_of_hours/minutes/seconds/ms_offset_with_the_result_within_+-1_day_(thorough_+-3_days) outside=symbolic_date_together_with_time_offsets_(solver_unknown);several_offset_fields_at_once;larger_offsets
func VerifC33PlusTime() {
	vdEnable()
	nd := 5
	span := 1
	if rt.Thorough() {
		nd, span = len(vdBoundaryDates), 3
	}
	ymd := vdBoundaryDates[rt.Pick("date", nd)]
	y, m, d := ymd[0], ymd[1], ymd[2]
	h, mi, s, ms := rt.IntRange("hour", 0, 23), rt.IntRange("minute", 0, 59), rt.IntRange("second", 0, 59), rt.IntRange("ms", 0, 999)
	src := vdPack(y, m, d, h, mi, s, ms)
	unit := []int{3600000, 60000, 1000, 1}[rt.Pick("unit", 4)]
	shift := rt.IntRange("days_away", -span, span)
	y2, m2, d2 := vdShiftDay(y, m, d, shift)
	lim := (span + 1) * vdMsPerDay / unit
	k := rt.IntRange("offset", -lim, lim)
	tod2 := vdTod(h, mi, s, ms) + k*unit - shift*vdMsPerDay
	rt.Assume(rt.And(0 <= tod2, tod2 < vdMsPerDay))
	var r SuDate
	var ok bool
	switch unit {
	case 3600000:
		r, ok = vdPlus(src, 0, 0, 0, k, 0, 0, 0)
	case 60000:
		r, ok = vdPlus(src, 0, 0, 0, 0, k, 0, 0)
	case 1000:
		r, ok = vdPlus(src, 0, 0, 0, 0, 0, k, 0)
	default:
		r, ok = vdPlus(src, 0, 0, 0, 0, 0, 0, k)
	}
	rt.Reach("computed")
	rt.Observe("ok", ok)
	inRange := rt.Or(y2 < 3000, rt.And(rt.And(y2 == 3000, m2 == 1), rt.And(d2 == 1, tod2 == 0)))
	rt.Assert("plustime/rejects-exactly-out-of-range", ok == inRange)
	if !ok {
		return
	}
	rt.Reach("in-range")
	rt.Observe("date", r.date)
	rt.Observe("time", r.time)
	rt.Assert("plustime/date", rt.And(rt.And(r.Year() == y2, r.Month() == m2), r.Day() == d2))
	rh, rmi, rs, rms := r.Hour(), r.Minute(), r.Second(), r.Millisecond()
	rt.Assert("plustime/time-fields-in-range", rt.And(rt.And(rh <= 23, rmi <= 59), rt.And(rs <= 59, rms <= 999)))
	rt.Assert("plustime/time-of-day", vdTod(rh, rmi, rs, rms) == tod2)
	rt.Assert("minusms/inverse-of-plus", rt.And(r.MinusMs(src) == int64(k*unit), src.MinusMs(r) == -int64(k*unit)))
}

// C33: adding years or months. The target year is an independent decomposed year y2 (so the offset
// is y2-y years, or 12*(y2-y)+(m2-m) months with m2 concrete); Gregorian normalisation: day d of
// month (y2,m2) if that month has it, otherwise the overflow runs into the following month.
//
//symgo:harness prop=C33 tier=quick arith=int timeout=300 ttimeout=1700 qtimeout=120000 shards=2 tshards=8 bounds=source_and_target_year_any_of_400..2999;years_offset:_source_month_in_{1,2,3,12}_(thorough_all);months_offset_=_12*(y2-y)+1_from_every_source_month_(thorough:_to_any_target_month) outside=month_offsets_to_other_target_months_in_quick;years_0..399;several_offset_fields_at_once
func VerifC33PlusYearsMonths() {
	vdEnable()
	y, m, d, h, mi, s, ms := vdSource()
	src := vdPack(y, m, d, h, mi, s, ms)
	c4 := rt.IntRange("t_c4", 1, 7)
	cb := rt.IntRange("t_cb", 0, 3)
	q := rt.IntRange("t_q", 0, 24)
	b := rt.IntRange("t_b", 0, 3)
	y2 := 400*c4 + 100*cb + 4*q + b
	m2 := m
	var r SuDate
	var ok bool
	if rt.Pick("field", 2) == 0 {
		if !rt.Thorough() && m > 3 && m < 12 {
			rt.Assume(false) // quick: years added to dates of January, February, March, December
		}
		r, ok = vdPlus(src, y2-y, 0, 0, 0, 0, 0, 0)
	} else {
		if rt.Thorough() {
			m2 = rt.Pick("t_month", 12) + 1
		} else {
			m2 = m%12 + 1 // quick: the following month (of any target year)
		}
		r, ok = vdPlus(src, 0, 12*(y2-y)+(m2-m), 0, 0, 0, 0, 0)
	}
	rt.Reach("computed")
	rt.Observe("ok", ok)
	// normalise day d of (y2, m2)
	y3, m3, d3 := y2, m2, d
	over := d > vdMonthLen(y2, m2)
	if over { // forks: at most 3 days of overflow (Feb 31 -> Mar 3), into the next month
		y3, m3, _ = vdWalk(y2, m2, 1)
		d3 = d - vdMonthLen(y2, m2)
	}
	rt.Observe("overflow", over)
	rt.Assert("plusym/rejects-exactly-out-of-range", ok == vdValid(y3, m3, d3, h, mi, s, ms))
	if !ok {
		return
	}
	rt.Reach("in-range")
	rt.Observe("date", r.date)
	rt.Assert("plusym/year", r.Year() == y3)
	rt.Assert("plusym/month", r.Month() == m3)
	rt.Assert("plusym/day", r.Day() == d3)
	rt.Assert("plusym/time-unchanged", r.time == src.time)
}

// C33: the julian day number is the reference day number plus a constant, so MinusDays is the
// difference of reference day numbers for any two dates (years 400..2999, concrete months).
//
//symgo:harness prop=C33 tier=quick arith=int timeout=200 ttimeout=900 qtimeout=120000 shards=1 tshards=4 bounds=julian_day_number:_any_valid_date_of_years_400..2999_(month_case-split);difference:_any_two_such_dates_with_months_in_{1,2,3,12}_(thorough_all_months) outside=years_0..399
func VerifC33MinusDays() {
	vdEnable()
	y, m, d, h, mi, s, ms := vdSource()
	a := vdPack(y, m, d, h, mi, s, ms)
	rt.Reach("computed")
	rt.Assert("jday/reference", int(a.jday()) == vdDays(y, m, d)+1721060) // JDN of 0000-01-01 (Gregorian) is 1721060
	rt.Observe("jday", a.jday())
	if !rt.Thorough() && m > 3 && m < 12 {
		return
	}
	c4 := rt.IntRange("t_c4", 1, 7)
	cb := rt.IntRange("t_cb", 0, 3)
	q := rt.IntRange("t_q", 0, 24)
	bb := rt.IntRange("t_b", 0, 3)
	y2 := 400*c4 + 100*cb + 4*q + bb
	m2 := []int{1, 2, 3, 12}[rt.Pick("t_month", 4)]
	if rt.Thorough() {
		m2 = rt.Pick("t_month12", 12) + 1
	}
	d2 := rt.IntRange("t_day", 1, 31)
	rt.Assume(rt.And(y2 <= 2999, d2 <= vdMonthLen(y2, m2)))
	b := vdPack(y2, m2, d2, rt.IntRange("t_hour", 0, 23), 0, 0, rt.IntRange("t_ms", 0, 999))
	rt.Reach("two-dates")
	n := b.MinusDays(a)
	rt.Observe("minusdays", n)
	rt.Assert("minusdays/reference-difference", n == vdDays(y2, m2, d2)-vdDays(y, m, d))
}

// vdAny: a symbolic valid date with a symbolic month (no calendar conversion involved).
func vdAny(p string) (y, m, d, h, mi, s, ms int) {
	y = rt.IntRange(p+"year", 0, 3000)
	m = rt.IntRange(p+"month", 1, 12)
	d = rt.IntRange(p+"day", 1, 31)
	h, mi, s, ms = rt.IntRange(p+"hour", 0, 23), rt.IntRange(p+"minute", 0, 59), rt.IntRange(p+"second", 0, 59), rt.IntRange(p+"ms", 0, 999)
	rt.Assume(vdValid(y, m, d, h, mi, s, ms))
	return
}

func vdSign(n int) int { return rt.IteInt(n < 0, -1, rt.IteInt(n > 0, 1, 0)) }

// vdChrono: -1/0/+1 as the first instant is before/at/after the second (field by field, most
// significant first; for valid dates that is chronological order), extra byte last.
func vdChrono(a, b [8]int) int {
	r := 0
	for i := 7; i >= 0; i-- {
		r = rt.IteInt(a[i] < b[i], -1, rt.IteInt(a[i] > b[i], 1, r))
	}
	return r
}

// C33: Compare orders dates (and timestamps: date, then the extra byte; a plain date counts as
// extra 0) chronologically; any two valid dates of years 0..3000.
//
//symgo:harness prop=C33 tier=quick arith=int timeout=200 qtimeout=120000 shards=1 bounds=any_two_valid_dates_of_years_0..3000,_each_optionally_a_timestamp_with_extra_1..255 outside=none
func VerifC33Compare() {
	vdEnable()
	y1, m1, d1, h1, mi1, s1, ms1 := vdAny("a_")
	y2, m2, d2, h2, mi2, s2, ms2 := vdAny("b_")
	a := vdPack(y1, m1, d1, h1, mi1, s1, ms1)
	b := vdPack(y2, m2, d2, h2, mi2, s2, ms2)
	e1, e2 := 0, 0
	var va, vb Value = a, b
	shape := rt.Pick("shape", 4) // date/date, ts/date, date/ts, ts/ts
	if shape == 1 || shape == 3 {
		e1 = rt.IntRange("a_extra", 1, 255)
		va = SuTimestamp{SuDate: a, extra: uint8(e1)}
	}
	if shape >= 2 {
		e2 = rt.IntRange("b_extra", 1, 255)
		vb = SuTimestamp{SuDate: b, extra: uint8(e2)}
	}
	c := va.Compare(vb)
	rt.Reach("computed")
	rt.Observe("cmp", c)
	want := vdChrono([8]int{y1, m1, d1, h1, mi1, s1, ms1, e1}, [8]int{y2, m2, d2, h2, mi2, s2, ms2, e2})
	rt.Assert("compare/chronological", vdSign(c) == want)
	rt.Assert("compare/antisymmetric", vdSign(vb.Compare(va)) == -want)
	rt.Assert("compare/equal-iff-same", (c == 0) == va.Equal(vb))
	if shape == 0 {
		// chronological also means: the later date has the larger (day number, ms of day)
		dd := b.MinusDays(a)
		rt.Assert("compare/agrees-with-minusdays", rt.Implies(dd > 0, c < 0) && rt.Implies(dd < 0, c > 0))
	}
}

// C33: a date's literal text parses back to the same date (all four text forms: date only,
// hhmm, hhmmss, hhmmssmmm) and a timestamp's text to the same timestamp. Concrete boundary
// dates, symbolic time of day (the text form depends on the time fields only).
//
//symgo:harness prop=C33 tier=quick arith=int timeout=300 qtimeout=120000 shards=2 tshards=4 bounds=2_concrete_dates_(thorough_27);any_time_of_day_in_each_of_the_text_forms;timestamp_extra_1..255 ttimeout=1200 outside=symbolic_date_digits;ParseDate/Format
func VerifC33Literal() {
	vdEnable()
	nd := 2
	if rt.Thorough() {
		nd = len(vdBoundaryDates)
	}
	ymd := vdBoundaryDates[rt.Pick("date", nd)]
	y, m, d := ymd[0], ymd[1], ymd[2]
	h, mi, s, ms := rt.IntRange("hour", 0, 23), rt.IntRange("minute", 0, 59), rt.IntRange("second", 0, 59), rt.IntRange("ms", 0, 999)
	switch rt.Pick("form", 5) {
	case 0:
		h, mi, s, ms = 0, 0, 0, 0
	case 1:
		s, ms = 0, 0
	case 2:
		ms = 0
	}
	x := vdPack(y, m, d, h, mi, s, ms)
	if rt.Pick("timestamp", 2) == 1 {
		ts := SuTimestamp{SuDate: x, extra: uint8(rt.IntRange("extra", 1, 255))}
		str := ts.String()
		rt.Reach("timestamp-text")
		rt.Observe("text", str)
		back := DateFromLiteral(str)
		rt.Assert("literal/timestamp-roundtrip", back == PackableValue(ts))
		return
	}
	str := x.String()
	rt.Reach("date-text")
	rt.Observe("text", str)
	back := DateFromLiteral(str)
	rt.Assert("literal/roundtrip", back == PackableValue(x))
	rt.Assert("literal/roundtrip-without-hash", DateFromLiteral(str[1:]) == PackableValue(x))
}

// C33: AddMs(k), 0 < k < 100, is the date k milliseconds later: on the fast path (no carry out
// of the millisecond field) and on the fallback path (carry).
//
//symgo:harness prop=C33 tier=quick arith=int timeout=300 qtimeout=120000 shards=1 tshards=4 bounds=any_valid_date_of_years_400..2998_(month_case-split);k_1..99 outside=years_0..399
func VerifC33AddMs() {
	vdEnable()
	y, m, d, h, mi, s, ms := vdSource()
	rt.Assume(y < 2999) // the result stays in range
	src := vdPack(y, m, d, h, mi, s, ms)
	k := rt.IntRange("k", 1, 99)
	r := src.AddMs(k)
	rt.Reach("computed")
	rt.Observe("date", r.date)
	rt.Observe("time", r.time)
	if ms+k < 1000 {
		rt.Reach("fast-path")
		rt.Assert("addms/no-carry", r == vdPack(y, m, d, h, mi, s, ms+k))
		return
	}
	rt.Reach("carry-path")
	want, _ := vdPlus(src, 0, 0, 0, 0, 0, 0, k)
	// AddMs(1) is what the timestamp code relies on; k > 1 with a carry has its own label
	if k == 1 {
		rt.Assert("addms/carry-by-one", r == want)
	} else {
		rt.Assert("addms/carry-adds-all-k-ms", r == want)
	}
}
