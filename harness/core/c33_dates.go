package core

import (
	rt "github.com/apmckinlay/gsuneido/zzverifrt"
)

// ---- independent reference calendar (proleptic Gregorian), plain / and %, years >= 0 ----

// vdLeap: Gregorian leap year rule (branch-free).
func vdLeap(y int) bool {
	return rt.And(y%4 == 0, rt.Or(y%100 != 0, y%400 == 0))
}

// vdCum: days before the first of month m (1..12) in a non-leap year.
func vdCum(m int) int {
	return rt.IteInt(m <= 1, 0, rt.IteInt(m == 2, 31, rt.IteInt(m == 3, 59, rt.IteInt(m == 4, 90,
		rt.IteInt(m == 5, 120, rt.IteInt(m == 6, 151, rt.IteInt(m == 7, 181, rt.IteInt(m == 8, 212,
			rt.IteInt(m == 9, 243, rt.IteInt(m == 10, 273, rt.IteInt(m == 11, 304, 334)))))))))))
}

// vdMonthLen: days in month m (1..12) of year y.
func vdMonthLen(y, m int) int {
	return rt.IteInt(m == 2, rt.IteInt(vdLeap(y), 29, 28),
		rt.IteInt(rt.Or(rt.Or(m == 4, m == 6), rt.Or(m == 9, m == 11)), 30, 31))
}

// vdDays: day number of y-m-d counted from 0000-01-01 = 0 (d may lie outside the month:
// the count simply continues). Leap years in [0,y) = ceil(y/4) - ceil(y/100) + ceil(y/400).
func vdDays(y, m, d int) int {
	return 365*y + (y+3)/4 - (y+99)/100 + (y+399)/400 +
		vdCum(m) + rt.IteInt(rt.And(vdLeap(y), m > 2), 1, 0) + d - 1
}

// vdValid: the Gregorian dates gSuneido represents: years 0..2999, plus exactly 3000-01-01 00:00.
func vdValid(y, m, d, h, mi, s, ms int) bool {
	fields := rt.And(rt.And(rt.And(0 <= y, y <= 3000), rt.And(1 <= m, m <= 12)),
		rt.And(rt.And(rt.And(0 <= h, h <= 23), rt.And(0 <= mi, mi <= 59)),
			rt.And(rt.And(0 <= s, s <= 59), rt.And(0 <= ms, ms <= 999))))
	dom := rt.And(1 <= d, d <= vdMonthLen(y, m))
	end := rt.Or(y < 3000, rt.And(rt.And(m == 1, d == 1), rt.And(rt.And(h == 0, mi == 0), rt.And(s == 0, ms == 0))))
	return rt.And(rt.And(fields, dom), end)
}

const vdMsPerDay = 86400000

func vdTod(h, mi, s, ms int) int { return ((h*60+mi)*60+s)*1000 + ms }

// vdPack: the documented representation (21 bits year, 4 month, 5 day / 10 hour, 6 min, 6 sec, 10 ms).
func vdPack(y, m, d, h, mi, s, ms int) SuDate {
	return SuDate{date: uint32(y*512 + m*32 + d), time: uint32(h*4194304 + mi*65536 + s*1024 + ms)}
}

// vdCentury: the centuries a harness case-splits over (quick: 1900s and 2000s).
func vdCentury(name string) int {
	if rt.Thorough() {
		return rt.Pick(name, 30)
	}
	return 19 + rt.Pick(name, 2)
}

// C33: NewDate accepts exactly the Gregorian dates of the range, builds the documented
// bit-packed representation, and the accessors return the fields.
//
//symgo:harness prop=C33 tier=quick arith=int timeout=300 ttimeout=1500 qtimeout=20000 shards=2 tshards=8 bounds=probe
func VerifC33New() {
	c := vdCentury("century")
	m := rt.Pick("month", 14) // 0 and 13 are invalid months
	yy := rt.IntRange("yy", 0, 99)
	y := c*100 + yy
	d := rt.IntRange("day", -1, 33)
	h := rt.IntRange("hour", -1, 25)
	mi := rt.IntRange("minute", -1, 61)
	s := rt.IntRange("second", -1, 61)
	ms := rt.IntRange("ms", -1, 1001)
	x := NewDate(y, m, d, h, mi, s, ms)
	rt.Reach("computed")
	isNil := x == NilDate
	rt.Observe("nil", isNil)
	want := vdValid(y, m, d, h, mi, s, ms)
	rt.Assert("new/accepts-exactly-gregorian", isNil != want)
	if !isNil {
		rt.Reach("valid")
		rt.Assert("new/representation", x == vdPack(y, m, d, h, mi, s, ms))
		rt.Assert("new/accessors", rt.And(rt.And(rt.And(x.Year() == y, x.Month() == m), rt.And(x.Day() == d, x.Hour() == h)),
			rt.And(rt.And(x.Minute() == mi, x.Second() == s), x.Millisecond() == ms)))
		rt.Observe("date", x.date)
		rt.Observe("time", x.time)
	}
}
