package core

// Exported test hooks for the C34 harnesses (package db19): access to the unexported client-side
// timestamp batching state of thread.go and to the raw words of SuDate / SuTimestamp.
// Nothing here is used by other harnesses.

// TsVerifState is one client process's batching state (the globals tsCount, tsLimit, tsLast).
type TsVerifState struct {
	Count, Limit int
	Last         SuDate
}

// TsVerifGet / TsVerifSet save and restore the globals, so that one test process can stand for
// several client processes (each with its own copy of the globals).
func TsVerifGet() TsVerifState { return TsVerifState{tsCount, tsLimit, tsLast} }

func TsVerifSet(s TsVerifState) { tsCount, tsLimit, tsLast = s.Count, s.Limit, s.Last }

// TsVerifExpireStep is the body of the loop of tsExpire (thread.go), verbatim; the goroutine
// itself (for { time.Sleep(1 * time.Second); <this> }) is not run by the sequential harness.
func TsVerifExpireStep() {
	tsLock.Lock()
	tsCount = tsLimit + 1
	tsLock.Unlock()
}

// TsVerifMkDate builds a SuDate from its two raw words without validation (the harness Assumes
// the field ranges).
func TsVerifMkDate(date, time uint32) SuDate { return SuDate{date: date, time: time} }

// TsVerifParts splits a value handed out by Timestamp into the raw date word, the raw time word
// and the extra byte (0 for a plain SuDate). ok is false for any other type.
func TsVerifParts(v any) (date, time uint32, extra int, ok bool) {
	switch d := v.(type) {
	case SuDate:
		return d.date, d.time, 0, true
	case SuTimestamp:
		return d.date, d.time, int(d.extra), true
	}
	return 0, 0, 0, false
}

// TsVerifMkTimestamp builds the timestamp with an extra byte that a client hands out.
func TsVerifMkTimestamp(d SuDate, extra uint8) PackableValue {
	return SuTimestamp{SuDate: d, extra: extra}
}
