package ranges

import rt "github.com/apmckinlay/gsuneido/zzverifrt"

func vrhist(n int) {
	var rs Ranges
	from := make([]string, n)
	to := make([]string, n)
	total := 0
	for i := 0; i < n; i++ {
		from[i] = rt.Str("f"+string(rune('0'+i)), 1)
		to[i] = rt.Str("t"+string(rune('0'+i)), 1)
		rt.Assume(from[i] <= to[i])
		covered := false // already inside one earlier range?  (then Insert must report Existed... or be absorbed)
		_ = covered
		r := rs.Insert(from[i], to[i])
		rt.Assert("ranges/insert-not-full", r <= 1)
		total += r
	}
	rt.Reach("built")
	p := rt.Str("p", 1)
	want := false
	for i := 0; i < n; i++ {
		want = rt.Or(want, rt.And(from[i] <= p, p <= to[i]))
	}
	rt.Assert("ranges/contains", rs.Contains(p) == want)
	// structure: ranges sorted, disjoint (not even touching), count == sum of Insert results
	cnt := 0
	prevTo, first := "", true
	leaves := []*leafNode{&rs.leaf}
	if rs.tree != nil {
		leaves = leaves[:0]
		for ti := 0; ti < rs.tree.size; ti++ {
			lf := rs.tree.slots[ti].leaf
			rt.Assert("ranges/leaf-nonempty", lf.size > 0)
			if ti > 0 {
				rt.Assert("ranges/separator", rs.tree.slots[ti].val == lf.slots[0].from)
			}
			leaves = append(leaves, lf)
		}
	}
	for _, lf := range leaves {
		for li := 0; li < lf.size; li++ {
			s := lf.slots[li]
			rt.Assert("ranges/slot-ordered", s.from <= s.to)
			if !first {
				rt.Assert("ranges/disjoint-sorted", prevTo < s.from)
			}
			prevTo, first = s.to, false
			cnt++
		}
	}
	rt.Assert("ranges/count-equals-insert-results", cnt == total)
}

var vshapes = [][]int{{0}, {1}, {3}, {4}, {2, 2}, {4, 2}, {2, 4}, {4, 4}, {1, 1, 1}, {4, 4, 4, 4}}

// C39 ranges, one step from an arbitrary valid range set: pre-state built directly (shapes from a
// list: empty/partly filled/full leaves, 1..4 leaves, a full tree), ranges arbitrary but sorted
// and disjoint (the invariant: from_i <= to_i < from_i+1); one Insert of an arbitrary range;
// afterwards Contains(p) equals the interval-union model, the invariant holds, and the result
// code equals the change in the number of stored ranges (or Full, with nothing lost).
//
//symgo:harness prop=C39 tier=quick shards=16 timeout=400 ttimeout=1700 shrink=util/ranges/ranges.go:nodeSize=4 bounds=pre-state_shapes_{0},{3},{4},{2,2},{4,2},{4,4,4,4}_(thorough:_10_shapes)_of_ranges_per_leaf;1-byte_endpoints;one_insert;nodeSize_shrunk_to_4
func VerifC39RangesStep() {
	shapes := vshapes
	if !rt.Thorough() {
		shapes = [][]int{{0}, {3}, {4}, {2, 2}, {4, 2}, {4, 4, 4, 4}}
	}
	shape := shapes[rt.Pick("shape", len(shapes))]
	var rs Ranges
	var from, to []string
	prev := ""
	for li, sz := range shape {
		lf := &rs.leaf
		if li > 0 {
			lf = &leafNode{}
		}
		for i := 0; i < sz; i++ {
			nm := string(rune('a' + len(from)))
			f, t := rt.Str("f"+nm, 1), rt.Str("t"+nm, 1)
			rt.Assume(f <= t)
			if len(from) > 0 {
				rt.Assume(prev < f)
			}
			prev = t
			from, to = append(from, f), append(to, t)
			lf.slots[i] = leafSlot{from: f, to: t}
		}
		lf.size = sz
		if len(shape) > 1 {
			if rs.tree == nil {
				rs.tree = &treeNode{}
			}
			rs.tree.slots[li].leaf = lf
			if li > 0 {
				rs.tree.slots[li].val = lf.slots[0].from
			}
			rs.tree.size++
		}
	}
	nf, nt := rt.Str("nf", 1), rt.Str("nt", 1)
	rt.Assume(nf <= nt)
	r := rs.Insert(nf, nt)
	rt.Reach("inserted")
	inserted := r != Full
	p := rt.Str("p", 1)
	want := rt.And(inserted, rt.And(nf <= p, p <= nt))
	for i := range from {
		want = rt.Or(want, rt.And(from[i] <= p, p <= to[i]))
	}
	rt.Assert("ranges/contains", rs.Contains(p) == want)
	if !inserted {
		rt.Assert("ranges/full-only-at-capacity", rs.tree != nil && rs.tree.size == nodeSize)
	}
	cnt := vcheckInv(&rs)
	if inserted {
		rt.Assert("ranges/result-is-count-delta", cnt == len(from)+r)
	}
}

func vcheckInv(rs *Ranges) int {
	cnt := 0
	prevTo, first := "", true
	leaves := []*leafNode{&rs.leaf}
	if rs.tree != nil {
		leaves = leaves[:0]
		for ti := 0; ti < rs.tree.size; ti++ {
			lf := rs.tree.slots[ti].leaf
			rt.Assert("ranges/leaf-nonempty", lf.size > 0 && lf.size <= nodeSize)
			if ti > 0 {
				rt.Assert("ranges/separator", rs.tree.slots[ti].val == lf.slots[0].from)
			}
			leaves = append(leaves, lf)
		}
	}
	for _, lf := range leaves {
		for li := 0; li < lf.size; li++ {
			s := lf.slots[li]
			rt.Assert("ranges/slot-ordered", s.from <= s.to)
			if !first {
				rt.Assert("ranges/disjoint-sorted", prevTo < s.from)
			}
			prevTo, first = s.to, false
			cnt++
		}
	}
	return cnt
}

// C39 ranges: every history of 3 inserts (thorough 5) of arbitrary 1-byte ranges from empty.
//
//symgo:harness prop=C39 tier=quick shards=8 timeout=400 ttimeout=1700 shrink=util/ranges/ranges.go:nodeSize=4 bounds=histories_of_3_inserts(thorough_5);1-byte_endpoints;nodeSize_shrunk_to_4
func VerifC39RangesSplit() {
	n := 3
	if rt.Thorough() {
		n = 5
	}
	vrhist(n)
}

// C39 ranges with the real node size: histories of 3 inserts.
//
//symgo:harness prop=C39 tier=quick shards=4 timeout=300 bounds=histories_of_3_inserts;1-byte_endpoints;real_nodeSize_128
func VerifC39RangesReal() {
	vrhist(3)
	var nilrs *Ranges
	rt.Assert("ranges/nil", !nilrs.Contains("a"))
}
