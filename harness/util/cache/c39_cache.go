package cache

import rt "github.com/apmckinlay/gsuneido/zzverifrt"

// C39 cache: a cache is transparent - Get(k) always equals getter(k), also when the getter
// panicked for that key before (the failure must not be cached as a hit on stale data). Scripts of
// 4 (thorough 10, beyond the 8 slots) Gets with arbitrary 1-byte keys, one of which makes the
// getter panic every time.
//
//symgo:harness prop=C39 tier=quick shards=4 timeout=300 bounds=scripts_of_4_gets(thorough_10);arbitrary_1-byte_keys;one_arbitrary_key_for_which_the_getter_panics
func VerifC39Cache() {
	bad := rt.Byte("bad")
	calls := 0
	c := New(func(k byte) int {
		calls++
		if k == bad {
			panic("getter failed")
		}
		return int(k)*3 + 1
	})
	n := 4
	if rt.Thorough() {
		n = 10
	}
	for i := 0; i < n; i++ {
		k := rt.Byte("k" + string(rune('0'+i)))
		var v int
		before := calls
		panicked := rt.Try(func() { v = c.Get(k) })
		if k == bad {
			rt.Assert("cache/failure-not-cached", panicked && calls == before+1)
		} else {
			rt.Assert("cache/transparent", !panicked && v == int(k)*3+1)
		}
	}
	rt.Reach("done")
}
