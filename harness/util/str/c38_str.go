package str

import (
	"strings"

	rt "github.com/apmckinlay/gsuneido/zzverifrt"
)

func vlowc(c byte) byte {
	if 'A' <= c && c <= 'Z' {
		return c + 32
	}
	return c
}
func vupc(c byte) byte {
	if 'a' <= c && c <= 'z' {
		return c - 32
	}
	return c
}
func vmap(s string, f func(byte) byte) string {
	b := make([]byte, len(s))
	for i := 0; i < len(s); i++ {
		b[i] = f(s[i])
	}
	return string(b)
}
func vsgn(n int) int {
	if n < 0 {
		return -1
	} else if n > 0 {
		return 1
	}
	return 0
}

// C38 case folding of one string: ToLower/ToUpper/Capitalize/UnCapitalize per byte.
//
//symgo:harness prop=C38 tier=quick shards=4 timeout=300 bounds=strings_of_0..3_arbitrary_bytes(thorough_4)
func VerifC38Case1() {
	n := 4
	if rt.Thorough() {
		n = 5
	}
	a := rt.Str("a", rt.Pick("alen", n))
	rt.Assert("case/tolower", ToLower(a) == vmap(a, vlowc))
	rt.Assert("case/toupper", ToUpper(a) == vmap(a, vupc))
	rt.Assert("case/capitalize", Capitalize(a) == vcap(a, vupc))
	rt.Assert("case/uncapitalize", UnCapitalize(a) == vcap(a, vlowc))
	rt.Assert("case/capitalized", Capitalized(a) == (len(a) > 0 && 'A' <= a[0] && a[0] <= 'Z'))
	rt.Reach("done")
}

// C38 case-insensitive comparison: CmpLower == Compare of the lowered strings; EqualCI ==
// equality of the lowered strings; common prefix helpers.
//
//symgo:harness prop=C38 tier=quick shards=8 timeout=300 ttimeout=1700 bounds=two_strings_of_0..2_arbitrary_bytes(thorough_0..3)
func VerifC38Case2() {
	n := 3
	if rt.Thorough() {
		n = 4
	}
	a := rt.Str("a", rt.Pick("alen", n))
	b := rt.Str("b", rt.Pick("blen", n))
	la, lb := vmap(a, vlowc), vmap(b, vlowc)
	rt.Assert("case/cmplower", CmpLower(a, b) == vsgn(strings.Compare(la, lb)))
	rt.Assert("case/equalci", EqualCI(a, b) == (la == lb))
	rt.Assert("case/commonprefix", CommonPrefixLen(a, b) == vcpl(a, b) && CommonPrefix(a, b) == a[:vcpl(a, b)])
	rt.Assert("case/hasprefix", HasPrefix(a, b) == (len(b) <= len(a) && a[:min(len(a), len(b))] == b))
	rt.Reach("done")
}

func vcap(s string, f func(byte) byte) string {
	if s == "" {
		return s
	}
	return string([]byte{f(s[0])}) + s[1:]
}

func vcpl(a, b string) int {
	n := 0
	for n < len(a) && n < len(b) && a[n] == b[n] {
		n++
	}
	return n
}

// first / last occurrence of sub in s by brute force (-1 if none)
func vfind(s, sub string, last bool) int {
	r := -1
	for i := 0; i+len(sub) <= len(s); i++ {
		if s[i:i+len(sub)] == sub {
			if !last {
				return i
			}
			r = i
		}
	}
	return r
}

// C38 splitting helpers: Before/After First/Last, Cut, Subi/Subn against brute-force search.
//
//symgo:harness prop=C38 tier=quick shards=4 timeout=300 bounds=s_0..3_bytes;sub_0..2_bytes
func VerifC38Cut() {
	s := rt.Str("s", rt.Pick("slen", 4))
	sub := rt.Str("sub", rt.Pick("sublen", 3))
	f, l := vfind(s, sub, false), vfind(s, sub, true)
	if f < 0 {
		rt.Assert("cut/notfound", BeforeFirst(s, sub) == s && AfterFirst(s, sub) == s && BeforeLast(s, sub) == s && AfterLast(s, sub) == s)
	} else {
		rt.Assert("cut/beforefirst", BeforeFirst(s, sub) == s[:f])
		rt.Assert("cut/afterfirst", AfterFirst(s, sub) == s[f+len(sub):])
		rt.Assert("cut/beforelast", BeforeLast(s, sub) == s[:l])
		rt.Assert("cut/afterlast", AfterLast(s, sub) == s[l+len(sub):])
	}
	c := rt.Byte("c")
	bf, af := Cut(s, c)
	ci := vfind(s, string([]byte{c}), false)
	if ci < 0 {
		rt.Assert("cut/cut-none", bf == s && af == "")
	} else {
		rt.Assert("cut/cut", bf == s[:ci] && af == s[ci+1:])
	}
	i, n := rt.Pick("i", 5), rt.Pick("n", 5)
	lo, hi := min(i, len(s)), min(i+n, len(s))
	rt.Assert("cut/subn", Subn(s, i, n) == s[lo:hi])
	j := i + n
	rt.Assert("cut/subi", Subi(s, i, j) == s[lo:min(j, len(s))])
	rt.Reach("done")
}

// C38 split/join: Join(sep, Split(s, sep)) == s; the pieces contain no separator and there is
// one more piece than (non-overlapping, leftmost) separators. Join with delimiters wraps.
//
//symgo:harness prop=C38 tier=quick shards=4 timeout=300 bounds=s_0..4_bytes;sep_1..2_bytes_not_starting_with_a_bracket
func VerifC38SplitJoin() {
	s := rt.Str("s", rt.Pick("slen", 5))
	sep := rt.Str("sep", rt.Pick("seplen", 2)+1)
	rt.Assume(sep[0] != '(' && sep[0] != '{' && sep[0] != '[')
	parts := Split(s, sep)
	rt.Reach("split")
	if s == "" {
		rt.Assert("split/empty-nil", parts == nil)
	} else {
		cnt := 0
		for i := 0; i+len(sep) <= len(s); {
			if s[i:i+len(sep)] == sep {
				cnt++
				i += len(sep)
			} else {
				i++
			}
		}
		rt.Assert("split/count", len(parts) == cnt+1)
		for _, p := range parts {
			rt.Assert("split/no-sep-inside", vfind(p, sep, false) < 0)
		}
	}
	rt.Assert("split/join-inverse", Join(sep, parts) == s)
	rt.Assert("join/delims", Join("("+sep+")", parts) == "("+s+")")
}
