package hamt

import (
	"github.com/apmckinlay/gsuneido/db19/stor"
	. "github.com/apmckinlay/gsuneido/util/bits"
	rt "github.com/apmckinlay/gsuneido/zzverifrt"
)

// vItem is the harness item type: small concrete keys, an arbitrary one-byte value, and the
// bookkeeping fields the chain's client (db19/meta) keeps per item (tombstone, lastMod, created).
// Hash(key) is an arbitrary value restricted to a few digits per trie level (see vhashes).
type vItem struct {
	key     int
	val     int // 0..255
	tomb    bool
	lastMod int
	created int
}

const vmaxKeys = 4

var vhash [vmaxKeys]uint64
var vconc [vmaxKeys]bool

func (f *vItem) Key() int          { return f.key }
func (*vItem) Hash(key int) uint64 {
	// the digits drive only control flow: fork over the feasible hash values at the first use
	if !vconc[key] {
		vhash[key] = uint64(rt.Concrete(int(vhash[key])))
		vconc[key] = true
	}
	return vhash[key]
}
func (f *vItem) StorSize() int     { return 3 }
func (f *vItem) Cksum() uint32     { return uint32(f.key*256 + f.val + 1) }
func (f *vItem) IsTomb() bool      { return f.tomb }
func (f *vItem) LastMod() int      { return f.lastMod }
func (f *vItem) SetLastMod(m int)  { f.lastMod = m }
func (f *vItem) Write(w *stor.Writer) {
	t := 0
	if f.tomb {
		t = 1
	}
	w.Put1(f.key).Put1(f.val).Put1(t)
}

func vread(_ *stor.Stor, r *stor.Reader) *vItem {
	it := &vItem{}
	it.key = r.Get1()
	it.val = r.Get1()
	it.tomb = r.Get1() == 1
	return it
}

// vhashes gives every key an arbitrary hash whose 5-bit digit at trie level levels[i] (0..6) is
// an arbitrary value below nds[i]; all other hash bits are zero for all keys. So keys may share any
// prefix of digits, collide completely (overflow nodes) or not at all.
func vhashes(nk int, levels, nds []int) {
	for k := 0; k < nk; k++ {
		h := uint64(0)
		for i, lv := range levels {
			d := uint64(rt.Choice("d"+string(rune('0'+k))+"l"+string(rune('0'+lv)), nds[i]))
			h |= d << (5 * lv)
		}
		vhash[k] = h
		vconc[k] = false
	}
}

// vmodel is the independent model: an association array (presence is concrete per path).
type vmodel struct {
	has [vmaxKeys]bool
	val [vmaxKeys]int
}

// vsame: the table ht (as seen through Get and All) is exactly the map m.
func vsame(ht Hamt[int, *vItem], m vmodel, nk int) {
	for j := 0; j < nk; j++ {
		it, ok := ht.Get(j)
		rt.Assert("hamt/get-present", ok == m.has[j])
		if ok {
			rt.Assert("hamt/get-value", rt.And(it.key == j, it.val == m.val[j]))
		}
	}
	n := 0
	var seen [vmaxKeys]bool
	for it := range ht.All() {
		n++
		rt.Assert("hamt/all-member", rt.And(m.has[it.key], it.val == m.val[it.key]))
		rt.Assert("hamt/all-duplicate", !seen[it.key])
		seen[it.key] = true
	}
	cnt := 0
	for j := 0; j < nk; j++ {
		if m.has[j] {
			cnt++
		}
	}
	rt.Assert("hamt/all-count", n == cnt)
}

type vversion struct {
	ht Hamt[int, *vItem]
	m  vmodel
}

// vmap runs a script of nops operations from Put / Delete / Freeze+Mutable over nk keys against an
// association-array model; after every operation the current table and every version frozen so
// far equal their models under Get and All. Frozen tables refuse Put and Delete.
// Symmetry: the keys' hashes are arbitrary and identically constrained, so keys are numbered in
// order of first use (an operation names a key used before or the next fresh one); lookups probe
// every key used so far and one fresh key (all unused keys are interchangeable).
func vmap(nk, nops int) { vmapFrom(nk, 0, nops) }

// vmapFrom is vmap after a prologue: the first pre keys are put (arbitrary values) and the table
// is frozen once (a version that must stay intact) before the script starts.
func vmapFrom(nk, pre, nops int) {
	ht := Hamt[int, *vItem]{}.Mutable()
	var m vmodel
	var versions []vversion
	used := 0
	for k := 0; k < pre; k++ {
		v := int(rt.Byte("pv"))
		ht.Put(&vItem{key: k, val: v})
		m.has[k], m.val[k] = true, v
		used++
	}
	if pre > 0 {
		fz := ht.Freeze()
		versions = append(versions, vversion{fz, m})
		ht = fz.Mutable()
	}
	for step := 0; step < nops; step++ {
		nkeys := min(used+1, nk) // keys used so far and one fresh key
		op := rt.Pick("op", 2*nkeys+1)
		k := op / 2
		switch {
		case op == 2*nkeys:
			fz := ht.Freeze()
			rt.Assert("hamt/frozen-refuses-put", rt.Try(func() { fz.Put(&vItem{key: 0, val: 1}) }))
			rt.Assert("hamt/frozen-refuses-delete", rt.Try(func() { fz.Delete(0) }))
			versions = append(versions, vversion{fz, m})
			ht = fz.Mutable()
		case op%2 == 0:
			v := int(rt.Byte("v"))
			ht.Put(&vItem{key: k, val: v})
			m.has[k], m.val[k] = true, v
		default:
			got := ht.Delete(k)
			rt.Assert("hamt/delete-result", got == m.has[k])
			m.has[k] = false
		}
		if op < 2*nkeys && k == used {
			used++
		}
		np := min(used+1, nk)
		vsame(ht, m, np)
		for _, ver := range versions {
			vsame(ver.ht, ver.m, np)
		}
	}
	rt.Reach("script-done")
	n := 0
	for j := 0; j < nk; j++ {
		if m.has[j] {
			it, _ := ht.Get(j)
			n += it.val + 1
		}
	}
	rt.Observe("content", n)
	rt.Observe("versions", len(versions))
}

// C15 K1b: from a frozen table that already holds 3 keys (colliding hash prefixes, so that one
// key sits in a node above a child holding the other two): 2 further operations (thorough 3); the
// frozen version and every later one stay intact (path copying on delete/pull-up and put).
//
//symgo:harness prop=C15 tier=quick shards=8 tshards=16 timeout=400 ttimeout=1700 bounds=3_keys_already_present_and_frozen;then_scripts_of_2_ops(thorough_3);hash_digits_in_{0,1}_at_trie_levels_0_and_1
func VerifC15MapAfter3() {
	vhashes(3, []int{0, 1}, []int{2, 2})
	n := 2
	if rt.Thorough() {
		n = 3
	}
	vmapFrom(3, 3, n)
}

// C15 K1: the generic persistent hash trie is a map, and older versions never change (see vmap).
//
//symgo:harness prop=C15 tier=quick shards=4 timeout=400 bounds=3_keys;scripts_of_3_ops_from_Put/Delete/Freeze+Mutable;hash_digits_in_{0,1}_at_trie_levels_0_and_1,_other_hash_bits_0_(partial_and_full_collisions,_overflow_nodes);arbitrary_one-byte_values outside=other_hash_digits;more_keys;longer_scripts;key_types_other_than_int
func VerifC15Map() {
	vhashes(3, []int{0, 1}, []int{2, 2})
	vmap(3, 3)
}

// C15 K1, wider: three distinct digits at the root level (insertion in the middle of a node,
// pull-up of the highest slot), scripts of 4 operations.
//
//symgo:harness prop=C15 tier=thorough shards=16 timeout=1700 bounds=3_keys;scripts_of_4_ops;hash_digits_in_{0,1,2}_at_level_0_and_{0,1}_at_level_1,_other_hash_bits_0;arbitrary_one-byte_values outside=other_hash_digits;more_keys;longer_scripts
func VerifC15MapWide() {
	vhashes(3, []int{0, 1}, []int{3, 2})
	vmap(3, 4)
}

// C15 K1, deeper: keys that collide at the root separate only at the last trie level (6) or not
// at all (overflow node below level 6), scripts of 4 operations.
//
//symgo:harness prop=C15 tier=thorough shards=16 timeout=1700 bounds=3_keys;scripts_of_4_ops;hash_digits_in_{0,1}_at_levels_0_and_6,_other_hash_bits_0;arbitrary_one-byte_values outside=other_hash_digits;more_keys;longer_scripts
func VerifC15MapDeep() {
	vhashes(3, []int{0, 6}, []int{2, 2})
	vmap(3, 4)
}

// C15 K1, more keys: 4 keys, scripts of 4 operations.
//
//symgo:harness prop=C15 tier=thorough shards=16 timeout=1700 bounds=4_keys;scripts_of_4_ops;hash_digits_in_{0,1}_at_levels_0_and_1,_other_hash_bits_0;arbitrary_one-byte_values outside=other_hash_digits;more_keys;longer_scripts
func VerifC15Map4() {
	vhashes(4, []int{0, 1}, []int{2, 2})
	vmap(4, 4)
}

//-------------------------------------------------------------------
// K2: persist cycles

type vchain = Chain[int, *vItem]

// The chain's client protocol, as in db19/meta (Put/PutNew/Drop): every stored item carries
// lastMod = the chain's clock; an item put where the table has no entry at all records
// created = clock; dropping an item created in the current clock (created != 0) deletes it from
// the trie, otherwise a tombstone is put in its place.
func vput(c *vchain, k, v int) {
	it := &vItem{key: k, val: v, lastMod: c.Clock}
	if old, ok := c.Get(k); !ok {
		it.created = c.Clock
	} else if !old.tomb {
		it.created = old.created
	}
	mu := c.Hamt.Mutable()
	mu.Put(it)
	c.Hamt = mu.Freeze()
}

func vdrop(c *vchain, k int) {
	it := c.MustGet(k)
	mu := c.Hamt.Mutable()
	if it.created != 0 && it.created == c.Clock {
		mu.Delete(k)
	} else {
		mu.Put(&vItem{key: k, tomb: true, lastMod: c.Clock})
	}
	c.Hamt = mu.Freeze()
}

// vnmerge is the independent model of the merge schedule: with fewer than 7 chunks merge as many
// chunks as the clock has trailing one bits (at most all of them), with 7 or more merge all.
func vnmerge(no, clock int) int {
	if no >= 7 {
		return no
	}
	t := 0
	for ; clock&1 == 1; clock >>= 1 {
		t++
	}
	return min(no, t)
}

// vlive: the live (non-tombstone) entries of ht are exactly the map m.
func vlive(ht Hamt[int, *vItem], m vmodel, nk int, where string) {
	for k := 0; k < nk; k++ {
		it, ok := ht.Get(k)
		live := ok && !it.tomb
		if live && !m.has[k] {
			rt.Assert("chain/deleted-entry-live-"+where, false)
		}
		if !live && m.has[k] {
			rt.Assert("chain/entry-lost-"+where, false)
		}
		if live && m.has[k] {
			rt.Assert("chain/value-"+where, rt.And(it.key == k, it.val == m.val[k]))
		}
	}
	n, cnt := 0, 0
	for it := range ht.All() {
		if !it.tomb {
			n++
		}
	}
	for k := 0; k < nk; k++ {
		if m.has[k] {
			cnt++
		}
	}
	rt.Assert("chain/all-"+where, n == cnt)
}

// vpersist = WriteChain + every check on the new chain and on what ReadChain reads back.
func vpersist(st *stor.Stor, c *vchain, m vmodel, nk int) (uint64, vchain) {
	no := len(c.Offs)
	offs0 := append([]uint64(nil), c.Offs...)
	ages0 := append([]int(nil), c.Ages...)
	off, c2 := c.WriteChain(st)
	// the original chain is not modified
	same := len(c.Offs) == no && len(c.Ages) == no
	for i := 0; same && i < no; i++ {
		same = c.Offs[i] == offs0[i] && c.Ages[i] == ages0[i]
	}
	rt.Assert("chain/original-modified", same)
	n2 := len(c2.Offs)
	rt.Assert("chain/offs-ages-parallel", len(c2.Ages) == n2)
	if c2.Clock == c.Clock {
		// nothing written: the chain is returned unchanged
		rt.Reach("nothing-written")
		unch := n2 == no
		for i := 0; unch && i < no; i++ {
			unch = c2.Offs[i] == offs0[i] && c2.Ages[i] == ages0[i]
		}
		rt.Assert("chain/unwritten-unchanged", unch)
	} else {
		rt.Reach("written")
		merge := vnmerge(no, c.Clock)
		keep := no - merge
		rt.Assert("chain/clock", c2.Clock == c.Clock+1)
		nlive := 0
		for k := 0; k < nk; k++ {
			if m.has[k] {
				nlive++
			}
		}
		emptied := n2 == 0 && keep == 0 && nlive == 0
		if emptied {
			// a full flatten with no live entry left: every old chunk is abandoned, the chain is empty
			rt.Reach("flattened-to-empty")
		}
		rt.Assert("chain/length", emptied || n2 == keep+1)
		if no >= 7 {
			rt.Reach("flatten-at-maxchain")
			rt.Assert("chain/flatten-at-maxchain", emptied || n2 == 1)
		}
		pre := n2 == keep+1
		for i := 0; pre && i < keep; i++ {
			pre = c2.Offs[i] == offs0[i] && c2.Ages[i] == ages0[i]
		}
		rt.Assert("chain/kept-chunks", pre || emptied)
		if pre {
			oldest := c.Clock
			if merge > 0 {
				oldest = ages0[no-merge]
			}
			rt.Assert("chain/new-age", c2.Ages[keep] == oldest)
		}
	}
	if n2 == 0 {
		rt.Assert("chain/offset", off == 0)
	} else {
		rt.Assert("chain/offset", off != 0 && off == c2.Offs[n2-1])
	}
	inv := n2 <= 7
	for i := 0; i < n2 && i < len(c2.Ages); i++ {
		if i > 0 {
			inv = inv && c2.Ages[i-1] < c2.Ages[i] && c2.Offs[i-1] < c2.Offs[i]
		}
		inv = inv && c2.Ages[i] < c2.Clock
	}
	rt.Assert("chain/invariant", inv)
	vlive(c2.Hamt, m, nk, "in-memory")

	// read back
	rc := ReadChain(st, off, vread)
	vlive(rc.Hamt, m, nk, "after-reload")
	sameOffs := len(rc.Offs) == n2 && len(rc.Ages) == n2 && rc.Clock == 0
	for i := 0; sameOffs && i < n2; i++ {
		sameOffs = rc.Offs[i] == c2.Offs[i] && rc.Ages[i] == i-n2
	}
	rt.Assert("chain/reload-offs-ages", sameOffs)
	rt.Assert("chain/reload-cksum", rc.Hamt.Cksum() == c2.Hamt.Cksum())
	return off, c2
}

// vscript: a script of nsteps steps from {put k (arbitrary value), drop k (a live k), persist,
// reopen (= ReadChain of the last persisted offset; unpersisted changes are forgotten)} run on the
// chain c / model m; keys are numbered in order of first use (see vmap).
func vscript(st *stor.Stor, c vchain, off uint64, m vmodel, used, nk, nsteps int) {
	pm := m // the persisted model
	npersist := 0
	for step := 0; step < nsteps; step++ {
		// enabled operations
		var ops []int // 0..nk-1 put k; nk..2nk-1 drop k; 2nk persist; 2nk+1 reopen
		for k := 0; k < min(used+1, nk); k++ {
			ops = append(ops, k)
		}
		for k := 0; k < nk; k++ {
			if m.has[k] {
				ops = append(ops, nk+k)
			}
		}
		ops = append(ops, 2*nk, 2*nk+1)
		op := ops[rt.Pick("op", len(ops))]
		switch {
		case op < nk:
			v := int(rt.Byte("v"))
			vput(&c, op, v)
			m.has[op], m.val[op] = true, v
			if op == used {
				used++
			}
		case op < 2*nk:
			vdrop(&c, op-nk)
			m.has[op-nk] = false
		case op == 2*nk:
			off, c = vpersist(st, &c, m, nk)
			pm = m
			npersist++
		default:
			c = ReadChain(st, off, vread)
			m = pm
			vlive(c.Hamt, m, nk, "after-reopen")
		}
	}
	rt.Reach("script-done")
	off, c = vpersist(st, &c, m, nk)
	rt.Observe("chunks", len(c.Offs))
	rt.Observe("clock", c.Clock)
	rt.Observe("cksum", c.Hamt.Cksum())
	rt.Observe("persists", npersist)
}

// C15 K2: persist cycles from an empty chain on a heap store. After every WriteChain: the new
// chain has the shape the merge schedule prescribes (kept chunks untouched, one new chunk, ages),
// the original chain value is unchanged, and ReadChain of the returned offset yields exactly the
// model's live entries (values included), the same chunk offsets, ages -n..-1 and clock 0.
// A final persist closes every script.
// KNOWN: label chain/deleted-entry-live-after-reload fails on the unchanged tree (Hamt.Write
// writes nothing when a full flatten has only tombstones, so the old chunks stay current).
//
//symgo:harness prop=C15 tier=quick shards=4 tshards=16 timeout=400 ttimeout=1700 bounds=2_keys(thorough_3);scripts_of_4_steps(thorough_5)_from_put/drop/persist/reopen_plus_a_final_persist;client_protocol_of_db19/meta_(lastMod=clock,created,tombstones);hash_digit_in_{0,1}_at_level_0;arbitrary_one-byte_values;heap_store outside=clients_that_do_not_follow_the_lastMod/created_protocol;chains_longer_than_the_scripts_reach_(see_VerifC15Flatten)
func VerifC15Persist() {
	nk, nsteps := 2, 4
	if rt.Thorough() {
		nk, nsteps = 3, 5
	}
	vhashes(nk, []int{0}, []int{2})
	st := stor.HeapStor(8192)
	st.Alloc(1) // offset 0 means "no chain"
	var m vmodel
	vscript(st, vchain{}, 0, m, 0, nk, nsteps)
}

// C15 K2 at the chain limit: a prologue of L cycles of (one change, persist, reopen) builds a
// chain of L chunks (clock 0 after every reopen, so nothing is merged), L in 6..7 (thorough 1..7);
// then a script as in VerifC15Persist. With 7 chunks the next write must flatten to one chunk.
//
//symgo:harness prop=C15 tier=quick shards=4 tshards=16 timeout=400 ttimeout=1700 bounds=prologue_chains_of_6..7_chunks(thorough_1..7)_with_puts_and_tombstones;2_keys;scripts_of_3_steps(thorough_4)_plus_a_final_persist;real_maxChain_7;hash_digit_in_{0,1}_at_level_0 outside=as_VerifC15Persist
func VerifC15Flatten() {
	nk, nsteps := 2, 3
	lmin := 6
	if rt.Thorough() {
		nsteps, lmin = 4, 1
	}
	vhashes(nk, []int{0}, []int{2})
	st := stor.HeapStor(8192)
	st.Alloc(1)
	var m vmodel
	var c vchain
	off := uint64(0)
	L := lmin + rt.Pick("chunks", 8-lmin)
	rt.Observe("prologue", L)
	for i := 0; i < L; i++ {
		k := i % nk
		if i%3 == 2 && m.has[k] {
			vdrop(&c, k)
			m.has[k] = false
		} else {
			v := int(rt.Byte("pv"))
			vput(&c, k, v)
			m.has[k], m.val[k] = true, v
		}
		off, c = c.WriteChain(st)
		c = ReadChain(st, off, vread)
	}
	rt.Assert("chain/prologue-length", len(c.Offs) == L)
	vlive(c.Hamt, m, nk, "after-reopen")
	vscript(st, c, off, m, nk, nk, nsteps)
}

// C15 K2: the merge schedule for every clock: nmerge(no, clock) never exceeds the number of
// chunks, is all of them from maxChain chunks on, and otherwise the number of trailing one bits
// of the clock (capped); TrailingOnes itself against its characterization (t low one bits, then a zero bit).
//
//symgo:harness prop=C15 tier=quick shards=1 timeout=300 bounds=0..9_chunks;every_non-negative_clock outside=negative_clocks
func VerifC15Nmerge() {
	clock := rt.Int("clock")
	rt.Assume(clock >= 0)
	no := rt.Choice("no", 10)
	// TrailingOnes(clock) = t  <=>  the t lowest bits are ones and bit t is zero
	t := TrailingOnes(clock)
	rt.Assert("chain/trailing-ones-range", rt.And(0 <= t, t <= 63))
	low := (1 << uint(t&63)) - 1
	rt.Assert("chain/trailing-ones", rt.And(clock&low == low, (clock>>uint(t&63))&1 == 0))
	got := nmerge(no, clock)
	rt.Reach("nmerge")
	want := rt.IteInt(no >= 7, no, rt.IteInt(t < no, t, no))
	rt.Assert("chain/nmerge", got == want)
	rt.Assert("chain/nmerge-bounded", rt.And(got >= 0, got <= no))
	rt.Observe("nmerge", got)
}
