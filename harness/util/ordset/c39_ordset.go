package ordset

import rt "github.com/apmckinlay/gsuneido/zzverifrt"

// vk: a key of 0..1 arbitrary bytes (the empty key is a legal index key)
func vk(name string) string { return rt.Str(name, rt.Pick(name+"_len", 2)) }

func vhist(n int) {
	var set Set
	keys := make([]string, n)
	for i := 0; i < n; i++ {
		keys[i] = vk("k" + string(rune('0'+i)))
		ok := set.Insert(keys[i])
		rt.Assert("ordset/insert-accepted", ok)
	}
	rt.Reach("built")
	rt.Assert("ordset/nonempty", !set.Empty())
	from, to := vk("from"), rt.Str("to", 1)
	rt.Assume(from <= to)
	want := false
	for i := 0; i < n; i++ {
		want = rt.Or(want, rt.And(from <= keys[i], keys[i] <= to))
	}
	rt.Assert("ordset/anyinrange", set.AnyInRange(from, to) == want)
	p := vk("p")
	wantc := false
	for i := 0; i < n; i++ {
		wantc = rt.Or(wantc, keys[i] == p)
	}
	rt.Assert("ordset/contains", set.Contains(p) == wantc)
	// structural invariant: leaves sorted strictly, separators order the leaves
	if set.tree != nil {
		prev, first := "", true
		for ti := 0; ti < set.tree.size; ti++ {
			lf := set.tree.slots[ti].leaf
			rt.Assert("ordset/leaf-nonempty", lf.size > 0)
			if ti > 0 {
				rt.Assert("ordset/separator", set.tree.slots[ti].key == lf.slots[0])
			}
			for li := 0; li < lf.size; li++ {
				if !first {
					rt.Assert("ordset/sorted-unique", prev < lf.slots[li])
				}
				prev, first = lf.slots[li], false
			}
		}
	}
}

// vshapes: leaf sizes of the pre-state trees explored by the one-step harness (nodeSize 4)
var vshapes = [][]int{{0}, {1}, {3}, {4}, {2, 2}, {4, 2}, {2, 4}, {4, 4}, {1, 4, 1}, {4, 4, 4, 4}, {4, 3, 4, 4}}

// C39 ordset, one step from an arbitrary valid set: the pre-state is built directly (shape from a
// list covering empty, partly filled and full leaves, one to four leaves, a full tree), its keys
// are arbitrary but strictly increasing (the representation invariant); one Insert of an
// arbitrary key; afterwards Contains/AnyInRange for an arbitrary probe/range equal the set model
// and the invariant holds again. Covers histories of any length that reach these shapes.
//
//symgo:harness prop=C39 tier=quick shards=16 timeout=400 ttimeout=1700 shrink=util/ordset/ordset.go:nodeSize=4 bounds=pre-state_shapes_of_0..16_keys_in_1..4_leaves;keys_of_0..1_bytes_(incl._the_empty_key);one_insert;nodeSize_shrunk_to_4
func VerifC39OrdsetStep() {
	shape := vshapes[rt.Pick("shape", len(vshapes))]
	var set Set
	var keys []string
	prev := ""
	for li, sz := range shape {
		lf := &set.leaf
		if li > 0 {
			lf = &leafNode{}
		}
		for i := 0; i < sz; i++ {
			var k string
			if len(keys) == 0 {
				k = vk("ka") // only the smallest key can be empty
			} else {
				k = rt.Str("k"+string(rune('a'+len(keys))), 1)
				rt.Assume(prev < k)
			}
			prev = k
			keys = append(keys, k)
			lf.slots[i] = k
		}
		lf.size = sz
		if len(shape) > 1 {
			if set.tree == nil {
				set.tree = &treeNode{}
			}
			set.tree.slots[li].leaf = lf
			if li > 0 {
				set.tree.slots[li].key = lf.slots[0]
			}
			set.tree.size++
		}
	}
	x := vk("x")
	ok := set.Insert(x)
	rt.Reach("inserted")
	if !ok {
		// documented capacity: a full leaf cannot split once the tree has nodeSize leaves
		rt.Assert("ordset/refused-only-at-capacity", set.tree != nil && set.tree.size == nodeSize)
	}
	member := func(p string) bool {
		m := rt.And(ok, p == x)
		for _, k := range keys {
			m = rt.Or(m, k == p)
		}
		return m
	}
	if len(keys) > 8 || rt.Pick("query", 2) == 0 {
		p := vk("p")
		rt.Assert("ordset/contains", set.Contains(p) == member(p))
	} else {
		from, to := vk("from"), rt.Str("to", 1)
		rt.Assume(from <= to)
		want := rt.And(ok, rt.And(from <= x, x <= to))
		for _, k := range keys {
			want = rt.Or(want, rt.And(from <= k, k <= to))
		}
		rt.Assert("ordset/anyinrange", set.AnyInRange(from, to) == want)
	}
	vinvariant(&set)
}

func vinvariant(set *Set) {
	if set.tree == nil {
		for li := 1; li < set.leaf.size; li++ {
			rt.Assert("ordset/sorted-unique", set.leaf.slots[li-1] < set.leaf.slots[li])
		}
		return
	}
	prev, first := "", true
	for ti := 0; ti < set.tree.size; ti++ {
		lf := set.tree.slots[ti].leaf
		rt.Assert("ordset/leaf-nonempty", lf.size > 0 && lf.size <= nodeSize)
		if ti > 0 {
			rt.Assert("ordset/separator", set.tree.slots[ti].key == lf.slots[0])
		}
		for li := 0; li < lf.size; li++ {
			if !first {
				rt.Assert("ordset/sorted-unique", prev < lf.slots[li])
			}
			prev, first = lf.slots[li], false
		}
	}
}

// C39 ordset: every history of 4 inserts (thorough 6) of arbitrary 1-byte keys from empty.
//
//symgo:harness prop=C39 tier=quick shards=8 timeout=400 ttimeout=1700 shrink=util/ordset/ordset.go:nodeSize=4 bounds=histories_of_4_inserts(thorough_6);keys_of_0..1_bytes;nodeSize_shrunk_to_4
func VerifC39OrdsetSplit() {
	n := 4
	if rt.Thorough() {
		n = 6
	}
	vhist(n)
}

// C39 ordset with the real node size (no split reachable): histories of 3 inserts.
//
//symgo:harness prop=C39 tier=quick shards=4 timeout=300 bounds=histories_of_3_inserts;1..2-byte_keys;real_nodeSize_128
func VerifC39OrdsetReal() {
	var set Set
	rt.Assert("ordset/empty", set.Empty() && !set.Contains("") && !set.AnyInRange("", "\xff"))
	keys := make([]string, 3)
	for i := range keys {
		keys[i] = rt.Str("k"+string(rune('0'+i)), 1+rt.Pick("len"+string(rune('0'+i)), 2))
		rt.Assert("ordset/insert-accepted", set.Insert(keys[i]))
	}
	from, to := rt.Str("from", 1), rt.Str("to", 2)
	rt.Assume(from <= to)
	want := false
	for _, k := range keys {
		want = rt.Or(want, rt.And(from <= k, k <= to))
	}
	rt.Assert("ordset/anyinrange", set.AnyInRange(from, to) == want)
	var nilset *Set
	rt.Assert("ordset/nil", !nilset.Contains("a") && !nilset.AnyInRange("a", "b"))
	rt.Reach("done")
}
