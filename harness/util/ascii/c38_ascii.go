package ascii

import rt "github.com/apmckinlay/gsuneido/zzverifrt"

// C38 ascii: classification and case conversion for every byte; Digit for every byte and radix.
//
//symgo:harness prop=C38 tier=quick bounds=all_bytes;radix_2..36
func VerifC38Ascii() {
	c := rt.Byte("c")
	lower := c >= 'a' && c <= 'z'
	upper := c >= 'A' && c <= 'Z'
	rt.Assert("ascii/islower", IsLower(c) == lower && IsUpper(c) == upper && IsLetter(c) == (lower || upper))
	wantL, wantU := c, c
	if upper {
		wantL = c + 32
	}
	if lower {
		wantU = c - 32
	}
	rt.Assert("ascii/tolower", ToLower(c) == wantL && ToUpper(c) == wantU)
	rt.Assert("ascii/idempotent", ToLower(ToLower(c)) == ToLower(c) && ToUpper(ToLower(c)) == ToUpper(c))
	digit := c >= '0' && c <= '9'
	rt.Assert("ascii/isdigit", IsDigit(c) == digit)
	rt.Assert("ascii/isspace", IsSpace(c) == (c == ' ' || c == '\t' || c == '\r' || c == '\n' || c == '\v'))
	hexl := c >= 'a' && c <= 'f'
	hexu := c >= 'A' && c <= 'F'
	rt.Assert("ascii/ishex", IsHexDigit(c) == (digit || hexl || hexu))
	radix := rt.IntRange("radix", 2, 36)
	val := -1
	if digit {
		val = int(c - '0')
	} else if hexl {
		val = int(c-'a') + 10
	} else if hexu {
		val = int(c-'A') + 10
	}
	d := Digit(c, radix)
	if val >= 0 && val < radix {
		rt.Assert("ascii/digit-value", d == val)
	} else {
		rt.Assert("ascii/digit-none", d == -1)
	}
	rt.Reach("done")
}
