package dnum

import (
	rt "github.com/apmckinlay/gsuneido/zzverifrt"
)

// vfinite: an arbitrary finite non-zero Dnum with the exponent in [elo, ehi].
func vfinite(name string, elo, ehi int) Dnum {
	sign := int8(1)
	if rt.Pick(name+"_neg", 2) == 1 {
		sign = -1
	}
	coef := rt.U64Range(name+"_coef", coefMin, coefMax)
	exp := rt.IntRange(name+"_exp", elo, ehi)
	return Dnum{coef, sign, int8(exp)}
}

func vsigned(sign int8, coef uint64) rt.Z {
	z := rt.ZU(coef)
	if sign < 0 {
		return z.Neg()
	}
	return z
}

func vwellformed(r Dnum) bool {
	switch r.sign {
	case signZero:
		return r == Zero
	case signPosInf:
		return r == PosInf
	case signNegInf:
		return r == NegInf
	case signPos, signNeg:
		return coefMin <= r.coef && r.coef <= coefMax
	}
	return false
}

// C27 add/sub: for all finite operands whose exponents differ by d (0..16 each decided
// separately; d >= 17 in one symbolic case), |Add(x,y) - (x+y)| <= one unit in the 16th digit
// of the larger operand, or of the result when a carry gives the result a larger exponent.
// Exponents are kept away from the int8 limits (overflow/underflow: VerifC27AddLimits).
//
//symgo:harness prop=C27 tier=quick arith=int shards=16 timeout=400 ttimeout=1700 qtimeout=20000 bounds=all_16-digit_coefficients;both_signs;exponents_-100..100;exponent_difference_in_{0,1,15,16}_and_>=17_(thorough:_every_0..16);add_and_sub outside=float_conversions
func VerifC27Add() {
	d := rt.Pick("d", 18)
	if !rt.Thorough() {
		// quick tier: a spread of exponent differences (thorough: every one)
		ds := []int{0, 1, 15, 16, 17}
		if d >= len(ds) {
			rt.Assume(false)
		}
		d = ds[d]
	}
	x := vfinite("x", -100, 100)
	y := vfinite("y", -120, 100)
	if d < 17 {
		rt.Assume(int(x.exp)-int(y.exp) == d)
	} else {
		rt.Assume(int(x.exp)-int(y.exp) >= 17)
	}
	var r Dnum
	yy := y
	switch rt.Pick("form", 3) {
	case 0:
		r = Add(x, y)
	case 1:
		r = Add(y, x)
	case 2:
		r = Sub(x, y)
		yy = y.Neg()
	}
	rt.Reach("added")
	rt.Observe("rcoef", r.coef)
	rt.Observe("rexp", int(r.exp))
	rt.Observe("rsign", int(r.sign))
	rt.Assert("add/wellformed", vwellformed(r))
	rt.Assert("add/finite", !r.IsInf())
	if d >= 17 {
		// |y| < 1/10 unit of x's 16th digit: returning x is within the tolerance
		rt.Assert("add/far-returns-larger", r == x)
		return
	}
	// everything in units of y's last digit
	s := vsigned(x.sign, x.coef).MulPow10(d).Add(vsigned(yy.sign, yy.coef))
	if r.sign == 0 {
		rt.Assert("add/zero-within-unit", s.Abs().Le(rt.ZI(1).MulPow10(d)))
		return
	}
	k := rt.Concrete(int(r.exp) - int(y.exp)) // result's last digit relative to y's
	unit := max(d, k)
	var diff rt.Z
	if k >= 0 {
		diff = vsigned(r.sign, r.coef).MulPow10(k).Sub(s)
		rt.Assert("add/1ulp", diff.Abs().Le(rt.ZI(1).MulPow10(unit)))
	} else {
		// result finer than y: compare in the result's units
		diff = vsigned(r.sign, r.coef).Sub(s.MulPow10(-k))
		rt.Assert("add/1ulp", diff.Abs().Le(rt.ZI(1).MulPow10(unit-k)))
	}
}

// C27 add at the exponent limits: a carry out of the largest exponent overflows to infinity of
// the right sign; a cancellation below the smallest exponent underflows to zero; zero and
// infinite operands follow the usual rules.
//
//symgo:harness prop=C27 tier=quick arith=int shards=4 timeout=300 qtimeout=20000 bounds=equal_exponents_at_127_and_-128;special_operands
func VerifC27AddLimits() {
	switch rt.Pick("case", 4) {
	case 0: // overflow
		x, y := vfinite("x", 127, 127), vfinite("y", 127, 127)
		rt.Assume(x.sign == y.sign)
		r := Add(x, y)
		if x.coef+y.coef > coefMax {
			rt.Assert("limits/overflow-inf", r == Inf(x.sign))
		} else {
			rt.Assert("limits/no-overflow-exact", r == Dnum{x.coef + y.coef, x.sign, 127})
		}
	case 1: // underflow
		x, y := vfinite("x", -128, -128), vfinite("y", -128, -128)
		rt.Assume(x.sign != y.sign && x.coef != y.coef)
		r := Add(x, y)
		hi, lo := max(x.coef, y.coef), min(x.coef, y.coef)
		if hi-lo < coefMin {
			rt.Assert("limits/underflow-zero", r == Zero)
		} else {
			rt.Assert("limits/no-underflow-exact", r.coef == hi-lo && r.exp == -128)
		}
	case 2: // zero is the identity, x + -x == 0
		x := vfinite("x", -128, 127)
		rt.Assert("limits/zero-identity", Add(x, Zero) == x && Add(Zero, x) == x && Sub(x, Zero) == x)
		rt.Assert("limits/self-cancel", Sub(x, x) == Zero && Add(x, x.Neg()) == Zero)
	case 3: // infinities
		x := vfinite("x", -128, 127)
		rt.Assert("limits/inf-absorbs", Add(PosInf, x) == PosInf && Add(x, NegInf) == NegInf && Sub(x, PosInf) == NegInf)
		rt.Assert("limits/inf-inf", Add(PosInf, PosInf) == PosInf && Add(PosInf, NegInf) == Zero)
	}
	rt.Reach("done")
}

// C27 mul: for all finite operands, |Mul(x,y) - x*y| <= one unit in the 16th digit of the
// result; exponent overflow gives infinity of the right sign, underflow gives zero.
//
//symgo:harness prop=C27 tier=quick arith=int shards=8 timeout=900 qtimeout=60000 bounds=all_16-digit_coefficient_pairs;exponents_-60..60_and_y_positive_(thorough:_all_exponents,_both_signs)
func VerifC27Mul() {
	var x, y Dnum
	if rt.Thorough() {
		x, y = vfinite("x", -128, 127), vfinite("y", -128, 127)
	} else {
		// quick tier: no exponent overflow/underflow (that is VerifC27MulLimits), y positive
		x = vfinite("x", -60, 60)
		y = Dnum{rt.U64Range("y_coef", coefMin, coefMax), signPos, int8(rt.IntRange("y_exp", -60, 60))}
	}
	r := Mul(x, y)
	rt.Reach("multiplied")
	rt.Observe("rcoef", r.coef)
	rt.Observe("rexp", int(r.exp))
	rt.Assert("mul/wellformed", vwellformed(r))
	e := int(x.exp) + int(y.exp) // exact product = xc*yc * 10^(e-32), 31 or 32 digits
	p := rt.ZU(x.coef).Mul(rt.ZU(y.coef))
	wantSign := x.sign * y.sign
	if r.IsInf() {
		rt.Assert("mul/overflow-only-when-large", e-1 > expMax || (e > expMax))
		rt.Assert("mul/inf-sign", r.sign == 2*wantSign)
		return
	}
	if r.sign == 0 {
		rt.Assert("mul/underflow-only-when-small", e-1 < expMin)
		return
	}
	rt.Assert("mul/sign", r.sign == wantSign)
	j := rt.Concrete(int(r.exp) - e + 16) // r = rc*10^(re-16); in units of 10^(e-32): rc*10^j
	rt.Assert("mul/scale", j == 15 || j == 16)
	diff := rt.ZU(r.coef).MulPow10(j).Sub(p)
	rt.Assert("mul/1ulp", diff.Abs().Le(rt.ZI(1).MulPow10(j)))
}

// C27 mul at the exponent limits: with concrete coefficients the exponent arithmetic alone decides
// overflow to infinity / underflow to zero.
//
//symgo:harness prop=C27 tier=quick arith=int timeout=300 bounds=coefficients_in_{1000000000000000,3162277660168379,3162277660168380,9999999999999999};all_exponent_pairs;both_signs
func VerifC27MulLimits() {
	cs := []uint64{1000000000000000, 3162277660168379, 3162277660168380, 9999999999999999}
	x := Dnum{cs[rt.Pick("xc", 4)], int8(1 - 2*rt.Pick("xneg", 2)), int8(rt.IntRange("xe", -128, 127))}
	y := Dnum{cs[rt.Pick("yc", 4)], 1, int8(rt.IntRange("ye", -128, 127))}
	r := Mul(x, y)
	rt.Reach("multiplied")
	e := int(x.exp) + int(y.exp)
	// exact product has exponent e or e-1 (when the coefficient product is below 1e31)
	small := rt.ZU(x.coef).Mul(rt.ZU(y.coef)).Lt(rt.ZI(1).MulPow10(31))
	re := e
	if small {
		re = e - 1
	}
	switch {
	case re > expMax:
		rt.Assert("mul/overflow-inf", r == Inf(x.sign))
	case re < expMin:
		rt.Assert("mul/underflow-zero", r == Zero)
	default:
		rt.Assert("mul/in-range-finite", r.sign == x.sign && (int(r.exp) == re || int(r.exp) == re+1))
	}
}

// vsumDiv128 is the assumed contract of div128 used by VerifC27DivCases (the arithmetic of
// div128 itself is checked separately, within a reduced bound, by VerifC27Div128).
func vsumDiv128(dividend, divisor uint64) uint64 {
	q := rt.U64Range("div128_q", 0, 99999999999999999)
	num := rt.ZU(dividend).MulPow10(16)
	rt.Assume(rt.ZU(q).Mul(rt.ZU(divisor)).Le(num) && num.Lt(rt.ZU(q).Add(rt.ZI(1)).Mul(rt.ZU(divisor))))
	return q
}

// C27 div, case structure: with div128 summarised by its contract floor(1e16*a/b), for all
// finite operands |Div(x,y) - x/y| <= one unit in the 16th digit of the result; overflow to
// infinity, underflow to zero; zero and infinite operands.
//
//symgo:harness prop=C27 tier=quick arith=int shards=4 timeout=400 qtimeout=60000 summary=util/dnum.div128=vsumDiv128 bounds=all_16-digit_coefficient_pairs;all_exponents;div128_replaced_by_its_contract
func VerifC27DivCases() {
	x := vfinite("x", -128, 127)
	y := vfinite("y", -128, 127)
	r := Div(x, y)
	rt.Reach("divided")
	rt.Assert("div/wellformed", vwellformed(r))
	e := int(x.exp) - int(y.exp) // x/y = (xc/yc) * 10^e, xc/yc in (0.1, 10)
	wantSign := x.sign * y.sign
	if r.IsInf() {
		rt.Assert("div/overflow-only-when-large", e+1 > expMax)
		rt.Assert("div/inf-sign", r.sign == 2*wantSign)
		return
	}
	if r.sign == 0 {
		rt.Assert("div/underflow-only-when-small", e < expMin)
		return
	}
	rt.Assert("div/sign", r.sign == wantSign)
	// r = rc * 10^(re-16);  x/y = xc/yc * 10^e  =>  compare rc*yc*10^(re-16-e) with xc
	j := rt.Concrete(int(r.exp) - e) // 0 or 1
	rt.Assert("div/scale", j == 0 || j == 1)
	// |rc*10^(j-16) - xc/yc| <= 10^(j-16)   <=>   |rc*yc*10^j - xc*10^16| <= yc*10^j
	lhs := rt.ZU(r.coef).Mul(rt.ZU(y.coef)).MulPow10(j).Sub(rt.ZU(x.coef).MulPow10(16))
	rt.Assert("div/1ulp", lhs.Abs().Le(rt.ZU(y.coef).MulPow10(j)))
}

// C27 div, special operands.
//
//symgo:harness prop=C27 tier=quick arith=int timeout=300 bounds=zero_and_infinite_operands
func VerifC27DivSpecial() {
	x := vfinite("x", -128, 127)
	rt.Assert("div/zero-dividend", Div(Zero, x) == Zero)
	rt.Assert("div/by-zero-inf", Div(x, Zero) == Inf(x.sign))
	rt.Assert("div/inf-by-finite", Div(PosInf, x) == Inf(x.sign) && Div(NegInf, x) == Inf(-x.sign))
	rt.Assert("div/finite-by-inf", Div(x, PosInf) == Zero && Div(x, NegInf) == Zero)
	rt.Assert("div/inf-by-inf", Div(PosInf, PosInf) == One && Div(PosInf, NegInf) == NegOne)
	rt.Assert("mul/zero", Mul(Zero, x) == Zero && Mul(x, Zero) == Zero)
	rt.Assert("mul/inf", Mul(PosInf, x) == Inf(x.sign) && Mul(x, NegInf) == Inf(-x.sign))
	rt.Reach("done")
}

// C27 compare: Compare orders all finite numbers, zero and the infinities by exact value.
//
//symgo:harness prop=C27 tier=quick arith=int shards=4 timeout=300 bounds=all_valid_pairs;exponent_difference_-3..3_exact,_otherwise_by_magnitude
func VerifC27Compare() {
	mk := func(name string) Dnum {
		switch rt.Pick(name+"_kind", 4) {
		case 0:
			return Zero
		case 1:
			return PosInf
		case 2:
			return NegInf
		}
		return vfinite(name, -128, 127)
	}
	x, y := mk("x"), mk("y")
	c := Compare(x, y)
	rt.Reach("compared")
	rt.Observe("c", c)
	rt.Assert("compare/antisym", Compare(y, x) == -c)
	rt.Assert("compare/eq", (c == 0) == Equal(x, y))
	xf, yf := x.sign == 1 || x.sign == -1, y.sign == 1 || y.sign == -1
	switch {
	case x.sign != y.sign:
		rt.Assert("compare/by-sign", (c < 0) == (x.sign < y.sign) && c != 0)
	case xf && yf:
		// same sign, both finite: magnitude order is (exp, coef) lexicographic since coefs are normalised
		magLess := x.exp < y.exp || (x.exp == y.exp && x.coef < y.coef)
		magEq := x.exp == y.exp && x.coef == y.coef
		if magEq {
			rt.Assert("compare/equal-0", c == 0)
		} else if x.sign > 0 {
			rt.Assert("compare/pos", (c < 0) == magLess)
		} else {
			rt.Assert("compare/neg", (c > 0) == magLess)
		}
		// cross-check the lexicographic rule against exact values for nearby exponents
		dd := int(x.exp) - int(y.exp)
		if -3 <= dd && dd <= 3 {
			k := rt.Concrete(dd)
			var xv, yv rt.Z
			if k >= 0 {
				xv, yv = rt.ZU(x.coef).MulPow10(k), rt.ZU(y.coef)
			} else {
				xv, yv = rt.ZU(x.coef), rt.ZU(y.coef).MulPow10(-k)
			}
			rt.Assert("compare/exact-value", magLess == xv.Lt(yv))
		}
	}
}
