package sortlist

import rt "github.com/apmckinlay/gsuneido/zzverifrt"

// C39 sortlist (block size shrunk to 4 so that lists span several blocks, merges recycle blocks
// and every "last block is full / one short of full" case occurs): n = 0..17 distinct non-zero
// values - concrete ones in a fixed scrambled order plus two arbitrary symbolic ones at the front -
// added to an unsorted builder, finished, then sorted (the callers' protocol): the builder's iterator
// yields exactly the n values in increasing order and then stops.
//
//symgo:harness prop=C39 tier=quick shards=8 timeout=400 shrink=util/sortlist/sortlist.go:blockSize=4 bounds=0..17_values;2_of_them_arbitrary_in_1..250;blockSize_shrunk_to_4;Sort_path_(no_worker_goroutine) outside=the_incremental_worker_goroutine_of_NewSorting;real_block_size
func VerifC39Sortlist() {
	n := rt.Pick("n", 18)
	zero := func(x int) bool { return x == 0 }
	less := func(x, y int) bool { return x < y }
	var in []int
	if n >= 1 {
		in = append(in, int(rt.Byte("v0")))
	}
	if n >= 2 {
		in = append(in, int(rt.Byte("v1")))
	}
	for i := len(in); i < n; i++ {
		in = append(in, 1000+((i*7)%17)*10) // distinct, scrambled, well above the symbolic ones
	}
	for i := 0; i < len(in) && i < 2; i++ {
		rt.Assume(in[i] != 0 && in[i] <= 250)
	}
	if n >= 2 {
		rt.Assume(in[0] != in[1])
	}
	b := NewUnsorted(zero)
	for _, v := range in {
		b.Add(v)
	}
	b.Finish() // the protocol of the callers (load, compact, buildIndexes): Finish, then Sort per index
	b.Sort(less)
	rt.Reach("sorted")
	// builder iterator
	it := b.Iter()
	var out []int
	for i := 0; i <= n+4; i++ {
		v := it()
		if v == 0 {
			break
		}
		out = append(out, v)
	}
	rt.Assert("sortlist/iter-length", len(out) == n)
	for i := 1; i < len(out); i++ {
		rt.Assert("sortlist/iter-increasing", out[i-1] < out[i])
	}
	for _, v := range in {
		found := false
		for _, o := range out {
			found = rt.Or(found, o == v)
		}
		rt.Assert("sortlist/iter-has-every-value", found)
	}
}
