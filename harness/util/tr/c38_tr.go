package tr

import rt "github.com/apmckinlay/gsuneido/zzverifrt"

// reference: expand a raw set text into ('^' flag, member list) with a-b ranges
func vexpand(s string) (neg bool, set []byte) {
	if len(s) >= 3 && s[0] == '^' {
		neg = true
		s = s[1:]
	} else if len(s) > 0 && len(s) < 3 && s[0] == '^' {
		// short sets are not expanded but Replace still treats a leading ^ as complement
		neg = true
		s = s[1:]
	}
	for i := 0; i < len(s); i++ {
		if i+2 < len(s) && s[i+1] == '-' {
			for c := int(s[i]); c <= int(s[i+2]); c++ {
				set = append(set, byte(c))
			}
			i += 2
		} else {
			set = append(set, s[i])
		}
	}
	return
}

func vindex(set []byte, c byte) int {
	for i, x := range set {
		if x == c {
			return i
		}
	}
	return -1
}

// reference tr: translate / squeeze / delete, written per character
func vtr(src string, fromRaw, toRaw string) string {
	if src == "" || fromRaw == "" {
		return src
	}
	neg, from := vexpand(fromRaw)
	_, to := vexpandTo(toRaw)
	last := len(to) - 1
	collapse := len(to) > 0 && (neg || len(to) < len(from))
	var out []byte
	inRun := false
	for i := 0; i < len(src); i++ {
		c := src[i]
		idx := vindex(from, c)
		if neg {
			if idx == -1 {
				idx = last + 1
			} else {
				idx = -1
			}
		}
		switch {
		case idx < 0:
			out = append(out, c)
			inRun = false
		case len(to) == 0:
			inRun = false // deleted
		case collapse && idx >= last:
			if !inRun {
				out = append(out, to[last])
			}
			inRun = true
		default:
			out = append(out, to[idx])
			inRun = false
		}
	}
	return string(out)
}

// the to-set is expanded like any set (ranges only when it has at least 3 characters), but a
// leading ^ has no meaning there: it stays a member and the rest is expanded after it
func vexpandTo(s string) (bool, []byte) {
	if len(s) < 3 {
		return false, []byte(s)
	}
	if s[0] == '^' {
		return false, append([]byte{'^'}, vranges(s[1:])...)
	}
	return false, vranges(s)
}

// vranges expands a-b ranges, nothing else
func vranges(s string) []byte {
	var set []byte
	for i := 0; i < len(s); i++ {
		if i+2 < len(s) && s[i+1] == '-' {
			for c := int(s[i]); c <= int(s[i+2]); c++ {
				set = append(set, byte(c))
			}
			i += 2
		} else {
			set = append(set, s[i])
		}
	}
	return set
}

func vrangeOK(s string) bool {
	// bound: any a-b range inside a set spans at most 3 characters (keeps the expansion loops short)
	for i := 0; i+2 < len(s); i++ {
		if s[i+1] == '-' && int(s[i+2])-int(s[i]) > 2 {
			return false
		}
	}
	return true
}

// C38 tr: Replace(src, New(from), New(to)) == the per-character reference for all src of 0..3
// bytes, from-sets of 0..3 raw bytes (incl. ^ and a-b ranges of width <= 3), to-sets of 0..2 bytes.
//
//symgo:harness prop=C38 tier=quick shards=16 timeout=300 ttimeout=1700 bounds=src_0..3_bytes(thorough_4);from_0..3_raw_bytes(thorough_4);to_0..2_bytes(thorough_3);ranges_of_width<=3 outside=wider_ranges;longer_strings
func VerifC38Tr() {
	ns, nf, nt := 4, 4, 3
	if rt.Thorough() {
		ns, nf, nt = 5, 5, 4
	}
	src := rt.Str("src", rt.Pick("srclen", ns))
	from := rt.Str("from", rt.Pick("fromlen", nf))
	to := rt.Str("to", rt.Pick("tolen", nt))
	rt.Assume(vrangeOK(from) && vrangeOK(to))
	got := Replace(src, New(from), New(to))
	rt.Reach("replaced")
	rt.Observe("got", got)
	want := vtr(src, from, to)
	rt.Assert("tr/reference", got == want)
}
