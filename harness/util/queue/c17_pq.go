package queue

import (
	"sync"

	rt "github.com/apmckinlay/gsuneido/zzverifrt"
)

func vname(p string, i int) string { return p + string(rune('0'+i)) }

// veligible: message i is the oldest pending message of its transaction
// (no earlier message in the queue has the same tran). Branch-free.
func veligible(tran []int, i int) bool {
	e := true
	for j := 0; j < i; j++ {
		e = rt.And(e, tran[j] != tran[i])
	}
	return e
}

// vpatterns: transaction-equality patterns (equal number = same transaction) used for queues
// of more than vsymN messages; a queue of n messages uses the first n entries.
var vpatterns = [][]int{
	{0, 1, 2, 3, 4, 5, 6, 7}, // every message its own transaction
	{0, 0, 0, 0, 0, 0, 0, 0}, // one transaction
	{0, 1, 0, 1, 0, 1, 0, 1},
	{0, 0, 1, 1, 2, 2, 3, 3},
	{0, 1, 2, 0, 1, 2, 0, 1},
	{0, 1, 1, 2, 0, 3, 3, 2},
	{0, 0, 0, 1, 2, 3, 4, 5},
	{0, 1, 2, 3, 3, 2, 1, 0},
}

// C17 one step from an arbitrary queue content, with the real bufSize (8).
// The queue holds n messages (n forked, 0..bufSize) with arbitrary priorities and arbitrary
// transaction numbers. Up to vsymN messages (quick 5, thorough 7) every equality pattern between
// the transaction numbers is explored; for longer queues the pattern is one of vpatterns (the
// numbers themselves stay arbitrary: pairwise distinct symbolic values). Message i carries
// the value i.
//
//	op 0, Get (n >= 1): the delivered message r is the oldest of its transaction; no other
//	   message that is the oldest of its transaction has a higher priority, nor the same
//	   priority and an earlier position; exactly r is removed, the others keep their order
//	   and contents.
//	op 1, Put (n < bufSize): the queue afterwards is the old content, unchanged and in order,
//	   followed by the new message.
//
// Any content of at most bufSize messages is a reachable state (Puts in that order), and the
// post-states are again such contents, so this covers every sequential history.
//
//symgo:harness prop=C17 tier=quick shards=8 timeout=300 ttimeout=1700 bounds=any_queue_content_of_0..8_messages_(real_bufSize_8);priorities_arbitrary_ints;transaction_numbers_arbitrary_ints:_every_equality_pattern_up_to_5_(thorough_7)_messages,_8_listed_patterns_for_longer_queues;one_Get_or_one_Put outside=equality_patterns_of_6..8_messages_not_in_the_list;blocking_(Get_on_empty,_Put_on_full)_is_in_VerifC17Concurrent
func VerifC17Step() {
	n := rt.Pick("n", bufSize+1)
	op := rt.Pick("op", 2)
	vsymN := 5
	if rt.Thorough() {
		vsymN = 7
	}
	prio := make([]int, n)
	tran := make([]int, n)
	if n <= vsymN || op == 1 { // Put does not look at the transaction numbers
		for i := range tran {
			tran[i] = rt.Int(vname("t", i))
		}
	} else {
		pat := vpatterns[rt.Pick("pattern", len(vpatterns))]
		var base []int
		for i := range tran {
			if pat[i] == len(base) {
				b := rt.Int(vname("t", i))
				for _, o := range base {
					rt.Assume(o != b)
				}
				base = append(base, b)
			}
			tran[i] = base[pat[i]]
		}
	}
	pq := NewPriorityQueue()
	for i := 0; i < n; i++ {
		prio[i] = rt.Int(vname("p", i))
		pq.items = append(pq.items, element{prio[i], tran[i], i})
	}
	if op == 1 {
		if n >= bufSize {
			return // Put would block: see VerifC17Concurrent
		}
		np, nt := rt.Int("np"), rt.Int("nt")
		pq.Put(np, nt, n)
		rt.Reach("put")
		rt.Assert("put/length", len(pq.items) == n+1)
		same := true
		for i := 0; i < n; i++ {
			e := pq.items[i]
			same = rt.And(same, rt.And(e.value == any(i), rt.And(e.priority == prio[i], e.tran == tran[i])))
		}
		rt.Assert("put/keeps-older-messages-in-order", same)
		e := pq.items[n]
		rt.Assert("put/appends-the-message", rt.And(e.value == any(n), rt.And(e.priority == np, e.tran == nt)))
		rt.Observe("put.len", len(pq.items))
		return
	}
	if n == 0 {
		return // Get would block: see VerifC17Concurrent
	}
	got := pq.Get()
	r, ok := got.(int)
	rt.Reach("get")
	rt.Assert("get/delivers-a-queued-message", ok && 0 <= r && r < n)
	rt.Observe("get.r", r)
	// the specification
	rt.Assert("get/oldest-of-its-transaction", veligible(tran, r))
	best, tie := true, true
	for i := 0; i < n; i++ {
		if i < r {
			tie = rt.And(tie, rt.Implies(veligible(tran, i), prio[i] < prio[r]))
		} else if i > r {
			best = rt.And(best, rt.Implies(veligible(tran, i), prio[i] <= prio[r]))
		}
	}
	rt.Assert("get/highest-priority", best)
	rt.Assert("get/highest-priority-earliest-on-tie", tie)
	// removes exactly it, keeps the rest in order
	rt.Assert("get/length", len(pq.items) == n-1)
	same := true
	for i, k := 0, 0; i < n; i++ {
		if i == r {
			continue
		}
		e := pq.items[k]
		k++
		same = rt.And(same, rt.And(e.value == any(i), rt.And(e.priority == prio[i], e.tran == tran[i])))
	}
	rt.Assert("get/keeps-the-rest-in-order", same)
}

// vconc: producer p Puts counts[p] messages (transaction number = producer number, so the order
// within a transaction is the producer's program order; arbitrary priorities), one consumer
// Gets them all. Every message is delivered exactly once and each transaction's messages arrive
// in the order sent; the run terminates (a lost wake-up leaves a thread parked for ever: the
// engine reports deadlock).
func vconc(counts []int) {
	total := 0
	base := make([]int, len(counts))
	for p, c := range counts {
		base[p] = total
		total += c
	}
	prio := make([]int, total)
	for i := range prio {
		prio[i] = rt.Int(vname("p", i))
	}
	pq := NewPriorityQueue()
	got := make([]int, 0, total)
	var wg sync.WaitGroup
	wg.Add(len(counts) + 1)
	for p := range counts {
		p := p
		go func() {
			for k := 0; k < counts[p]; k++ {
				id := base[p] + k
				pq.Put(prio[id], p, id)
			}
			wg.Done()
		}()
	}
	go func() {
		for k := 0; k < total; k++ {
			v, ok := pq.Get().(int)
			rt.Assert("conc/delivers-a-sent-message", ok && 0 <= v && v < total)
			got = append(got, v) // only the consumer writes got
		}
		wg.Done()
	}()
	wg.Wait()
	rt.Reach("joined")
	rt.Assert("conc/all-gets-returned", len(got) == total)
	rt.Assert("conc/queue-empty-at-the-end", len(pq.items) == 0)
	pos := make([]int, total)
	for i := range pos {
		pos[i] = -1
	}
	for k, v := range got {
		rt.Assert("conc/delivered-once", pos[v] == -1)
		pos[v] = k
	}
	for i := range pos {
		rt.Assert("conc/every-message-delivered", pos[i] >= 0)
	}
	for p, c := range counts {
		for k := 1; k < c; k++ {
			rt.Assert("conc/per-transaction-order", pos[base[p]+k-1] < pos[base[p]+k])
		}
	}
}

// C17 concurrent: bufSize shrunk to 2. Two producers each Put two messages (thorough: three and
// two), one consumer Gets them all. The interleaving is chosen at every Lock/Unlock/Wait/Signal
// of the queue (sync.Cond modelled exactly: FIFO wake-up, no spurious wake-ups) with at most 2
// pre-emptive switches (switches at blocking operations are free). Every run terminates (no
// deadlock: a producer blocked on a full queue is woken by a Get, the consumer blocked on an
// empty queue by a Put), every message is delivered exactly once, and each transaction's
// messages arrive in the order sent.
//
//symgo:harness prop=C17 tier=quick shards=8 tshards=16 timeout=400 ttimeout=1700 preempt=2 replay=off shrink=util/queue/priority_queue.go:bufSize=2 bounds=2_producers_x_2_Puts_(thorough:_3_and_2),_1_consumer_x_4_(5)_Gets;bufSize_shrunk_to_2;arbitrary_priorities;tran=producer;interleaved_at_every_Lock/Unlock/Wait/Signal;<=2_pre-emptions outside=more_pre-emptions_(3:_VerifC17ConcurrentPreempt3);several_consumers;two_producers_sharing_a_transaction;spurious_wake-ups_(Go's_sync.Cond_has_none)
func VerifC17Concurrent() {
	if rt.Thorough() {
		vconc([]int{3, 2})
	} else {
		vconc([]int{2, 2})
	}
}

// C17 concurrent, thorough only: as VerifC17Concurrent (2 producers x 2 Puts) with up to 3
// pre-emptive switches.
//
//symgo:harness prop=C17 tier=thorough shards=8 tshards=16 timeout=1700 ttimeout=1700 preempt=3 replay=off shrink=util/queue/priority_queue.go:bufSize=2 bounds=2_producers_x_2_Puts,_1_consumer_x_4_Gets;bufSize_shrunk_to_2;arbitrary_priorities;tran=producer;interleaved_at_every_Lock/Unlock/Wait/Signal;<=3_pre-emptions outside=more_pre-emptions;several_consumers;spurious_wake-ups_(Go's_sync.Cond_has_none)
func VerifC17ConcurrentPreempt3() {
	vconc([]int{2, 2})
}
