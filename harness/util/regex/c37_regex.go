package regex

import rt "github.com/apmckinlay/gsuneido/zzverifrt"

// ---------------------------------------------------------------------------------------------
// Independent reference: a naive backtracking matcher over a hand-built AST.
//
// Semantics (the "standard" ones of the common subset, in Suneido's dialect where dialects differ):
//   - a match attempt at position p tries the alternatives in preference order (left alternative
//     first; greedy = one more iteration first, lazy = stop first) and the first complete
//     alternative wins; the search takes the leftmost p that has any match
//   - . is any byte except \r and \n; \d = [0-9], \w = [A-Za-z0-9_], \s = [ \t\r\n]
//   - (?i): ASCII letters match both cases (in literals and in classes)
//   - ^ is after a \n or at 0; $ is at the end or before a line terminator (\n, \r\n, lone \r),
//     not between \r and \n; \A and \Z are the ends of the subject
//   - \< \> are only used adjacent to \w so that every dialect's definition agrees
//   - groups 1..9 record the span of their last completed iteration; unset = -1,-1
//   - loops: an iteration that consumes nothing does not loop again; after the first iteration an
//     empty iteration is not taken at all (only matters for nullable loop bodies)
// ---------------------------------------------------------------------------------------------

const (
	vkChar  = iota // literal byte c (ci: ASCII case-insensitive)
	vkAny          // .
	vkSet          // class: byte ranges rs (lo,hi pairs), neg
	vkSeq          // sub...
	vkAlt          // sub... in preference order
	vkGroup        // capture group g around sub[0]
	vkStar         // sub[0]* (lazy: *?)
	vkPlus         // sub[0]+ (lazy: +?)
	vkQuest        // sub[0]? (lazy: ??)
	vkBOL          // ^
	vkEOL          // $
	vkSS           // \A
	vkSE           // \Z
	vkWS           // \<
	vkWE           // \>
)

type vre struct {
	k    int
	c    byte
	ci   bool
	rs   string
	neg  bool
	lazy bool
	g    int
	sub  []*vre
}

type vcaps [20]int

func vin(rs string, b byte) bool {
	in := false
	for i := 0; i+1 < len(rs); i += 2 {
		in = rt.Or(in, rt.And(rs[i] <= b, b <= rs[i+1]))
	}
	return in
}

const vword = "azAZ09__"

func vbefore(s string, i int, rs string) bool { return i > 0 && vin(rs, s[i-1]) }
func vat(s string, i int, rs string) bool     { return i < len(s) && vin(rs, s[i]) }

func vseq(sub []*vre, s string, i int, c *vcaps, k func(int) bool) bool {
	if len(sub) == 0 {
		return k(i)
	}
	return vm(sub[0], s, i, c, func(j int) bool { return vseq(sub[1:], s, j, c, k) })
}

func vplus(n *vre, first bool, s string, i int, c *vcaps, k func(int) bool) bool {
	return vm(n.sub[0], s, i, c, func(j int) bool {
		if !first && j == i {
			return false
		}
		if n.lazy {
			return k(j) || (j > i && vplus(n, false, s, j, c, k))
		}
		return (j > i && vplus(n, false, s, j, c, k)) || k(j)
	})
}

// vm: does n match at i such that the rest (k) also matches; preference order = evaluation order
func vm(n *vre, s string, i int, c *vcaps, k func(int) bool) bool {
	switch n.k {
	case vkChar:
		if i >= len(s) {
			return false
		}
		eq := s[i] == n.c
		if n.ci && (('a' <= n.c && n.c <= 'z') || ('A' <= n.c && n.c <= 'Z')) {
			eq = rt.Or(s[i] == n.c|0x20, s[i] == n.c&^0x20)
		}
		if eq {
			return k(i + 1)
		}
		return false
	case vkAny:
		if i < len(s) && rt.And(s[i] != '\r', s[i] != '\n') {
			return k(i + 1)
		}
		return false
	case vkSet:
		if i < len(s) && vin(n.rs, s[i]) != n.neg {
			return k(i + 1)
		}
		return false
	case vkSeq:
		return vseq(n.sub, s, i, c, k)
	case vkAlt:
		for _, a := range n.sub {
			if vm(a, s, i, c, k) {
				return true
			}
		}
		return false
	case vkGroup:
		g := n.g
		o0 := c[2*g]
		c[2*g] = i
		if vm(n.sub[0], s, i, c, func(j int) bool {
			o1 := c[2*g+1]
			c[2*g+1] = j
			if k(j) {
				return true
			}
			c[2*g+1] = o1
			return false
		}) {
			return true
		}
		c[2*g] = o0
		return false
	case vkQuest:
		if n.lazy {
			return k(i) || vm(n.sub[0], s, i, c, k)
		}
		return vm(n.sub[0], s, i, c, k) || k(i)
	case vkStar:
		if n.lazy {
			return k(i) || vplus(n, true, s, i, c, k)
		}
		return vplus(n, true, s, i, c, k) || k(i)
	case vkPlus:
		return vplus(n, true, s, i, c, k)
	}
	// zero-width assertions
	ok := false
	switch n.k {
	case vkBOL:
		ok = i == 0 || s[i-1] == '\n'
	case vkEOL:
		if i == len(s) {
			ok = true
		} else {
			nl := s[i] == '\n'
			if i > 0 {
				nl = rt.And(nl, s[i-1] != '\r')
			}
			ok = rt.Or(s[i] == '\r', nl)
		}
	case vkSS:
		ok = i == 0
	case vkSE:
		ok = i == len(s)
	case vkWS:
		ok = rt.And(!vbefore(s, i, vword), vat(s, i, vword))
	case vkWE:
		ok = rt.And(vbefore(s, i, vword), !vat(s, i, vword))
	}
	if ok {
		return k(i)
	}
	return false
}

// vtry: anchored attempt at p
func vtry(root *vre, s string, p int, c *vcaps) bool {
	for i := range c {
		c[i] = -1
	}
	if vm(root, s, p, c, func(j int) bool { c[1] = j; return true }) {
		c[0] = p
		return true
	}
	for i := range c {
		c[i] = -1
	}
	return false
}

// vfirst: leftmost match starting at or after from
func vfirst(root *vre, s string, from int, c *vcaps) bool {
	for p := from; p <= len(s); p++ {
		if vtry(root, s, p, c) {
			return true
		}
	}
	return false
}

// vlast: the match that starts at the largest position <= from
func vlast(root *vre, s string, from int, c *vcaps) bool {
	for p := from; p >= 0; p-- {
		if vtry(root, s, p, c) {
			return true
		}
	}
	return false
}

// --- AST constructors ---

func vL(c byte) *vre                   { return &vre{k: vkChar, c: c} }
func vI(c byte) *vre                   { return &vre{k: vkChar, c: c, ci: true} }
func vD() *vre                         { return &vre{k: vkAny} }
func vC(rs string) *vre                { return &vre{k: vkSet, rs: rs} }
func vN(rs string) *vre                { return &vre{k: vkSet, rs: rs, neg: true} }
func vS(sub ...*vre) *vre              { return &vre{k: vkSeq, sub: sub} }
func vA(sub ...*vre) *vre              { return &vre{k: vkAlt, sub: sub} }
func vG(g int, x *vre) *vre            { return &vre{k: vkGroup, g: g, sub: []*vre{x}} }
func vQ(k int, lazy bool, x *vre) *vre { return &vre{k: k, lazy: lazy, sub: []*vre{x}} }
func vStar(x *vre) *vre                { return vQ(vkStar, false, x) }
func vStarL(x *vre) *vre               { return vQ(vkStar, true, x) }
func vPlus(x *vre) *vre                { return vQ(vkPlus, false, x) }
func vPlusL(x *vre) *vre               { return vQ(vkPlus, true, x) }
func vOpt(x *vre) *vre                 { return vQ(vkQuest, false, x) }
func vOptL(x *vre) *vre                { return vQ(vkQuest, true, x) }
func vZ(k int) *vre                    { return &vre{k: k} }

const (
	vdigit = "09"
	vspace = "  \t\t\r\r\n\n"
)

// vnpat is the number of committed patterns
const vnpat = 64

// vpat: the committed pattern list; each pattern text is paired with its hand-built AST.
// The comment names the compiled form it exercises (L = literal fast path, 1 = one-pass,
// P = literal-prefix skip + NFA, M = NFA).
func vpat(i int) (string, *vre) {
	a, b, c := vL('a'), vL('b'), vL('c')
	switch i {
	// literal fast paths
	case 0: // L substr, empty
		return ``, vS()
	case 1: // L substr
		return `ab`, vS(a, b)
	case 2: // L prefix
		return `\Aab`, vS(vZ(vkSS), a, b)
	case 3: // L suffix
		return `ab\Z`, vS(a, b, vZ(vkSE))
	case 4: // L equal
		return `\Aab\Z`, vS(vZ(vkSS), a, b, vZ(vkSE))
	case 5: // L suffix, empty
		return `\Z`, vS(vZ(vkSE))
	case 6: // L prefix, empty
		return `\A`, vS(vZ(vkSS))
	case 7: // L substr from escapes
		return `\.\*`, vS(vL('.'), vL('*'))
	// NFA basics
	case 8: // M ignore case literals
		return `(?i)aB`, vS(vI('a'), vI('B'))
	case 9: // P
		return `a.c`, vS(a, vD(), c)
	case 10: // M
		return `a|b`, vA(a, b)
	case 11: // M preference: shorter alternative first
		return `a|ab`, vA(a, vS(a, b))
	case 12:
		return `ab|a`, vA(vS(a, b), a)
	case 13:
		return `a*`, vStar(a)
	case 14:
		return `a*?`, vStarL(a)
	case 15: // P
		return `a+`, vPlus(a)
	case 16: // P
		return `a+?`, vPlusL(a)
	case 17:
		return `a?`, vOpt(a)
	case 18:
		return `a??`, vOptL(a)
	case 19:
		return `a*b`, vS(vStar(a), b)
	case 20:
		return `.*?b`, vS(vStarL(vD()), b)
	case 21:
		return `(.+)(.+)`, vS(vG(1, vPlus(vD())), vG(2, vPlus(vD())))
	case 22:
		return `(.+?)(.*)`, vS(vG(1, vPlusL(vD())), vG(2, vStar(vD())))
	case 23:
		return `(.*?)(.*)`, vS(vG(1, vStarL(vD())), vG(2, vStar(vD())))
	case 24:
		return `(a*)(a+)`, vS(vG(1, vStar(a)), vG(2, vPlus(a)))
	case 25:
		return `(a|ab)(c|bc)?`, vS(vG(1, vA(a, vS(a, b))), vOpt(vG(2, vA(c, vS(b, c)))))
	// classes
	case 26: // list set
		return `[abc]x`, vS(vC("ac"), vL('x'))
	case 27: // full set (negated)
		return `[^abc]`, vN("ac")
	case 28: // half set
		return `[a-z]+`, vPlus(vC("az"))
	case 29:
		return `[a-c0-2]+?\d`, vS(vPlusL(vC("ac02")), vC(vdigit))
	case 30:
		return `\d+`, vPlus(vC(vdigit))
	case 31:
		return `\w+`, vPlus(vC(vword))
	case 32:
		return `\s\S`, vS(vC(vspace), vN(vspace))
	case 33:
		return `\D\W`, vS(vN(vdigit), vN(vword))
	case 34:
		return `[-a]x`, vS(vC("--aa"), vL('x'))
	case 35:
		return `(?i)[a-c]+`, vPlus(vC("acAC"))
	case 36:
		return `(?i)[^a]`, vN("aaAA")
	case 37:
		return `(?i)a(?-i)b`, vS(vI('a'), b)
	// anchors
	case 38:
		return `^a`, vS(vZ(vkBOL), a)
	case 39:
		return `a$`, vS(a, vZ(vkEOL))
	case 40:
		return `^$`, vS(vZ(vkBOL), vZ(vkEOL))
	case 41:
		return `^.*$`, vS(vZ(vkBOL), vStar(vD()), vZ(vkEOL))
	case 42:
		return `x*$`, vS(vStar(vL('x')), vZ(vkEOL))
	case 43:
		return `^x?`, vS(vZ(vkBOL), vOpt(vL('x')))
	case 44:
		return `\<\w+\>`, vS(vZ(vkWS), vPlus(vC(vword)), vZ(vkWE))
	case 45:
		return `(a)\Z`, vS(vG(1, a), vZ(vkSE))
	case 46:
		return `a\Z|b`, vA(vS(a, vZ(vkSE)), b)
	// groups in loops and alternations
	case 47:
		return `(a|b)*c`, vS(vStar(vG(1, vA(a, b))), c)
	case 48:
		return `(a)|(b)`, vA(vG(1, a), vG(2, b))
	case 49: // P
		return `a(b|c)`, vS(a, vG(1, vA(b, c)))
	case 50: // P
		return `ab+`, vS(a, vPlus(b))
	case 51: // P
		return `ab*c`, vS(a, vStar(b), c)
	case 52: // P
		return `ab?c`, vS(a, vOpt(b), c)
	// left anchored, one-pass
	case 53:
		return `\Aa?b`, vS(vZ(vkSS), vOpt(a), b)
	case 54:
		return `\A(a|b)c`, vS(vZ(vkSS), vG(1, vA(a, b)), c)
	case 55:
		return `\Aa*\Z`, vS(vZ(vkSS), vStar(a), vZ(vkSE))
	case 56:
		return `\Aab*c`, vS(vZ(vkSS), a, vStar(b), c)
	case 57:
		return `\A(a|bc)+\Z`, vS(vZ(vkSS), vPlus(vG(1, vA(a, vS(b, c)))), vZ(vkSE))
	case 58:
		return `\A[a-c]+\d`, vS(vZ(vkSS), vPlus(vC("ac")), vC(vdigit))
	case 59:
		return `\A(a|b)*c`, vS(vZ(vkSS), vStar(vG(1, vA(a, b))), c)
	// left anchored, not one-pass
	case 60:
		return `\Aa*`, vS(vZ(vkSS), vStar(a))
	case 61:
		return `\A(a|ab)b?`, vS(vZ(vkSS), vG(1, vA(a, vS(a, b))), vOpt(b))
	// nullable loop bodies
	case 62:
		return `(a*)*`, vStar(vG(1, vStar(a)))
	case 63:
		return `(a?)+b`, vS(vPlus(vG(1, vOpt(a))), b)
	}
	panic("vpat")
}

// vquick: the quick-tier subset (every compiled form and every construct at least once)
var vquick = []int{0, 1, 2, 3, 4, 5, 8, 9, 11, 13, 14, 16, 18, 21, 22, 25, 26, 27, 28, 31, 32,
	36, 39, 41, 44, 46, 47, 48, 50, 51, 53, 55, 57, 59, 61, 62}

func vpick() (string, *vre, int) {
	var pi int
	if rt.Thorough() {
		pi = rt.Pick("pat", vnpat)
	} else {
		pi = vquick[rt.Pick("pat", len(vquick))]
	}
	src, root := vpat(pi)
	return src, root, pi
}

func vsubject() string {
	n := 4
	if rt.Thorough() {
		n = 5
	}
	return rt.Str("s", rt.Pick("len", n))
}

func vsame(cap *Captures, want *vcaps, from int) bool {
	for i := from; i < 20; i++ {
		if int(cap[i]) != want[i] {
			return false
		}
	}
	return true
}

// C37 Match / Matches / FirstMatch: for every pattern of the committed list and every subject of
// 0..3 bytes (thorough 0..4): found or not, the match span and the spans of groups 1..9 equal
// the backtracking reference (leftmost start, then preference order), from every start position
// 0..len; Matches (no captures) agrees on found; All yields exactly the successive matches; no
// call panics.
//
//symgo:harness prop=C37 tier=quick shards=4 tshards=16 timeout=400 ttimeout=1700 bounds=36_committed_patterns_(thorough_64)_each_with_a_hand-built_AST;subject_of_0..3_arbitrary_bytes_(thorough_0..4);start_positions_0..len outside=symbolic_patterns;longer_subjects;(?q)_(?m)_posix_classes;\<_\>_not_adjacent_to_\w;start_positions_outside_0..len;Replacement
func VerifC37Match() {
	src, root, pi := vpick()
	s := vsubject()
	pat := Compile(src)
	rt.Reach("compiled")
	rt.Observe("pat", pi)

	var cap Captures
	var want vcaps
	ok := false
	kind := rt.TryKind(func() { ok = pat.Match(s, &cap) })
	rt.Assert("match/no-panic", kind == 0)
	wok := vfirst(root, s, 0, &want)
	rt.Observe("match", ok)
	rt.Observe("match0", cap[0])
	rt.Observe("match1", cap[1])
	rt.Assert("match/found", ok == wok)
	if ok && wok {
		rt.Assert("match/span", int(cap[0]) == want[0] && int(cap[1]) == want[1])
		rt.Assert("match/groups", vsame(&cap, &want, 2))
	}
	if wok {
		rt.Reach("matched")
	} else {
		rt.Reach("not-matched")
	}

	ok = false
	kind = rt.TryKind(func() { ok = pat.Matches(s) })
	rt.Assert("matches/no-panic", kind == 0)
	rt.Assert("matches/found", ok == wok)

	for from := 1; from <= len(s); from++ {
		ok = false
		kind = rt.TryKind(func() { ok = pat.FirstMatch(s, from, &cap) })
		rt.Assert("first/no-panic", kind == 0)
		wok = vfirst(root, s, from, &want)
		rt.Observe("first", ok)
		rt.Observe("first0", cap[0])
		rt.Assert("first/found", ok == wok)
		if ok && wok {
			rt.Assert("first/span", int(cap[0]) == want[0] && int(cap[1]) == want[1])
			rt.Assert("first/groups", vsame(&cap, &want, 2))
		}
	}

	// All: successive non-overlapping matches (after an empty match the search moves on one byte)
	var got []int
	kind = rt.TryKind(func() {
		pat.All(s)(func(c *Captures) bool {
			got = append(got, int(c[0]), int(c[1]))
			return len(got) < 20
		})
	})
	rt.Assert("all/no-panic", kind == 0)
	var exp []int
	for i := 0; i <= len(s) && vfirst(root, s, i, &want); i = max(want[1], want[0]+1) {
		exp = append(exp, want[0], want[1])
	}
	rt.Observe("all-n", len(got))
	same := len(got) == len(exp)
	for i := 0; same && i < len(got); i++ {
		same = got[i] == exp[i]
	}
	rt.Assert("all/sequence", same)
}

// C37 LastMatch(s, pos): the match that starts at the largest position <= pos (pos in 0..len),
// with the span and groups the reference finds there.
//
//symgo:harness prop=C37 tier=quick shards=4 tshards=16 timeout=400 ttimeout=1700 bounds=36_committed_patterns_(thorough_64);subject_of_0..3_arbitrary_bytes_(thorough_0..4);pos_0..len outside=symbolic_patterns;longer_subjects;pos_outside_0..len
func VerifC37Last() {
	src, root, pi := vpick()
	s := vsubject()
	pat := Compile(src)
	rt.Reach("compiled")
	rt.Observe("pat", pi)
	var cap Captures
	var want vcaps
	for pos := len(s); pos >= 0; pos-- {
		ok := false
		kind := rt.TryKind(func() { ok = pat.LastMatch(s, pos, &cap) })
		rt.Assert("last/no-panic", kind == 0)
		wok := vlast(root, s, pos, &want)
		rt.Observe("last", ok)
		rt.Observe("last0", cap[0])
		rt.Observe("last1", cap[1])
		// a match reported for pos must start at or before pos; when it does not, the other
		// comparisons for this pos are consequences of the same failure and are skipped
		after := ok && int(cap[0]) > pos
		rt.Assert("last/not-after-pos", !after)
		if after {
			continue
		}
		rt.Assert("last/found", ok == wok)
		if ok && wok {
			rt.Assert("last/span", int(cap[0]) == want[0] && int(cap[1]) == want[1])
			rt.Assert("last/groups", vsame(&cap, &want, 2))
		}
	}
}

// C37 start positions outside the subject: string.Match passes the caller's pos unchecked, so
// FirstMatch/LastMatch are reachable with any int. A position outside 0..len must not end in a
// Go runtime error (slice/index out of range).
//
//symgo:harness prop=C37 tier=quick shards=2 timeout=300 ttimeout=900 bounds=36_committed_patterns_(thorough_64);subject_of_0..1_arbitrary_bytes;pos_in_{-1,len+1,len+2} outside=other_out-of-range_positions;what_is_returned_for_them
func VerifC37StartPos() {
	src, _, pi := vpick()
	s := rt.Str("s", rt.Pick("len", 2))
	pat := Compile(src)
	rt.Reach("compiled")
	rt.Observe("pat", pi)
	var cap Captures
	last := rt.Pick("api", 2) == 1
	pos := []int{-1, len(s) + 1, len(s) + 2}[rt.Pick("pos", 3)]
	ok := false
	if last {
		kind := rt.TryKind(func() { ok = pat.LastMatch(s, pos, &cap) })
		rt.Observe("last", ok)
		rt.Assert("startpos/last-no-runtime-error", kind != 2)
	} else {
		kind := rt.TryKind(func() { ok = pat.FirstMatch(s, pos, &cap) })
		rt.Observe("first", ok)
		rt.Assert("startpos/first-no-runtime-error", kind != 2)
	}
}
