package ast

import (
	tok "github.com/apmckinlay/gsuneido/compile/tokens"
	. "github.com/apmckinlay/gsuneido/core"
	rt "github.com/apmckinlay/gsuneido/zzverifrt"
)

// C25: query expressions evaluate like language expressions.
//
// A where/extend expression over the fields of a row is built twice (fresh nodes). On one tree
// CanEvalRaw(fields) is called first, as the query engine does, so that its Eval takes the raw
// path (EvalRaw: comparisons of the stored, packed encodings); the other tree is evaluated by
// value. The Context holds, for every field, a value and its real pack (core.Pack), literals are
// packed by the real Constant.CanEvalRaw.
// Oracle: both evaluations give the same value. The one documented exception - "" sorts before
// everything in packed form but between numbers and strings as a value - is assumed away: no
// order comparison (< <= > >=, range) has "" on exactly one side and a non-string on the other.
// For numbers the by-value result is also compared with plain Go integer comparison.

type v25val struct {
	v      Value
	raw    string
	kind   int
	n      int // the number (kind v25kNum)
	digits int // its number of digits (VerifC25RawNum)
}

const (
	v25kBool = iota
	v25kNum
	v25kStr
	v25kDate
)

type v25ctx struct {
	names []string
	vals  []v25val
}

func (c *v25ctx) find(id string) v25val {
	for i, n := range c.names {
		if n == id {
			return c.vals[i]
		}
	}
	panic("no such field: " + id)
}
func (c *v25ctx) GetVal(id string) Value  { return c.find(id).v }
func (c *v25ctx) GetRaw(id string) string { return c.find(id).raw }
func (c *v25ctx) Thread() *Thread         { return nil }

func (c *v25ctx) field(name string, v v25val) Expr {
	for _, n := range c.names {
		if n == name {
			return &Ident{Name: name}
		}
	}
	c.names, c.vals = append(c.names, name), append(c.vals, v)
	return &Ident{Name: name}
}

func v25lit(v v25val) Expr { return &Constant{Val: v.v} }

// v25excepted: the documented exception: exactly one side is "" and the other is not a string
func v25excepted(p, q v25val) bool {
	pe, qe := p.kind == v25kStr && p.raw == "", q.kind == v25kStr && q.raw == ""
	return (pe && q.kind != v25kStr) || (qe && p.kind != v25kStr)
}

// v25negPrefix: two negative numbers whose packed forms differ in length and the shorter is a
// prefix of the longer (-100 / -101): the stored format cannot order these (C13 order/negative-prefix)
func v25negPrefix(p, q v25val) bool {
	if p.kind != v25kNum || q.kind != v25kNum || p.n >= 0 || q.n >= 0 || len(p.raw) == len(q.raw) {
		return false
	}
	short, long := p.raw, q.raw
	if len(long) < len(short) {
		short, long = long, short
	}
	return long[:len(short)] == short
}

var v25cmp = []tok.Token{tok.Is, tok.Isnt, tok.Lt, tok.Lte, tok.Gt, tok.Gte}

func v25isOrder(t tok.Token) bool { return t != tok.Is && t != tok.Isnt }

func v25model(t tok.Token, a, b int) bool {
	switch t {
	case tok.Is:
		return a == b
	case tok.Isnt:
		return a != b
	case tok.Lt:
		return a < b
	case tok.Lte:
		return a <= b
	case tok.Gt:
		return a > b
	}
	return a >= b
}

// v25check: one expression shape over values supplied by gen; nums: all values are numbers
// (adds the Go-integer model).
func v25check(gen func(tag string, like *v25val) v25val, nums bool) {
	ctx := &v25ctx{}
	ordered := false   // an order comparison takes part
	negPrefix := false // ... between a negative-prefix pair
	cmpPair := func(t tok.Token, p, q v25val) {
		if v25isOrder(t) {
			ordered = true
			rt.Assume(!v25excepted(p, q))
			if v25negPrefix(p, q) {
				negPrefix = true
			}
		}
	}
	var mk func() Expr
	model, hasModel := false, false
	// the values are drawn before the shape and the operators, so that the (expensive) packing
	// is shared by the paths that differ only in the expression
	lists := !(nums && !rt.Thorough()) && rt.Pick("lists", 2) == 1 // shapes with two literals
	c := gen("c", nil)
	var f, d v25val
	// numbers: f is of the sign and digit count of c, except (thorough) in f op c
	mixed := nums && !lists && rt.Thorough() && rt.Pick("mixed", 2) == 1
	if nums && !mixed {
		f = gen("f", &c)
	} else {
		f = gen("f", nil)
	}
	if lists {
		if rt.Thorough() && !nums {
			d = gen("d", nil)
		} else {
			d = gen("d", &c) // quick, numbers: the second literal is of the kind (numbers: sign and digit count) of the first
		}
	}
	g, e := f, c // the second comparison / the branches of ?: use f and c again
	var shape int
	if lists {
		shape = 3 + rt.Pick("shape", 2)
	} else {
		shapes := []int{0, 1, 2, 5, 6, 7}
		if nums && (mixed || !rt.Thorough()) {
			shapes = []int{0} // the other shapes evaluate the same comparisons
		}
		shape = shapes[rt.Pick("shape", len(shapes))]
	}
	switch shape {
	case 0, 1, 2: // f op c, c op f, f op g
		t := v25cmp[rt.Pick("tok", 6)]
		switch shape {
		case 0:
			cmpPair(t, f, c)
			mk = func() Expr { return &Binary{Lhs: ctx.field("f", f), Tok: t, Rhs: v25lit(c)} }
			model = v25model(t, f.n, c.n)
		case 1:
			cmpPair(t, c, f)
			mk = func() Expr { return &Binary{Lhs: v25lit(c), Tok: t, Rhs: ctx.field("f", f)} }
			model = v25model(t, c.n, f.n)
		case 2:
			cmpPair(t, f, c)
			mk = func() Expr { return &Binary{Lhs: ctx.field("f", f), Tok: t, Rhs: ctx.field("g", c)} }
			model = v25model(t, f.n, c.n)
		}
		hasModel = nums
	case 3: // f in (c, d), f not in (c, d)
		not := rt.Pick("not", 2) == 1
		mk = func() Expr {
			var e Expr = &In{E: ctx.field("f", f), Exprs: []Expr{v25lit(c), v25lit(d)}}
			if not {
				e = &Unary{Tok: tok.Not, E: e}
			}
			return e
		}
		model, hasModel = (f.n == c.n || f.n == d.n) != not, nums
	case 4: // c <(=) f <(=) d as the Folder's InRange node
		ot := []tok.Token{tok.Gt, tok.Gte}[rt.Pick("orgtok", 2)]
		et := []tok.Token{tok.Lt, tok.Lte}[rt.Pick("endtok", 2)]
		cmpPair(ot, f, c)
		cmpPair(et, f, d)
		mk = func() Expr {
			return &InRange{E: ctx.field("f", f), Org: v25lit(c), OrgTok: ot, End: v25lit(d), EndTok: et}
		}
		model, hasModel = v25model(ot, f.n, c.n) && v25model(et, f.n, d.n), nums
	case 5: // not (f op c)
		t := v25cmp[rt.Pick("tok", 6)]
		cmpPair(t, f, c)
		mk = func() Expr {
			return &Unary{Tok: tok.Not, E: &Unary{Tok: tok.LParen, E: &Binary{Lhs: ctx.field("f", f), Tok: t, Rhs: v25lit(c)}}}
		}
		model, hasModel = !v25model(t, f.n, c.n), nums
	case 6: // f op c and/or g op d (g, d are f, c again; quick: the second operator is is or <)
		t1 := v25cmp[rt.Pick("tok", 6)]
		t2 := []tok.Token{tok.Is, tok.Lt}[rt.Pick("tok2", 2)]
		if rt.Thorough() && !nums {
			t2 = v25cmp[rt.Pick("tok3", 6)]
		}
		cmpPair(t1, f, c)
		cmpPair(t2, g, e)
		or := rt.Pick("or", 2) == 1
		mk = func() Expr {
			es := []Expr{&Binary{Lhs: ctx.field("f", f), Tok: t1, Rhs: v25lit(c)}, &Binary{Lhs: ctx.field("g", g), Tok: t2, Rhs: v25lit(e)}}
			if or {
				return &Nary{Tok: tok.Or, Exprs: es}
			}
			return &Nary{Tok: tok.And, Exprs: es}
		}
		m1, m2 := v25model(t1, f.n, c.n), v25model(t2, g.n, e.n)
		model, hasModel = (or && (m1 || m2)) || (!or && m1 && m2), nums
	case 7: // f op c ? g : d (a value of any kind comes back through Unpack)
		t := v25cmp[rt.Pick("tok", 6)]
		if rt.Thorough() && !nums {
			g, e = gen("g", &f), gen("e", &c) // other values of the same kinds
		}
		cmpPair(t, f, c)
		mk = func() Expr {
			return &Trinary{Cond: &Binary{Lhs: ctx.field("f", f), Tok: t, Rhs: v25lit(c)}, T: ctx.field("g", g), F: v25lit(e)}
		}
	}
	plain, rawExpr := mk(), mk()
	flds := append([]string(nil), ctx.names...)
	can := rawExpr.CanEvalRaw(flds)
	rt.Reach("built")
	rt.Assert("raw/these-shapes-are-evaluated-raw", can)
	var v1, v2 Value
	t1 := rt.Try(func() { v1 = plain.Eval(ctx) })
	t2 := rt.Try(func() { v2 = rawExpr.Eval(ctx) })
	rt.Observe("value-threw", t1)
	rt.Observe("raw-threw", t2)
	rt.Assert("raw/same-exception", t1 == t2)
	if t1 || t2 {
		return
	}
	rt.Reach("evaluated")
	same := v1.Type() == v2.Type() && v1.Equal(v2) && v2.Equal(v1)
	rt.Observe("same", same)
	switch {
	case negPrefix:
		rt.Reach("negative-prefix-pair")
		rt.Assert("raw/negative-prefix-order", same)
	case ordered:
		rt.Assert("raw/order", same)
	default:
		rt.Assert("raw/equality", same)
	}
	if hasModel {
		rt.Assert("eval/number-model", v1 == SuBool(model))
	}
}

// v25any: a boolean, a string of 0..maxLen bytes, a date or timestamp with arbitrary field bits
// (built by the real Unpack from its stored form), or one of a few numbers.
func v25any(maxLen int) func(tag string, like *v25val) v25val {
	return func(tag string, like *v25val) v25val {
		var kind int
		if like != nil {
			kind = like.kind
		} else {
			kind = rt.Pick(tag+".kind", 4)
		}
		switch kind {
		case v25kBool:
			v := SuBool(rt.Bool(tag + ".b"))
			return v25val{v: v, raw: Pack(v), kind: kind}
		case v25kNum:
			n := []int{0, -1, 250}[rt.Pick(tag+".n", 3)]
			v := IntVal(n)
			return v25val{v: v, raw: Pack(v), kind: kind, n: n}
		case v25kStr:
			v := SuStr(rt.Str(tag+".s", rt.Pick(tag+".len", maxLen+1)))
			return v25val{v: v, raw: Pack(v), kind: kind}
		}
		n := 8 + rt.Pick(tag+".ts", 2)
		b := rt.Bytes(tag+".d", n)
		if n == 9 {
			rt.Assume(b[8] != 0)
		}
		raw := string([]byte{PackDate}) + string(b)
		v := Unpack(raw)
		return v25val{v: v, raw: raw, kind: v25kDate}
	}
}

// C25 all kinds of values.
//
//symgo:harness prop=C25 tier=quick shards=4 tshards=8 timeout=300 ttimeout=1700 bounds=shapes:f_op_c,c_op_f,f_op_g_(is_isnt_<_<=_>_>=),f_[not]_in_(c,d),c_<(=)_f_<(=)_d_(InRange),not_(f_op_c),f_op_c_and|or_f_op2_c_(quick_op2_is_or_<),f_op_c_?_f_:_c_(thorough_?_g_:_d_of_the_same_kinds);quick:_second_members_of_lists_and_ranges_of_the_kind_of_the_first;fields_and_literals_each:boolean|number_from_{0,-1,250}|string_of_0..1_(thorough_2)_bytes|date_or_timestamp_with_any_field_bits;no_order_comparison_of_""_with_a_non-string outside=symbolic_numbers_(VerifC25RawNum);Number?/String?/Date?_calls;_lower!_fields;objects
func VerifC25Raw() {
	maxLen := 1
	if rt.Thorough() {
		maxLen = 2
	}
	v25check(v25any(maxLen), false)
}

// v25num: an integer of a digit class (sign, number of digits) in its canonical representation.
func v25num(digits []int) func(tag string, like *v25val) v25val {
	return func(tag string, like *v25val) v25val {
		var k int
		var neg bool
		if like != nil {
			k, neg = like.digits, like.n < 0
		} else {
			k = digits[rt.Pick(tag+".digits", len(digits))]
			neg = k > 0 && rt.Pick(tag+".neg", 2) == 1
		}
		n := 0
		if k > 0 {
			lo := 1
			for i := 1; i < k; i++ {
				lo *= 10
			}
			n = rt.IntRange(tag+".n", lo, lo*10-1)
			if neg {
				n = -n
			}
		}
		v := IntVal(n)
		return v25val{v: v, raw: Pack(v), kind: v25kNum, n: n, digits: k}
	}
}

// C25 numbers: every field and literal a symbolic integer (small-int representation, packed by
// the real code through dnum.FromInt).
//
//symgo:harness prop=C25 tier=quick arith=int shards=3 tshards=16 timeout=300 ttimeout=1700 qtimeout=20000 bounds=quick:_f_op_c_(is_isnt_<_<=_>_>=)_with_f_and_c_any_two_integers_of_3_digits_and_the_same_sign;thorough:_all_shapes_of_VerifC25Raw_with_fields_and_literals_zero_or_integers_of_3_digits,_all_of_one_sign_and_digit_count,_and_f_op_c_with_any_mix_of_those outside=decimals_with_fractions;integers_of_other_digit_counts_(the_order_of_all_packed_numbers_is_C13)
func VerifC25RawNum() {
	digits := []int{3}
	if rt.Thorough() {
		digits = []int{0, 3}
	}
	v25check(v25num(digits), true)
}
