package ast

import (
	tok "github.com/apmckinlay/gsuneido/compile/tokens"
	. "github.com/apmckinlay/gsuneido/core"
	rt "github.com/apmckinlay/gsuneido/zzverifrt"
)

// C30 (Folder part): constant folding preserves meaning.
//
// The same expression is built twice, bottom up, through the two real ast.Builders exactly as
// the parser calls them: Factory (no folding) and Folder. Every operand is a symbolic value v
// that is either a literal (&Constant{v}) or an identifier whose value in the harness Context
// is v. Both trees are evaluated with the real Eval under the same Context.
// Oracle: both throw, or both return the same value (same type class and Equal); for the
// arithmetic shapes the unfolded result is also compared with plain Go integer arithmetic.
//
// Domain (DESIGN.md section 4, C30): the shapes the parser can produce (Sub/Div unaries only as
// operands of Add/Mul; nested n-ary operands wrapped in the LParen unary), well typed operands
// (numbers under numeric operators, booleans under and/or/not, strings under $), integers small
// enough that all arithmetic stays in exact integers, divisors non-zero and dividing exactly.

// v30ctx is the harness Context: three identifiers.
type v30ctx struct {
	names []string
	vals  []Value
}

func (c *v30ctx) GetVal(id string) Value {
	for i, n := range c.names {
		if n == id {
			return c.vals[i]
		}
	}
	panic("uninitialized variable: " + id)
}
func (c *v30ctx) GetRaw(id string) string { panic("raw evaluation is not used here") }
func (c *v30ctx) Thread() *Thread         { return nil }

// v30opd is one operand: a value that appears either as a literal or as an identifier.
type v30opd struct {
	val     Value
	isConst bool
	name    string
}

func (o v30opd) expr() Expr {
	if o.isConst {
		return &Constant{Val: o.val}
	}
	return &Ident{Name: o.name}
}

var v30names = []string{"w", "x", "y", "z"}

// v30operands: n operands, each literal or identifier (forked), values supplied by mk.
// Identifier i is named v30names[i] unless alias says otherwise.
func v30operands(n int, mk func(i int) Value) ([]v30opd, *v30ctx) {
	ops := make([]v30opd, n)
	ctx := &v30ctx{}
	for i := range n {
		ops[i] = v30opd{val: mk(i), isConst: rt.Pick("const"+v30names[i], 2) == 1, name: v30names[i]}
		if !ops[i].isConst {
			ctx.names = append(ctx.names, ops[i].name)
			ctx.vals = append(ctx.vals, ops[i].val)
		}
	}
	return ops, ctx
}

// v30run builds the expression with both builders, evaluates both and applies the oracle.
// It returns the unfolded result (nil if it threw).
func v30run(label string, ctx *v30ctx, build func(b Builder) Expr) Value {
	var e1, e2 Expr
	e1 = build(Factory{})
	foldThrew := rt.Try(func() { e2 = build(Folder{}) })
	var v1, v2 Value
	t1 := rt.Try(func() { v1 = e1.Eval(ctx) })
	rt.Reach("evaluated")
	rt.Observe("unfolded-threw", t1)
	rt.Observe("fold-threw", foldThrew)
	if foldThrew {
		// a compile-time exception is the exception the operation raises at run time
		rt.Assert(label+"/compile-time-throw-only-if-run-time-throws", t1)
		return nil
	}
	t2 := rt.Try(func() { v2 = e2.Eval(ctx) })
	rt.Observe("folded-threw", t2)
	rt.Assert(label+"/same-exception", t1 == t2)
	if t1 || t2 {
		return nil
	}
	same := v1.Type() == v2.Type() && v1.Equal(v2) && v2.Equal(v1)
	rt.Observe("same", same)
	rt.Assert(label+"/same-value", same)
	return v1
}

func v30int(name string, lim int) int { return rt.IntRange(name, -lim, lim) }

func v30isInt(v Value, want int) bool {
	if v == nil {
		return false
	}
	n, ok := SuIntToInt(v)
	return ok && n == want
}

// C30 n-ary + (with -) and * (with /): 2..3 (thorough 4) operands, each a literal or an
// identifier, operands after the first optionally inverted (a - b is Add(a, Sub b), a / b is
// Mul(a, Div b), as the parser builds them).
//
//symgo:harness prop=C30 tier=quick arith=int shards=8 tshards=16 timeout=300 ttimeout=1700 qtimeout=20000 bounds=n-ary_+_-_and_*_/_with_2..3_(thorough_4)_operands,_each_a_literal_or_an_identifier;integer_values_|v|<=99;divisors_non-zero,_total_divisor_divides_total_product_and_constant_divisor_divides_constant_product outside=decimals_and_inexact_division;zero_divisors;ill-typed_operands
func VerifC30FoldArith() {
	maxN := 3
	if rt.Thorough() {
		maxN = 4
	}
	n := 2 + rt.Pick("n", maxN-1)
	mul := rt.Pick("mul", 2) == 1
	raw := make([]int, n)
	ops, ctx := v30operands(n, func(i int) Value {
		raw[i] = v30int("v"+v30names[i], 99)
		return IntVal(raw[i])
	})
	inv := make([]bool, n)
	for i := 1; i < n; i++ {
		inv[i] = rt.Pick("inv"+v30names[i], 2) == 1
	}
	// model
	want := 0
	leadingDiv := false
	if mul {
		num, den, cnum, cden := 1, 1, 1, 1
		seenVar := false
		for i := range n {
			if inv[i] {
				rt.Assume(raw[i] != 0)
				den *= raw[i]
				if ops[i].isConst {
					cden *= raw[i]
				} else if !seenVar {
					seenVar, leadingDiv = true, ops[0].isConst
				}
			} else {
				num *= raw[i]
				if ops[i].isConst {
					cnum *= raw[i]
				} else {
					seenVar = true
				}
			}
		}
		// exact division at run time, and at compile time when the Folder divides the constant
		// multiplier by the constant divisor
		rt.Assume(num%den == 0 && (cnum == 1 || cnum%cden == 0))
		want = num / den
		if cnum == 0 {
			leadingDiv = false // literal zero: folded to 0
		}
	} else {
		for i := range n {
			if inv[i] {
				want -= raw[i]
			} else {
				want += raw[i]
			}
		}
	}
	token, invTok := tok.Add, tok.Sub
	if mul {
		token, invTok = tok.Mul, tok.Div
	}
	label := "fold/arith"
	if leadingDiv {
		// literal / identifier: the folded list starts with the Div unary
		rt.Reach("literal-over-identifier")
		label = "fold/literal-over-identifier"
	}
	v1 := v30run(label, ctx, func(b Builder) Expr {
		es := make([]Expr, n)
		for i := range n {
			es[i] = ops[i].expr()
			if inv[i] {
				es[i] = b.Unary(invTok, es[i])
			}
		}
		return b.Nary(token, es)
	})
	rt.Assert("eval/arith-model", v30isInt(v1, want))
}
