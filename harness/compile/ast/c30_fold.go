package ast

import (
	tok "github.com/apmckinlay/gsuneido/compile/tokens"
	. "github.com/apmckinlay/gsuneido/core"
	rt "github.com/apmckinlay/gsuneido/zzverifrt"
)

// C30 (Folder part): constant folding preserves meaning.
//
// The same expression is built twice, bottom up, through the two real ast.Builders exactly as
// the parser calls them: Factory (no folding) and Folder. Every operand is a symbolic value v
// that is either a literal (&Constant{v}) or an identifier whose value in the harness Context
// is v. Both trees are evaluated with the real Eval under the same Context.
// Oracle: both throw, or both return the same value (same type class and Equal); for the
// arithmetic shapes the unfolded result is also compared with plain Go integer arithmetic.
//
// Domain (DESIGN.md section 4, C30): the shapes the parser can produce (Sub/Div unaries only as
// operands of Add/Mul; nested n-ary operands wrapped in the LParen unary), well typed operands
// (numbers under numeric operators, booleans under and/or/not, strings under $), integers small
// enough that all arithmetic stays in exact integers, divisors non-zero and dividing exactly.

// v30ctx is the harness Context: three identifiers.
type v30ctx struct {
	names []string
	vals  []Value
}

func (c *v30ctx) GetVal(id string) Value {
	for i, n := range c.names {
		if n == id {
			return c.vals[i]
		}
	}
	panic("uninitialized variable: " + id)
}
func (c *v30ctx) GetRaw(id string) string { panic("raw evaluation is not used here") }
func (c *v30ctx) Thread() *Thread         { return nil }

// v30opd is one operand: a value that appears either as a literal or as an identifier.
type v30opd struct {
	val     Value
	isConst bool
	name    string
}

func (o v30opd) expr() Expr {
	if o.isConst {
		return &Constant{Val: o.val}
	}
	return &Ident{Name: o.name}
}

var v30names = []string{"w", "x", "y", "z"}

// v30operands: n operands, each literal or identifier (forked), values supplied by mk.
// Identifier i is named v30names[i] unless alias says otherwise.
func v30operands(n int, mk func(i int) Value) ([]v30opd, *v30ctx) {
	ops := make([]v30opd, n)
	ctx := &v30ctx{}
	for i := range n {
		ops[i] = v30opd{val: mk(i), isConst: rt.Pick("const"+v30names[i], 2) == 1, name: v30names[i]}
		if !ops[i].isConst {
			ctx.names = append(ctx.names, ops[i].name)
			ctx.vals = append(ctx.vals, ops[i].val)
		}
	}
	return ops, ctx
}

// v30run builds the expression with both builders, evaluates both and applies the oracle.
// It returns the unfolded result (nil if it threw).
func v30run(label string, ctx *v30ctx, build func(b Builder) Expr) Value {
	var e1, e2 Expr
	e1 = build(Factory{})
	foldThrew := rt.Try(func() { e2 = build(Folder{}) })
	var v1, v2 Value
	t1 := rt.Try(func() { v1 = e1.Eval(ctx) })
	rt.Reach("evaluated")
	rt.Observe("unfolded-threw", t1)
	rt.Observe("fold-threw", foldThrew)
	if foldThrew {
		// a compile-time exception is the exception the operation raises at run time
		rt.Assert(label+"/compile-time-throw-only-if-run-time-throws", t1)
		return nil
	}
	t2 := rt.Try(func() { v2 = e2.Eval(ctx) })
	rt.Observe("folded-threw", t2)
	rt.Assert(label+"/same-exception", t1 == t2)
	if t1 || t2 {
		return nil
	}
	same := v1.Type() == v2.Type() && v1.Equal(v2) && v2.Equal(v1)
	rt.Observe("same", same)
	rt.Assert(label+"/same-value", same)
	return v1
}

func v30int(name string, lim int) int { return rt.IntRange(name, -lim, lim) }

func v30isInt(v Value, want int) bool {
	if v == nil {
		return false
	}
	n, ok := SuIntToInt(v)
	return ok && n == want
}

// v30normalizeProducts switches on the engine's canonical form for integer products (see
// engine/symgo/x_c30.go); natively it does nothing.
func v30normalizeProducts() {}

// C30 n-ary + (with -): 2..3 (thorough 4) operands, each a literal or an identifier, operands
// after the first optionally subtracted (a - b is Add(a, Sub b) as the parser builds it).
//
//symgo:harness prop=C30 tier=quick arith=int shards=4 tshards=8 timeout=300 ttimeout=1700 qtimeout=20000 bounds=n-ary_+_and_-_with_2..3_(thorough_4)_operands,_each_a_literal_or_an_identifier;integer_values_|v|<=8000_(all_results_small_ints) outside=decimals_and_larger_integers;ill-typed_operands
func VerifC30FoldAdd() {
	maxN := 3
	if rt.Thorough() {
		maxN = 4
	}
	n := 2 + rt.Pick("n", maxN-1)
	raw := make([]int, n)
	ops, ctx := v30operands(n, func(i int) Value {
		raw[i] = v30int("v"+v30names[i], 8000)
		return IntVal(raw[i])
	})
	inv := make([]bool, n)
	want := raw[0]
	for i := 1; i < n; i++ {
		inv[i] = rt.Pick("inv"+v30names[i], 2) == 1
		if inv[i] {
			want -= raw[i]
		} else {
			want += raw[i]
		}
	}
	v1 := v30run("fold/add", ctx, func(b Builder) Expr {
		es := make([]Expr, n)
		for i := range n {
			es[i] = ops[i].expr()
			if inv[i] {
				es[i] = b.Unary(tok.Sub, es[i])
			}
		}
		return b.Nary(tok.Add, es)
	})
	rt.Assert("eval/add-model", v30isInt(v1, want))
}

// C30 n-ary * (with /): 2..3 (thorough 4) operands, each a literal or an identifier, operands
// after the first optionally divisors (a / b is Mul(a, Div b) as the parser builds it). Exact
// division by construction: every divisor d is a non-zero symbolic integer, the first operand is
// a multiple of the product of the identifier divisors, and the first literal multiplier (the
// first operand if there is none) is a multiple of the product of the literal divisors.
//
//symgo:harness prop=C30 tier=quick arith=int shards=4 tshards=16 timeout=300 ttimeout=1700 qtimeout=20000 bounds=n-ary_*_and_/_with_2..3_(thorough_4)_operands,_each_a_literal_or_an_identifier;multipliers_m*(divisors_they_carry),_|m|<=9;divisors_1<=|d|<=3_(all_results_small_ints);all_divisions_exact_by_construction outside=decimals_and_inexact_division;zero_divisors;ill-typed_operands
func VerifC30FoldMul() {
	v30normalizeProducts()
	maxN := 3
	if rt.Thorough() {
		maxN = 4
	}
	n := 2 + rt.Pick("n", maxN-1)
	isConst, inv, f := make([]bool, n), make([]bool, n), make([]int, n)
	firstConstMul, firstIdent := -1, -1
	hasConstDiv := false
	for i := range n {
		isConst[i] = rt.Pick("const"+v30names[i], 2) == 1
		inv[i] = i > 0 && rt.Pick("inv"+v30names[i], 2) == 1
		if inv[i] {
			f[i] = v30int("v"+v30names[i], 3)
			rt.Assume(f[i] != 0)
			hasConstDiv = hasConstDiv || isConst[i]
		} else {
			f[i] = v30int("v"+v30names[i], 9)
			if isConst[i] && firstConstMul < 0 {
				firstConstMul = i
			}
		}
		if !isConst[i] && firstIdent < 0 {
			firstIdent = i
		}
	}
	// the values: divisors as drawn, multipliers times the divisors they carry
	raw := make([]int, n)
	copy(raw, f)
	want := 1
	for i := range n {
		switch {
		case !inv[i]:
			want *= f[i]
		case isConst[i] && firstConstMul >= 0:
			raw[firstConstMul] *= f[i]
		default:
			raw[0] *= f[i]
		}
	}
	ctx := &v30ctx{}
	ops := make([]v30opd, n)
	for i := range n {
		ops[i] = v30opd{val: IntVal(raw[i]), isConst: isConst[i], name: v30names[i]}
		if !isConst[i] {
			ctx.names, ctx.vals = append(ctx.names, ops[i].name), append(ctx.vals, ops[i].val)
		}
	}
	label := "fold/mul"
	if isConst[0] && firstIdent > 0 && inv[firstIdent] {
		// literal / identifier ...: after folding the operand list starts with the Div unary
		rt.Reach("literal-over-identifier")
		label = "fold/literal-over-identifier"
	}
	v1 := v30run(label, ctx, func(b Builder) Expr {
		es := make([]Expr, n)
		for i := range n {
			es[i] = ops[i].expr()
			if inv[i] {
				es[i] = b.Unary(tok.Div, es[i])
			}
		}
		return b.Nary(tok.Mul, es)
	})
	rt.Assert("eval/mul-model", v30isInt(v1, want))
}
