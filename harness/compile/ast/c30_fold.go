package ast

import (
	tok "github.com/apmckinlay/gsuneido/compile/tokens"
	. "github.com/apmckinlay/gsuneido/core"
	"github.com/apmckinlay/gsuneido/util/dnum"
	rt "github.com/apmckinlay/gsuneido/zzverifrt"
)

// C30 (Folder part): constant folding preserves meaning.
//
// The same expression is built twice, bottom up, through the two real ast.Builders exactly as
// the parser calls them: Factory (no folding) and Folder. Every operand is a symbolic value v
// that is either a literal (&Constant{v}) or an identifier whose value in the harness Context
// is v. Both trees are evaluated with the real Eval under the same Context.
// Oracle: both throw, or both return the same value (same type class and Equal); for the
// arithmetic shapes the unfolded result is also compared with plain Go integer arithmetic.
//
// Domain (DESIGN.md section 4, C30): the shapes the parser can produce (Sub/Div unaries only as
// operands of Add/Mul; nested n-ary operands wrapped in the LParen unary), well typed operands
// (numbers under numeric operators, booleans under and/or/not, strings under $), integers small
// enough that all arithmetic stays in exact integers, divisors non-zero and dividing exactly.

// v30ctx is the harness Context: the identifiers and their values.
type v30ctx struct {
	names []string
	vals  []Value
}

func (c *v30ctx) GetVal(id string) Value {
	for i, n := range c.names {
		if n == id {
			return c.vals[i]
		}
	}
	panic("uninitialized variable: " + id)
}
func (c *v30ctx) GetRaw(id string) string { panic("raw evaluation is not used here") }
func (c *v30ctx) Thread() *Thread         { return nil }

// v30opd is one operand: a value that appears either as a literal or as an identifier.
type v30opd struct {
	val     Value
	isConst bool
	name    string
}

func (o v30opd) expr() Expr {
	if o.isConst {
		return &Constant{Val: o.val}
	}
	return &Ident{Name: o.name}
}

var v30names = []string{"w", "x", "y", "z"}

// v30operands: n operands, each literal or identifier (forked), values supplied by mk.
func v30operands(n int, mk func(i int) Value) ([]v30opd, *v30ctx) {
	ops := make([]v30opd, n)
	ctx := &v30ctx{}
	for i := range n {
		ops[i] = v30opd{val: mk(i), isConst: rt.Pick("const"+v30names[i], 2) == 1, name: v30names[i]}
		if !ops[i].isConst {
			ctx.names = append(ctx.names, ops[i].name)
			ctx.vals = append(ctx.vals, ops[i].val)
		}
	}
	return ops, ctx
}

// v30run builds the expression with both builders, evaluates both and applies the oracle.
// It returns the unfolded result (nil if it threw).
func v30run(label string, ctx *v30ctx, build func(b Builder) Expr) Value {
	var e1, e2 Expr
	e1 = build(Factory{})
	foldThrew := rt.Try(func() { e2 = build(Folder{}) })
	var v1, v2 Value
	t1 := rt.Try(func() { v1 = e1.Eval(ctx) })
	rt.Reach("evaluated")
	rt.Observe("unfolded-threw", t1)
	rt.Observe("fold-threw", foldThrew)
	if foldThrew {
		// a compile-time exception is the exception the operation raises at run time
		rt.Assert(label+"/compile-time-throw-only-if-run-time-throws", t1)
		return nil
	}
	t2 := rt.Try(func() { v2 = e2.Eval(ctx) })
	rt.Observe("folded-threw", t2)
	rt.Assert(label+"/same-exception", t1 == t2)
	if t1 || t2 {
		return nil
	}
	same := v1.Type() == v2.Type() && v1.Equal(v2) && v2.Equal(v1)
	rt.Observe("same", same)
	rt.Assert(label+"/same-value", same)
	return v1
}

func v30int(name string, lim int) int { return rt.IntRange(name, -lim, lim) }

func v30isInt(v Value, want int) bool {
	if v == nil {
		return false
	}
	n, ok := SuIntToInt(v)
	return ok && n == want
}

// v30normalizeProducts switches on the engine's canonical form for integer products (see
// engine/symgo/x_c30.go); natively it does nothing.
func v30normalizeProducts() {}

// C30 n-ary + (with -) and * (with /): 2..3 (thorough 4) operands, each a literal or an
// identifier, operands after the first optionally inverted (a - b is Add(a, Sub b), a / b is
// Mul(a, Div b), as the parser builds them).
// Division is exact by construction: every divisor d is a non-zero symbolic integer, the first
// operand is a multiple of the product of the identifier divisors, and the first literal
// multiplier (the first operand if there is none) is a multiple of the product of the literal
// divisors; m below is the free factor of a multiplier.
// quick: all values and results are small ints. thorough: also sums of 2..3 integers up to 10^12
// (SuInt64 representation); products of four operands have no divisors (the solver is too slow
// on the four-operand division shapes).
//
//symgo:harness prop=C30 tier=quick arith=int shards=2 tshards=16 timeout=300 ttimeout=1700 qtimeout=20000 bounds=n-ary_+_-_and_*_/_with_2..3_operands_(thorough_also_+_-_and_*_with_4),_each_a_literal_or_an_identifier;+_-:_integers_|v|<=8000_(thorough_also_|v|<=10^12_with_2..3_operands);*_/:_multipliers_m*(divisors_they_carry)_|m|<=9,_divisors_1<=|d|<=3;all_divisions_exact_by_construction outside=decimals_and_inexact_division;zero_divisors;ill-typed_operands;integers_beyond_the_stated_ranges
func VerifC30FoldArith() {
	maxN := 3
	if rt.Thorough() {
		maxN = 4
	}
	switch {
	case rt.Pick("mul", 2) == 1:
		v30mul(maxN, 9, 3)
	case rt.Thorough() && rt.Pick("wide", 2) == 1:
		v30add(3, 1_000_000_000_000)
	default:
		v30add(maxN, 8000)
	}
}

func v30add(maxN, lim int) {
	n := 2 + rt.Pick("n", maxN-1)
	raw := make([]int, n)
	ops, ctx := v30operands(n, func(i int) Value {
		raw[i] = v30int("v"+v30names[i], lim)
		return IntVal(raw[i])
	})
	inv := make([]bool, n)
	want := raw[0]
	for i := 1; i < n; i++ {
		inv[i] = rt.Pick("inv"+v30names[i], 2) == 1
		if inv[i] {
			want -= raw[i]
		} else {
			want += raw[i]
		}
	}
	v1 := v30run("fold/add", ctx, func(b Builder) Expr {
		es := make([]Expr, n)
		for i := range n {
			es[i] = ops[i].expr()
			if inv[i] {
				es[i] = b.Unary(tok.Sub, es[i])
			}
		}
		return b.Nary(tok.Add, es)
	})
	rt.Assert("eval/add-model", v30isInt(v1, want))
}

func v30mul(maxN, mlim, dlim int) {
	v30normalizeProducts()
	n := 2 + rt.Pick("n", maxN-1)
	isConst, inv, f := make([]bool, n), make([]bool, n), make([]int, n)
	firstConstMul, firstIdent := -1, -1
	hasConstDiv := false
	for i := range n {
		isConst[i] = rt.Pick("const"+v30names[i], 2) == 1
		inv[i] = i > 0 && n < 4 && rt.Pick("inv"+v30names[i], 2) == 1 // (four operands: multipliers only)
		if inv[i] {
			f[i] = v30int("v"+v30names[i], dlim)
			rt.Assume(f[i] != 0)
			hasConstDiv = hasConstDiv || isConst[i]
		} else {
			f[i] = v30int("v"+v30names[i], mlim)
			if isConst[i] && firstConstMul < 0 {
				firstConstMul = i
			}
		}
		if !isConst[i] && firstIdent < 0 {
			firstIdent = i
		}
	}
	// the values: divisors as drawn, multipliers times the divisors they carry
	raw := make([]int, n)
	copy(raw, f)
	want := 1
	for i := range n {
		switch {
		case !inv[i]:
			want *= f[i]
		case isConst[i] && firstConstMul >= 0:
			raw[firstConstMul] *= f[i]
		default:
			raw[0] *= f[i]
		}
	}
	ctx := &v30ctx{}
	ops := make([]v30opd, n)
	for i := range n {
		ops[i] = v30opd{val: IntVal(raw[i]), isConst: isConst[i], name: v30names[i]}
		if !isConst[i] {
			ctx.names, ctx.vals = append(ctx.names, ops[i].name), append(ctx.vals, ops[i].val)
		}
	}
	label := "fold/mul"
	if isConst[0] && firstIdent > 0 && inv[firstIdent] {
		// literal / identifier ...: after folding the operand list starts with the Div unary
		rt.Reach("literal-over-identifier")
		label = "fold/literal-over-identifier"
	}
	v1 := v30run(label, ctx, func(b Builder) Expr {
		es := make([]Expr, n)
		for i := range n {
			es[i] = ops[i].expr()
			if inv[i] {
				es[i] = b.Unary(tok.Div, es[i])
			}
		}
		return b.Nary(tok.Mul, es)
	})
	rt.Assert("eval/mul-model", v30isInt(v1, want))
}

// ------------------------------------------------------------------------------------------
// the non-arithmetic shapes (bit-vector mode)

const (
	v30kInt = iota
	v30kStr
	v30kBool
)

func v30maxStr() int {
	if rt.Thorough() {
		return 2
	}
	return 1
}

// v30value: a symbolic value of the kind: any int8 as a small int, a string of 0..1 bytes, a boolean.
func v30value(tag string, kind int) Value {
	switch kind {
	case v30kInt:
		return IntVal(int(rt.I8(tag)))
	case v30kStr:
		return SuStr(rt.Str(tag, rt.Pick(tag+"len", v30maxStr()+1)))
	}
	return SuBool(rt.Bool(tag))
}

// lit: a literal; id: an identifier with that value; opd: one or the other (forked)
func (c *v30ctx) lit(val Value) v30opd { return v30opd{val: val, isConst: true} }
func (c *v30ctx) id(name string, val Value) v30opd {
	c.names, c.vals = append(c.names, name), append(c.vals, val)
	return v30opd{val: val, name: name}
}
func (c *v30ctx) opd(name string, val Value) v30opd {
	if rt.Pick("const"+name, 2) == 1 {
		return c.lit(val)
	}
	return c.id(name, val)
}

func v30naryLabel(t tok.Token) string {
	switch t {
	case tok.And, tok.Or:
		return "fold/and-or"
	case tok.Cat:
		return "fold/cat"
	}
	return "fold/bitop"
}

var v30cmpToks = []tok.Token{tok.Is, tok.Isnt, tok.Lt, tok.Lte, tok.Gt, tok.Gte}

// v30kindPair: the kinds of two compared values: mostly numbers, and the mixed-type pairs
func v30kindPair(tag string) (int, int) {
	p := [][2]int{{v30kInt, v30kInt}, {v30kStr, v30kStr}, {v30kInt, v30kStr}, {v30kStr, v30kInt}, {v30kBool, v30kInt}, {v30kBool, v30kBool}}
	k := p[rt.Pick(tag, len(p))]
	return k[0], k[1]
}

// C30 unary, binary, not(binary), and/or, bit operators, $, ?: and in.
//
//symgo:harness prop=C30 tier=quick shards=3 tshards=8 timeout=300 ttimeout=1700 bounds=operands_each_a_literal_or_an_identifier;numbers_any_int8,_strings_of_0..1_(thorough_2)_bytes,_booleans;unary_+_-_~_()_not;binary_is_isnt_<_<=_>_>=_on_number|string|boolean_pairs,_%_(divisor_non-zero)_<<_>>_(count_0..63)_on_numbers;not_(a_cmp_b);and_or_|_&_^_$_with_2..3_(thorough_4)_operands;c_?_a_:_b;e_in_(0..3_members) outside=match_operators;ill-typed_operands;decimals
func VerifC30FoldLogic() {
	ctx := &v30ctx{}
	maxN := 3
	if rt.Thorough() {
		maxN = 4
	}
	switch rt.Pick("shape", 8) {
	case 0: // unary
		t := []tok.Token{tok.Add, tok.Sub, tok.BitNot, tok.LParen, tok.Not}[rt.Pick("tok", 5)]
		kind := v30kInt
		if t == tok.Not {
			kind = v30kBool
		}
		o := ctx.opd("x", v30value("vx", kind))
		v30run("fold/unary", ctx, func(b Builder) Expr { return b.Unary(t, o.expr()) })
	case 1: // comparison, and not (comparison)
		t := v30cmpToks[rt.Pick("tok", 6)]
		k1, k2 := v30kindPair("kinds")
		l, r := ctx.opd("x", v30value("vx", k1)), ctx.opd("y", v30value("vy", k2))
		not := rt.Pick("not", 2) == 1
		v30run("fold/compare", ctx, func(b Builder) Expr {
			e := b.Binary(l.expr(), t, r.expr())
			if not {
				e = b.Unary(tok.Not, b.Unary(tok.LParen, e))
			}
			return e
		})
	case 2: // % << >>
		t := []tok.Token{tok.Mod, tok.LShift, tok.RShift}[rt.Pick("tok", 3)]
		x, y := int(rt.I8("vx")), int(rt.I8("vy"))
		if t == tok.Mod {
			rt.Assume(y != 0)
		} else {
			rt.Assume(0 <= y && y <= 63)
		}
		l, r := ctx.opd("x", IntVal(x)), ctx.opd("y", IntVal(y))
		v30run("fold/binary-int", ctx, func(b Builder) Expr { return b.Binary(l.expr(), t, r.expr()) })
	case 3: // and, or: booleans; | & ^: numbers; $: strings
		t := []tok.Token{tok.And, tok.Or, tok.BitOr, tok.BitAnd, tok.BitXor, tok.Cat}[rt.Pick("tok", 6)]
		kind := v30kInt
		switch t {
		case tok.And, tok.Or:
			kind = v30kBool
		case tok.Cat:
			kind = v30kStr
		}
		n := 2 + rt.Pick("n", maxN-1)
		ops := make([]v30opd, n)
		for i := range n {
			ops[i] = ctx.opd(v30names[i], v30value("v"+v30names[i], kind))
		}
		v30run(v30naryLabel(t), ctx, func(b Builder) Expr {
			es := make([]Expr, n)
			for i := range n {
				es[i] = ops[i].expr()
			}
			return b.Nary(t, es)
		})
	case 4: // nested n-ary of the same operator in parentheses: a op (b op c) op d
		t := []tok.Token{tok.And, tok.Or, tok.BitOr, tok.Cat}[rt.Pick("tok", 4)]
		kind := v30kInt
		switch t {
		case tok.And, tok.Or:
			kind = v30kBool
		case tok.Cat:
			kind = v30kStr
		}
		ops := make([]v30opd, 4)
		for i := range 4 {
			ops[i] = ctx.opd(v30names[i], v30value("v"+v30names[i], kind))
		}
		pos := rt.Pick("pos", 3) // the parenthesised pair is operand pos of the outer list (2 = none after it)
		v30run(v30naryLabel(t)+"-nested", ctx, func(b Builder) Expr {
			inner := b.Unary(tok.LParen, b.Nary(t, []Expr{ops[1].expr(), ops[2].expr()}))
			switch pos {
			case 0:
				return b.Nary(t, []Expr{inner, ops[0].expr(), ops[3].expr()})
			case 1:
				return b.Nary(t, []Expr{ops[0].expr(), inner, ops[3].expr()})
			}
			return b.Nary(t, []Expr{ops[0].expr(), ops[3].expr(), inner})
		})
	case 5: // c ? a : b
		c := ctx.opd("w", v30value("vw", v30kBool))
		a, f := ctx.opd("x", v30value("vx", v30kInt)), ctx.opd("y", v30value("vy", v30kInt))
		v30run("fold/trinary", ctx, func(b Builder) Expr { return b.Trinary(c.expr(), a.expr(), f.expr()) })
	case 6, 7: // e in (members), e not in (members)
		kind := []int{v30kInt, v30kStr}[rt.Pick("kind", 2)]
		e := ctx.opd("w", v30value("vw", kind))
		n := rt.Pick("n", 4)
		ms := make([]v30opd, n)
		for i := range n {
			ms[i] = ctx.opd(v30names[i+1], v30value("v"+v30names[i+1], kind))
		}
		not := rt.Pick("not", 2) == 1
		v30run("fold/in", ctx, func(b Builder) Expr {
			es := make([]Expr, n)
			for i := range n {
				es[i] = ms[i].expr()
			}
			r := b.In(e.expr(), es)
			if not {
				r = b.Unary(tok.Not, r)
			}
			return r
		})
	}
}

// v30term is one comparison of an identifier with a literal or another identifier, written with
// the identifier on the left or on the right.
type v30term struct {
	id, other v30opd
	t         tok.Token
	flip      bool
}

func (m v30term) expr(b Builder) Expr {
	if m.flip {
		return b.Binary(m.other.expr(), m.t, m.id.expr())
	}
	return b.Binary(m.id.expr(), m.t, m.other.expr())
}

// C30 range folding (x > a and x < b => InRange) and or-to-in folding (x is a or x is b => in).
// Two comparisons of the identifiers x / y with literals (thorough: the first also with an
// identifier), optionally
// a further boolean identifier before, between or after them (as the parser builds `p and x > a
// and x < b`).
//
//symgo:harness prop=C30 tier=quick shards=3 tshards=8 timeout=300 ttimeout=1700 bounds=and_of_two_comparisons_(<_<=_>_>=)_and_or_of_two_is-comparisons,_of_identifier_x_then_x_or_y,_with_literals_(thorough:_the_first_also_an_identifier);first_comparison_written_either_way_round;optional_boolean_identifier_term_before_or_after_(thorough_also_between);values:identifiers_number|string_(thorough_also_boolean),_literal_pairs_number-number|number-string_(thorough_also_string-string);numbers_any_int8,_strings_0..1_(thorough_2)_bytes outside=member_expressions_(.x);more_than_two_comparisons;decimals
func VerifC30FoldRangeIn() {
	ctx := &v30ctx{}
	isOr := rt.Pick("or", 2) == 1
	nk, extras := 2, []int{0, 1, 3}
	if rt.Thorough() {
		nk, extras = 3, []int{0, 1, 2, 3}
	}
	xk := rt.Pick("xkind", nk)
	x := ctx.id("x", v30value("vx", xk))
	id2 := x
	if rt.Pick("second-id", 2) == 1 {
		id2 = ctx.id("y", v30value("vy", xk))
	}
	lks := [][2]int{{v30kInt, v30kInt}, {v30kInt, v30kStr}}
	if rt.Thorough() {
		lks = append(lks, [2]int{v30kStr, v30kStr})
	}
	lk := lks[rt.Pick("litkinds", len(lks))]
	var a, c v30opd
	if rt.Thorough() {
		a, c = ctx.opd("a", v30value("va", lk[0])), ctx.lit(v30value("vc", lk[1]))
	} else {
		a, c = ctx.lit(v30value("va", lk[0])), ctx.lit(v30value("vc", lk[1]))
	}
	t1 := v30term{id: x, other: a, flip: rt.Pick("flip", 2) == 1}
	t2 := v30term{id: id2, other: c}
	label := "fold/range"
	if isOr {
		label = "fold/or-to-in"
		t1.t, t2.t = tok.Is, tok.Is
		if rt.Pick("isnt", 4) == 3 {
			t2.t = tok.Isnt
		}
	} else {
		rng := []tok.Token{tok.Lt, tok.Lte, tok.Gt, tok.Gte}
		t1.t, t2.t = rng[rt.Pick("tok1", 4)], rng[rt.Pick("tok2", 4)]
	}
	extra := extras[rt.Pick("extra", len(extras))] // 0 none, 1 before, 2 between (thorough), 3 after
	var p v30opd
	if extra > 0 {
		p = ctx.id("p", v30value("vp", v30kBool))
	}
	v30run(label, ctx, func(b Builder) Expr {
		e1, e2 := t1.expr(b), t2.expr(b)
		var es []Expr
		switch extra {
		case 0:
			es = []Expr{e1, e2}
		case 1:
			es = []Expr{p.expr(), e1, e2}
		case 2:
			es = []Expr{e1, p.expr(), e2}
		case 3:
			es = []Expr{e1, e2, p.expr()}
		}
		if isOr {
			return b.Nary(tok.Or, es)
		}
		return b.Nary(tok.And, es)
	})
}

// Outside the claim (DESIGN.md section 4, C30), thorough only: beyond the exact-integer domain the
// Folder's re-association of 16-digit decimal arithmetic changes rounding: c1 + x + c2 is folded
// to (c1 + c2) + x. x is a 16-digit decimal of 17 or 18 integer digits, c1 and c2 are 1..9.
// A failure of this label documents that limit of the claim; it is not a defect of the Folder.
//
//symgo:disabled-harness (documents the rounding limit of the claim; fails by design, so it is not run) prop=C30 tier=thorough arith=int tshards=1 ttimeout=600 qtimeout=30000 bounds=c1_+_x_+_c2_with_literals_1..9_and_x_any_positive_16-digit_decimal_with_exponent_17_or_18 outside=this_harness_is_outside_the_C30_claim:_it_documents_that_re-association_changes_decimal_rounding
func VerifC30FoldReassoc() {
	c1, c2 := rt.IntRange("c1", 1, 9), rt.IntRange("c2", 1, 9)
	coef := rt.U64Range("coef", 1000_0000_0000_0000, 9999_9999_9999_9999)
	exp := 17 + rt.Pick("exp", 2)
	ctx := &v30ctx{}
	x := ctx.id("x", SuDnum{Dnum: dnum.Raw(+1, coef, exp)})
	a, b := ctx.lit(IntVal(c1)), ctx.lit(IntVal(c2))
	v30run("fold/reassociation-rounding", ctx, func(bd Builder) Expr {
		return bd.Nary(tok.Add, []Expr{a.expr(), x.expr(), b.expr()})
	})
}
