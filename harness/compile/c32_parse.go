package compile

import (
	rt "github.com/apmckinlay/gsuneido/zzverifrt"
)

// valphabet: characters that drive the parser into its different productions
var valphabet = []byte("a1 \n.(){}[];:,=+-<#'\"|?")

// C32 parser: on every source text of 0..2 arbitrary bytes, and of 3 characters over a
// 24-symbol alphabet, the constant compiler either produces a value or reports a syntax error
// (an ordinary panic value); it never fails with a Go runtime error and never loops.
//
//symgo:harness prop=C32 tier=quick shards=16 timeout=500 ttimeout=1700 bounds=sources_of_0..2_arbitrary_bytes;or_3_characters(thorough_4)_over_a_24-symbol_alphabet
func VerifC32Parse() {
	var src string
	if rt.Pick("mode", 2) == 0 {
		src = rt.Str("s", rt.Pick("len", 3))
	} else {
		n := 3
		if rt.Thorough() {
			n = 3 + rt.Pick("alen", 2)
		}
		b := make([]byte, n)
		for i := range b {
			b[i] = valphabet[rt.Pick("c"+string(rune('0'+i)), len(valphabet))]
		}
		src = string(b)
	}
	rt.Observe("src", src)
	kind := rt.TryKind(func() { Constant(src) })
	rt.Reach("parsed")
	rt.Observe("kind", kind)
	rt.Assert("parse/no-runtime-error", kind != 2)
}

// vtokens: source fragments that drive the parser into declarations, parameter lists, classes,
// member names and constants
var vtokens = []string{"function", "(", ")", "{", "}", "a", ",", "class", ":", `""`, "1", "_a", "@", "=", " ", "#(", "[", "]", ".", "b"}

// C32 parser on token sequences: every concatenation of 1..3 (thorough 4) fragments from a
// 20-entry vocabulary (truncated parameter lists, empty names, unbalanced brackets, ...): the
// constant compiler returns or reports an ordinary error, never a Go runtime error.
//
//symgo:harness prop=C32 tier=quick shards=16 timeout=500 ttimeout=3000 tshards=16 bounds=all_sequences_of_1..3_fragments(thorough_4)_from_a_20-entry_vocabulary
func VerifC32ParseTokens() {
	n := 1 + rt.Pick("ntokens", 3)
	if rt.Thorough() {
		n = 1 + rt.Pick("ntokens4", 4)
	}
	src := ""
	for i := 0; i < n; i++ {
		if i > 0 {
			src += " "
		}
		src += vtokens[rt.Pick("t"+string(rune('0'+i)), len(vtokens))]
	}
	rt.Observe("src", src)
	kind := rt.TryKind(func() { Constant(src) })
	rt.Reach("parsed")
	rt.Assert("parse/tokens-no-runtime-error", kind != 2)
}

// vclassTokens: fragments for the body of a class constant
var vclassTokens = []string{`""`, ":", "1", "a", "A", "(", ")", "function", "{", "}", ","}

// C32 parser on class bodies: "class { t1 t2 t3 }" for every choice of three fragments from an
// 11-entry vocabulary (empty member names, missing values, nested braces, methods): returns or
// reports an ordinary error, never a Go runtime error.
//
//symgo:harness prop=C32 tier=quick shards=8 timeout=400 bounds=class_bodies_of_3_fragments_from_an_11-entry_vocabulary
func VerifC32ParseClassBody() {
	src := "class {"
	for i := 0; i < 3; i++ {
		src += " " + vclassTokens[rt.Pick("t"+string(rune('0'+i)), len(vclassTokens))]
	}
	src += " }"
	rt.Observe("src", src)
	kind := rt.TryKind(func() { Constant(src) })
	rt.Reach("parsed")
	rt.Assert("parse/class-body-no-runtime-error", kind != 2)
}
