package lexer

import (
	tok "github.com/apmckinlay/gsuneido/compile/tokens"
	rt "github.com/apmckinlay/gsuneido/zzverifrt"
)

// C32 lexer: on every input of 0..2 arbitrary bytes (thorough 3) Next() reaches Eof within
// len+1 tokens, never panics, token positions strictly increase and stay inside the input, and
// each token's text span ends where the next one starts (spans tile the input).
//
//symgo:harness prop=C32 tier=quick shards=16 timeout=500 ttimeout=1700 bounds=all_inputs_of_0..2_bytes(thorough_3)
func VerifC32Lex() {
	maxn := 3
	if rt.Thorough() {
		maxn = 4
	}
	n := rt.Pick("len", maxn)
	src := rt.Str("s", n)
	lxr := NewLexer(src)
	pos := int32(-1)
	end := 0
	for i := 0; i < n+2; i++ {
		var it Item
		panicked := rt.Try(func() { it = lxr.Next() })
		rt.Assert("lex/no-panic", !panicked)
		if panicked {
			return
		}
		if it.Token == tok.Eof {
			rt.Reach("eof")
			rt.Assert("lex/eof-at-end", lxr.si >= n)
			rt.Assert("lex/tiles-to-end", end == n)
			rt.Assert("lex/eof-sticks", lxr.Next().Token == tok.Eof)
			return
		}
		rt.Assert("lex/pos-increasing", it.Pos > pos)
		rt.Assert("lex/pos-in-range", int(it.Pos) < n)
		rt.Assert("lex/tiles", int(it.Pos) == end)
		rt.Assert("lex/progress", lxr.si > int(it.Pos) && lxr.si <= n)
		pos = it.Pos
		end = lxr.si
	}
	rt.Assert("lex/terminates", false)
}
