package compile

import (
	"github.com/apmckinlay/gsuneido/compile/lexer"
	tok "github.com/apmckinlay/gsuneido/compile/tokens"
	. "github.com/apmckinlay/gsuneido/core"
	rt "github.com/apmckinlay/gsuneido/zzverifrt"
)

// C31 strings: for every string of 0..3 arbitrary bytes (thorough 4) the displayed text lexes to
// exactly one string token with the original content, and compiles to an equal SuStr.
//
//symgo:harness prop=C31 tier=quick shards=16 timeout=400 ttimeout=1700 bounds=strings_of_0..2_arbitrary_bytes(thorough_3);default_and_forced_single/double_quotes
func VerifC31StringRoundTrip() {
	n := 3
	if rt.Thorough() {
		n = 4
	}
	s := rt.Str("s", rt.Pick("len", n))
	var text string
	switch rt.Pick("quotes", 3) {
	case 0:
		text = SuStr(s).String()
	case 1:
		th := &Thread{}
		th.Quote = 1
		text = SuStr(s).Display(th)
	case 2:
		th := &Thread{}
		th.Quote = 2
		text = SuStr(s).Display(th)
	}
	rt.Reach("displayed")
	rt.Observe("text", text)
	v := Constant(text)
	vs, ok := v.(SuStr)
	rt.Assert("string/evaluates-back", ok && string(vs) == s)
}

// C31 unterminated string literals: a quote followed by 0..3 arbitrary bytes none of which closes
// it (an escaped quote does not close it) must be reported as an error by the lexer and rejected
// by the constant compiler - with or without backslash escapes.
//
//symgo:harness prop=C31 tier=quick shards=16 timeout=400 ttimeout=1700 bounds=opening_quote_(single,double,back)_plus_0..2_arbitrary_bytes(thorough_3)_without_a_closing_quote
func VerifC31Unterminated() {
	n := 3
	if rt.Thorough() {
		n = 4
	}
	q := []byte{'"', '\'', '`'}[rt.Pick("quote", 3)]
	body := rt.Bytes("b", rt.Pick("len", n))
	// no closing quote: every occurrence of the quote character is escaped by a backslash that is
	// not itself escaped (back-quoted strings have no escapes: no back quote at all)
	hasEsc := false
	for i := 0; i < len(body); i++ {
		if body[i] == '\\' && q != '`' {
			hasEsc = true
			i++ // the next byte (if any) is consumed by the escape or taken literally - never a closer
			if i < len(body) && body[i] == 'x' {
				// \xHH consumes two more bytes when both are hex digits; keep it simple: they must not be quotes
				for j := 1; j <= 2 && i+j < len(body); j++ {
					rt.Assume(body[i+j] != q)
				}
			}
			continue
		}
		rt.Assume(body[i] != q)
	}
	src := string(q) + string(body)
	rt.Observe("src", src)
	lxr := lexer.NewLexer(src)
	it := lxr.Next()
	rt.Reach("lexed")
	if hasEsc {
		rt.Assert("unterminated/escape", it.Token == tok.Error)
	} else {
		rt.Assert("unterminated/plain", it.Token == tok.Error)
	}
	panicked := rt.Try(func() { Constant(src) })
	if hasEsc {
		rt.Assert("unterminated/escape-constant-rejected", panicked)
	} else {
		rt.Assert("unterminated/plain-constant-rejected", panicked)
	}
}

// C31 objects: an object with one unnamed member (a small integer) and one named member whose
// name is "true", "false", a digit-leading or ordinary identifier, or 1 arbitrary byte, and whose
// value is a string of 0..1 arbitrary bytes: the displayed text compiles back to an Equal object
// (also as a record).
//
//symgo:harness prop=C31 tier=quick shards=8 timeout=400 bounds=objects/records_with_1_list_member_and_1_named_member;name_in_{true,false,a,1a,a_b,1_arbitrary_byte};value_string_of_0..1_arbitrary_bytes
func VerifC31Object() {
	names := []string{"true", "false", "a", "1a", "a_b", ""}
	name := names[rt.Pick("name", len(names))]
	if name == "" {
		name = rt.Str("namebyte", 1)
	}
	val := SuStr(rt.Str("val", rt.Pick("vallen", 2)))
	n := []int{-1, 3}[rt.Pick("n", 2)]
	var ob Value
	if rt.Pick("record", 2) == 1 {
		r := &SuRecord{}
		r.Add(IntVal(n))
		r.Set(SuStr(name), val)
		ob = r
	} else {
		o := &SuObject{}
		o.Add(IntVal(n))
		o.Set(SuStr(name), val)
		ob = o
	}
	text := ob.String()
	rt.Reach("displayed")
	rt.Observe("text", text)
	var back Value
	panicked := rt.Try(func() { back = Constant(text) })
	rt.Assert("object/display-compiles", !panicked)
	if !panicked {
		rt.Assert("object/evaluates-back-equal", back.Equal(ob) && ob.Equal(back))
	}
}
