package db19

import (
	rt "github.com/apmckinlay/gsuneido/zzverifrt"
)

// C02 scenario: one committed row. A read transaction R and an update transaction W are opened;
// then another transaction T makes 1..2 changes (arbitrary 1-byte values) and commits, its layers
// are merged and the database is persisted (each step optional). At every point R still sees
// exactly the state from when it started - twice in a row - and W sees that same snapshot plus
// its own change; a transaction opened afterwards sees T's changes.
//
//symgo:harness prop=C02 tier=quick shards=16 timeout=500 ttimeout=1700 bounds=1_committed_row;readers_opened_before_a_transaction_of_1_change(thorough_1..2);commit,merge,persist;1-byte_values
func VerifC02Snapshot() {
	db := vnewdb()
	vcreateT(db)
	var rows []vrow
	ut := db.NewUpdateTran()
	vapply("setup", ut, &rows, 0, "r0")
	rt.Assert("setup/commit", vcommit(db, ut, !rt.Thorough() || rt.Pick("merge0", 2) == 1))
	snap := vcopyRows(rows)

	r := db.NewReadTran()
	w := db.NewUpdateTran()
	vconcurrent = true // W and T overlap: a refusal may also be a conflict
	wrows := vcopyRows(snap)
	wFirst := rt.Pick("w-writes-first", 2) == 1
	if wFirst {
		vapply("W", w, &wrows, 0, "w0")
	}
	t := db.NewUpdateTran()
	trows := vcopyRows(rows)
	nops := 1
	if rt.Thorough() {
		nops = 1 + rt.Pick("nops", 2)
	}
	for i := 0; i < nops; i++ {
		if !vapply("T", t, &trows, rt.Pick("kind"+string(rune('0'+i)), 3), "c"+string(rune('0'+i))) {
			break
		}
	}
	vagree("reader-before-commit", r, snap)
	ok, tables := vcommit2(db, t)
	rt.Reach("T-ended")
	vagree("reader-after-commit", r, snap)
	vagree("writer-after-commit", &w.ReadTran, wrows)
	if ok && rt.Pick("merge", 2) == 1 {
		vmerge(db, tables)
		vagree("reader-after-merge", r, snap)
	}
	if rt.Pick("persist", 2) == 1 {
		vpersist(db)
		vagree("reader-after-persist", r, snap)
	}
	vagree("reader-repeat", r, snap)
	if !wFirst {
		// W writes only now: it still works on its start snapshot
		if !vtry(func() { vapply("W", w, &wrows, 0, "w0") }) {
			vagree("writer-own-change", &w.ReadTran, wrows)
		}
	}
	vagree("reader-unaffected-by-writer", r, snap)
	if ok {
		vagree("later-reader-sees-T", db.NewReadTran(), trows)
	} else {
		vagree("later-reader-sees-old", db.NewReadTran(), snap)
	}
}
