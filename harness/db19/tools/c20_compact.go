package tools

import (
	"github.com/apmckinlay/gsuneido/core"
	. "github.com/apmckinlay/gsuneido/db19"
	"github.com/apmckinlay/gsuneido/db19/meta/schema"
	"github.com/apmckinlay/gsuneido/db19/stor"
	rt "github.com/apmckinlay/gsuneido/zzverifrt"
)

func vmkrec(args ...string) core.Record {
	var b core.RecordBuilder
	for _, a := range args {
		b.Add(core.SuStr(a))
	}
	return b.Build() // no trim: trailing empty fields are stored as given
}

func vpk(s string) string { return core.Pack(core.SuStr(s)) }

func vnewdb() *Database {
	MakeSuTran = func(ut *UpdateTran) *core.SuTran { return nil }
	db := CreateDb(stor.HeapStor(8192))
	db.CheckerSync()
	return db
}

// C20 squeeze: removes exactly the fields of deleted ("-") columns, keeps the others in order and
// trims trailing empty fields, for records of 3 fields of 0..1 arbitrary bytes and every pattern
// of deleted columns.
//
//symgo:harness prop=C20 tier=quick shards=4 timeout=300 bounds=records_of_3_fields_of_0..1_arbitrary_bytes;all_8_patterns_of_deleted_columns
func VerifC20Squeeze() {
	var flds [3]string
	cols := []string{"a", "b", "c"}
	for i := range flds {
		flds[i] = rt.Str("f"+string(rune('0'+i)), rt.Pick("len"+string(rune('0'+i)), 2))
		if rt.Pick("del"+string(rune('0'+i)), 2) == 1 {
			cols[i] = "-"
		}
	}
	var rb core.RecordBuilder
	for _, f := range flds {
		rb.AddRaw(f)
	}
	rec := squeeze(rb.Build(), cols)
	rt.Reach("squeezed")
	var want []string
	for i, f := range flds {
		if cols[i] != "-" {
			want = append(want, f)
		}
	}
	for len(want) > 0 && want[len(want)-1] == "" {
		want = want[:len(want)-1]
	}
	rt.Assert("squeeze/count", rec.Count() == len(want))
	for i, f := range want {
		rt.Assert("squeeze/field", rec.GetRaw(i) == f)
	}
	rt.Assert("squeeze/trailing-empty-flag", hasTrailingEmpty(rb.Build()) == (flds[2] == ""))
}

// C20 compact of one table between two in-memory databases: table t(a,b,c) key(a) index(b) with
// 1..2 rows of arbitrary 1-byte a and b and a c that is empty or 1 byte (so trailing empty fields
// occur), optionally with column c deleted before compacting. The compacted database has the
// same rows (minus the deleted column), the same row count, the same schema text (minus the
// deleted column) and both indexes find every row.
//
//symgo:harness prop=C20 tier=quick shards=8 timeout=500 bounds=1_table;1..2_rows;values_of_0..1_arbitrary_bytes;optional_deleted_column outside=dump_and_load_files;the_file_handling_of_Compact;views;foreign_keys
func VerifC20CompactTable() {
	src := vnewdb()
	src.Create(&schema.Schema{Table: "t", Columns: []string{"a", "b", "c"},
		Indexes: []schema.Index{{Mode: 'k', Columns: []string{"a"}}, {Mode: 'i', Columns: []string{"b"}}}})
	n := 1 + rt.Pick("nrows", 2)
	as := make([]string, n)
	bs := make([]string, n)
	cs := make([]string, n)
	ut := src.NewUpdateTran()
	for i := 0; i < n; i++ {
		nm := string(rune('0' + i))
		as[i], bs[i] = rt.Str("a"+nm, 1), rt.Str("b"+nm, 1)
		cs[i] = rt.Str("c"+nm, rt.Pick("clen"+nm, 2))
		if i > 0 {
			rt.Assume(as[i] != as[0])
		}
		ut.Output(nil, "t", vmkrec(as[i], bs[i], cs[i]))
	}
	src.CommitMerge(ut)
	dropC := rt.Pick("drop-c", 2) == 1
	if dropC {
		src.AlterDrop(&schema.Schema{Table: "t", Columns: []string{"c"}})
	}
	// as Compact does: the source is a cleanly closed database opened read-only
	src.Close()
	src, err := OpenDbStor(src.Store, stor.Read, false)
	rt.Assert("compact/source-reopens", err == nil)
	state := src.GetState()
	dst := vnewdb()
	ts := state.Meta.GetRoSchema("t")
	tsc := *ts
	tsc.Columns = append([]string{}, ts.Columns...)
	compactTable(state, src, &tsc, dst)
	rt.Reach("compacted")
	rtx := dst.NewReadTran()
	rt.Assert("compact/nrows", rtx.GetInfo("t").Nrows == n)
	for i := 0; i < n; i++ {
		rec := rtx.Lookup("t", 0, vpk(as[i]))
		rt.Assert("compact/row-found-by-key", rec != nil)
		if rec == nil {
			continue
		}
		rt.Assert("compact/row-fields", rec.Record.GetStr(0) == as[i] && rec.Record.GetStr(1) == bs[i])
		if dropC {
			rt.Assert("compact/deleted-column-gone", rec.Record.Count() <= 2)
		} else {
			rt.Assert("compact/third-field", rec.Record.GetStr(2) == cs[i])
		}
	}
	want := "t (a,b,c) key(a) index(b)"
	if dropC {
		want = "t (a,b) key(a) index(b)"
	}
	rt.Observe("schema", dst.Schema("t"))
	rt.Assert("compact/schema-text", dst.Schema("t") == want)
}
