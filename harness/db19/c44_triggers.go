package db19

import (
	"github.com/apmckinlay/gsuneido/core"
	"github.com/apmckinlay/gsuneido/db19/meta/schema"
	rt "github.com/apmckinlay/gsuneido/zzverifrt"
)

// a recorded trigger call: old and new value of column a ("" = no record)
type vcall struct {
	table    string
	old, new string
	hasOld   bool
	hasNew   bool
}

var vcalls []vcall
var vthrow bool

func vtrigger(table string) core.Value {
	return &core.SuBuiltin3{Fn: func(tran, oldrec, newrec core.Value) core.Value {
		c := vcall{table: table}
		if r, ok := oldrec.(*core.SuRecord); ok {
			c.hasOld = true
			c.old = core.ToStr(r.Get(nil, core.SuStr("a")))
		}
		if r, ok := newrec.(*core.SuRecord); ok {
			c.hasNew = true
			c.new = core.ToStr(r.Get(nil, core.SuStr("a")))
		}
		vcalls = append(vcalls, c)
		if vthrow {
			panic("trigger says no")
		}
		return nil
	}, BuiltinParams: core.BuiltinParams{ParamSpec: core.ParamSpec{Nparams: 3, Signature: ^core.Sig3,
		Flags: []core.Flag{0, 0, 0}, Names: []string{"t", "oldrec", "newrec"}, Name: "Trigger_" + table}}}
}

// C44 enable/disable counting: a trigger is enabled exactly when it has been re-enabled as many
// times as it was disabled, for every nesting of up to 4 disable/enable calls.
//
//symgo:harness prop=C44 tier=quick timeout=200 bounds=scripts_of_0..4_disable/enable_calls_that_never_enable_more_than_disabled
func VerifC44Enable() {
	var tr triggers
	depth := 0
	n := rt.Pick("n", 5)
	for i := 0; i < n; i++ {
		if depth > 0 && rt.Pick("op"+string(rune('0'+i)), 2) == 1 {
			tr.EnableTrigger("t")
			depth--
		} else {
			tr.DisableTrigger("t")
			depth++
		}
		rt.Assert("enable/enabled-iff-balanced", tr.enabled("t") == (depth == 0))
		rt.Assert("enable/other-table-unaffected", tr.enabled("u"))
	}
	rt.Reach("done")
}

// C44 scenario: tables hdr key(a) and lin key(id) index(a) in hdr cascade, each with a recording
// trigger; one hdr row and one lin row referencing it (arbitrary 1-byte values). Then one change:
// insert, update to a different value, update to the identical value, delete, or delete/update
// of the hdr row (which cascades to lin), with the trigger optionally disabled (and re-enabled) or
// throwing. Oracle: one call per row actually changed, in the changed table, with that row's old
// and new value, including the rows changed by the cascade; no call for an identical update or
// while disabled; a throwing trigger leaves nothing committed.
//
//symgo:harness prop=C44 tier=quick shards=8 timeout=500 ttimeout=1500 bounds=2_tables_with_a_cascading_foreign_key;1_row_each;1_change;trigger_enabled/disabled/throwing;1-byte_values
func VerifC44Calls() {
	db := vnewdb()
	db.Create(&schema.Schema{Table: "hdr", Columns: []string{"a"}, Indexes: []schema.Index{vkey("a")}})
	db.Create(&schema.Schema{Table: "lin", Columns: []string{"id", "a"},
		Indexes: []schema.Index{vkey("id"),
			{Mode: 'i', Columns: []string{"a"}, Fk: schema.Fkey{Table: "hdr", Columns: []string{"a"}, Mode: schema.Cascade}}}})
	core.Global.Num("Trigger_hdr") // register the names first (TestDef indexes while Num appends)
	core.Global.Num("Trigger_lin")
	core.Global.TestDef("Trigger_hdr", vtrigger("hdr"))
	core.Global.TestDef("Trigger_lin", vtrigger("lin"))
	th := core.NewThread(nil)
	vcalls, vthrow = nil, false
	h := rt.Str("h", 1)
	ut := db.NewUpdateTran()
	ut.Output(th, "hdr", vmkrec(h))
	ut.Output(th, "lin", vmkrec("1", h))
	rt.Assert("setup/calls", len(vcalls) == 2 && vcalls[0].table == "hdr" && !vcalls[0].hasOld && vcalls[0].new == h &&
		vcalls[1].table == "lin" && !vcalls[1].hasOld && vcalls[1].hasNew)
	rt.Assert("setup/commit", vcommit(db, ut, true))
	vcalls = nil

	mode := rt.Pick("trigger-mode", 4) // 0 enabled, 1 disabled, 2 disabled then re-enabled, 3 throws
	switch mode {
	case 1:
		db.DisableTrigger("hdr")
		db.DisableTrigger("lin")
	case 2:
		db.DisableTrigger("hdr")
		db.DisableTrigger("lin")
		db.EnableTrigger("lin")
		db.EnableTrigger("hdr")
	case 3:
		vthrow = true
	}
	ut = db.NewUpdateTran()
	op := rt.Pick("op", 5)
	x := rt.Str("x", 1)
	var want []vcall
	refused := vtry(func() {
		switch op {
		case 0: // insert another hdr row
			rt.Assume(x != h)
			ut.Output(th, "hdr", vmkrec(x))
			want = []vcall{{"hdr", "", x, false, true}}
		case 1: // update the lin row's id (a different record)
			rec := ut.Lookup("lin", 0, vpk("1"))
			ut.Update(th, "lin", rec.Off, vmkrec("2", h))
			want = []vcall{{"lin", h, h, true, true}}
		case 2: // update with an identical record: no change
			rec := ut.Lookup("lin", 0, vpk("1"))
			ut.Update(th, "lin", rec.Off, vmkrec("1", h))
			want = nil
		case 3: // delete the hdr row: cascades to lin
			rec := ut.Lookup("hdr", 0, vpk(h))
			ut.Delete(th, "hdr", rec.Off)
			want = []vcall{{"lin", h, "", true, false}, {"hdr", h, "", true, false}}
		case 4: // change the hdr key: cascades to lin
			rt.Assume(x != h)
			rec := ut.Lookup("hdr", 0, vpk(h))
			ut.Update(th, "hdr", rec.Off, vmkrec(x))
			want = []vcall{{"lin", h, x, true, true}, {"hdr", h, x, true, true}}
		}
	})
	rt.Reach("changed")
	if mode == 1 {
		rt.Assert("disabled/not-called", len(vcalls) == 0 && !refused)
	} else if mode == 3 {
		if len(want) > 0 {
			rt.Assert("throwing/change-refused", refused)
			rt.Assert("throwing/called-once-before-stopping", len(vcalls) == 1)
		}
	} else {
		rt.Assert("enabled/not-refused", !refused)
		rt.Assert("enabled/number-of-calls", len(vcalls) == len(want))
		for i := 0; i < len(want) && i < len(vcalls); i++ {
			c, w := vcalls[i], want[i]
			rt.Assert("enabled/call-matches-row-change", c.table == w.table && c.hasOld == w.hasOld && c.hasNew == w.hasNew &&
				(!w.hasOld || c.old == w.old) && (!w.hasNew || c.new == w.new))
		}
	}
	vthrow = false
	if refused {
		ok, _ := vcommit2(db, ut)
		if mode == 3 && len(want) > 0 {
			rtx := db.NewReadTran()
			rt.Assert("throwing/nothing-committed", !ok || (rtx.GetInfo("hdr").Nrows == 1 && rtx.GetInfo("lin").Nrows == 1 &&
				rtx.Lookup("hdr", 0, vpk(h)) != nil && rtx.Lookup("lin", 0, vpk("1")) != nil))
		}
	} else {
		rt.Assert("commit", vcommit(db, ut, true))
	}
}
