package db19

import (
	rt "github.com/apmckinlay/gsuneido/zzverifrt"
)

// C06 scenario: table t(a,b) key(a) index(b). A first transaction commits one row (merged into
// the base index or left as a layer, optionally persisted). A second transaction makes 2 changes
// (thorough 3) chosen from {output a new row, update a row (key changing or not), delete a row} -
// so update-then-delete, delete-then-reinsert of the same key, two rows with the same b occur -
// with arbitrary 1-byte values. After every change (inside the transaction), after commit,
// after the merge and after a persist, every index holds exactly one entry per live row under
// that row's key and both indexes point at the same records; counts and sizes match.
//
//symgo:harness prop=C06 tier=quick shards=16 timeout=500 ttimeout=1700 bounds=1_committed_row_then_1_transaction_of_2_changes(thorough_3);1-byte_values;merge/persist_points_chosen outside=more_rows;index_creation_on_a_populated_table
func VerifC06Indexes() {
	db := vnewdb()
	vcreateT(db)
	var rows []vrow
	ut := db.NewUpdateTran()
	vapply("setup", ut, &rows, 0, "r0")
	rt.Assert("setup/commit", vcommit(db, ut, rt.Pick("merge0", 2) == 1))
	if rt.Thorough() && rt.Pick("persist0", 2) == 1 {
		vpersist(db)
	}
	vagree("after-setup", db.NewReadTran(), rows)
	nops := 2
	if rt.Thorough() {
		nops = 3
	}
	ut = db.NewUpdateTran()
	for i := 0; i < nops; i++ {
		if !vapply("change", ut, &rows, rt.Pick("kind"+string(rune('0'+i)), 3), "c"+string(rune('0'+i))) {
			break
		}
		vagree("inside-transaction", &ut.ReadTran, rows)
	}
	rt.Reach("changed")
	ok, tables := vcommit2(db, ut)
	rt.Assert("commit/succeeds", ok)
	vagree("after-commit", db.NewReadTran(), rows)
	vmerge(db, tables)
	vagree("after-merge", db.NewReadTran(), rows)
	vpersist(db)
	vagree("after-persist", db.NewReadTran(), rows)
}
