package db19

import (
	"github.com/apmckinlay/gsuneido/db19/stor"
	rt "github.com/apmckinlay/gsuneido/zzverifrt"
)

// C19: a store holding 1..3 persisted states with arbitrary increasing times (and other data
// between them). For an arbitrary requested time, stateAsof returns the newest state at or before
// it, or the oldest state when the time precedes all of them - with that state's own offset, so
// that stepping to the previous / next persisted state from there visits the states in file order
// and reports "none" past either end.
//
//symgo:harness prop=C19 tier=quick shards=4 timeout=300 bounds=1..2_persisted_states(thorough_3);increasing_times_=_fixed_base_+_arbitrary_8-bit_offset(thorough_16-bit);arbitrary_requested_time_in_that_span;optional_filler_data outside=the_state_cache;invalid_state_records_(decoys)
func VerifC19Asof() {
	store := stor.HeapStor(8192)
	_, hdr := store.Alloc(len(magic))
	copy(hdr, magic)
	maxn, span := 2, int64(255)
	if rt.Thorough() {
		maxn, span = 3, 65535
	}
	n := 1 + rt.Pick("nstates", maxn)
	const base = int64(0x0000018000000000) // times = base + a symbolic offset (see bounds)
	var times []int64
	var offs []uint64
	prev := int64(0)
	for i := 0; i < n; i++ {
		if rt.Pick("filler"+string(rune('0'+i)), 2) == 1 {
			_, b := store.Alloc(11)
			copy(b, "some record")
		}
		t := base + rt.I64Range("t"+string(rune('0'+i)), 1, span)
		rt.Assume(t > prev)
		prev = t
		times = append(times, t)
		offs = append(offs, vwriteStateAt(store, t))
	}
	a := base + rt.I64Range("asof", 0, span+1)
	st := stateAsof(asofArgs{store: store, asof: a})
	rt.Reach("asof")
	j := 0
	for i := 0; i < n; i++ {
		if times[i] <= a {
			j = i
		}
	}
	rt.Observe("asof-time", st.Asof)
	rt.Assert("asof/newest-at-or-before", st.Asof == times[j])
	rt.Assert("asof/offset-of-returned-state", st.Off == offs[j])
	// navigation from the state that was returned (by its true offset, so that a wrong Off above
	// is reported once, not three times)
	p := PrevState(store, offs[j])
	if j == 0 {
		rt.Assert("asof/prev-none-before-first", p == nil)
	} else {
		rt.Assert("asof/prev-in-file-order", p != nil && p.Off == offs[j-1] && p.Asof == times[j-1])
	}
	nx := NextState(store, offs[j])
	if j == n-1 {
		rt.Assert("asof/next-none-after-last", nx == nil)
	} else {
		rt.Assert("asof/next-in-file-order", nx != nil && nx.Off == offs[j+1] && nx.Asof == times[j+1])
	}
	// through the transaction API: what the user sees
	db := &Database{Store: store}
	db.state.set(&DbState{store: store, Meta: st.Meta})
	tr := db.NewReadTran()
	got := tr.Asof(a)
	{
		rt.Assert("asof/tran-shows-state", got == times[j])
		back := tr.Asof(-1)
		if j == 0 {
			rt.Assert("asof/tran-prev-none-before-first", back == 0)
		} else {
			rt.Assert("asof/tran-prev", back == times[j-1])
		}
	}
}
