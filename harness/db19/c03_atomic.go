package db19

import (
	rt "github.com/apmckinlay/gsuneido/zzverifrt"
)

// C03 scenario: one committed row; transaction T makes 1..2 changes (output/update/delete with
// arbitrary 1-byte values) and then ends in one of four ways: commit; explicit abort; abort by a
// conflict (a second transaction U, started before T wrote, changes the same row and commits
// first - T's write or commit must then fail); commit after U committed something unrelated.
// Oracle: a fresh read transaction sees ALL of T's changes iff T's completion reported success,
// and none otherwise (U's are visible iff U committed); a transaction whose completion failed
// stays failed; row counts and sizes equal the visible rows and bytes.
//
//symgo:harness prop=C03 tier=quick shards=16 timeout=500 ttimeout=1700 bounds=1_committed_row;T_with_1_change(thorough_1..2);4_endings;1-byte_values outside=write-limit_and_max-age_aborts
func VerifC03Atomic() {
	db := vnewdb()
	vcreateT(db)
	var rows []vrow
	ut := db.NewUpdateTran()
	vapply("setup", ut, &rows, 0, "r0")
	rt.Assert("setup/commit", vcommit(db, ut, !rt.Thorough() || rt.Pick("merge0", 2) == 1))
	before := vcopyRows(rows)

	ending := rt.Pick("ending", 4)
	var u *UpdateTran
	if ending >= 2 {
		u = db.NewUpdateTran()
		vconcurrent = true
	}
	t := db.NewUpdateTran()
	trows := vcopyRows(rows)
	nops := 1
	if rt.Thorough() {
		nops = 1 + rt.Pick("nops", 2)
	}
	accepted := true
	for i := 0; i < nops && accepted; i++ {
		accepted = vapply("T", t, &trows, rt.Pick("kind"+string(rune('0'+i)), 3), "c"+string(rune('0'+i)))
	}
	rt.Reach("T-changed")
	expect := before
	switch ending {
	case 0:
		ok, tables := vcommit2(db, t)
		rt.Assert("commit/reports-success", ok)
		expect = trows
		vagree("after-commit", db.NewReadTran(), expect)
		vmerge(db, tables)
	case 1:
		rt.Assert("abort/accepted", t.Abort() == "")
		ok, _ := vcommit2(db, t)
		rt.Assert("abort/later-commit-fails", !ok)
		rt.Assert("abort/stays-failed", t.Complete() != "")
	case 2:
		// U (older snapshot) rewrites row 0 and commits first: it must conflict with T if T
		// touched or read that row, and whichever fails must leave nothing behind
		urows := vcopyRows(before)
		uok := vapply("U", u, &urows, 1, "u0")
		if uok {
			rt.Assume(urows[0].a != before[0].a || urows[0].b != before[0].b) // a real change
		}
		ucommitted := false
		if uok {
			ucommitted, _ = vcommit2(db, u)
		} else {
			u.Abort()
		}
		tcommitted, _ := vcommit2(db, t)
		tTouched0 := !trows[0].live || trows[0].a != before[0].a || trows[0].b != before[0].b
		rt.Assert("conflict/no-lost-update-on-the-same-row", !(ucommitted && tcommitted && tTouched0))
		switch {
		case tcommitted && ucommitted:
			// both committed: only legal if their changes commute on disjoint rows; the state must
			// then contain both sets of changes - checked by serializability (C01), here we only
			// require that what is visible is a combination of complete transactions
			expect = nil
		case tcommitted:
			expect = trows
		case ucommitted:
			expect = urows
		}
		if !tcommitted {
			rt.Assert("conflict/failed-stays-failed", t.Complete() != "")
		}
	case 3:
		// U adds an unrelated row and commits; T then commits: both visible
		urows := vcopyRows(before)
		ua := rt.Str("ua", 1)
		clash := false
		for _, k := range vtouched {
			clash = rt.Or(clash, k == ua)
		}
		rt.Assume(!clash) // unrelated to every key T read or wrote
		u.Output(nil, "t", vmkrec(ua, "u"))
		urows = append(urows, vrow{ua, "u", true})
		ucommitted, _ := vcommit2(db, u)
		rt.Assert("unrelated/U-commits", ucommitted)
		tcommitted, _ := vcommit2(db, t)
		if tcommitted {
			expect = append(vcopyRows(trows), vrow{ua, "u", true})
		} else {
			expect = urows
		}
	}
	if expect != nil {
		vagree("final", db.NewReadTran(), expect)
	}
}
