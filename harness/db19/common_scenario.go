package db19

import (
	"github.com/apmckinlay/gsuneido/core"
	"github.com/apmckinlay/gsuneido/db19/meta"
	"github.com/apmckinlay/gsuneido/db19/meta/schema"
	rt "github.com/apmckinlay/gsuneido/zzverifrt"
)

// Shared scenario machinery for the db19 harnesses: one table t(a,b) key(a) index(b) on a
// HeapStor database with the synchronous checker, and an independent model (a slice of rows).

type vrow struct {
	a, b string
	live bool
}

func vcreateT(db *Database) {
	db.Create(&schema.Schema{Table: "t", Columns: []string{"a", "b"},
		Indexes: []schema.Index{vkey("a"), {Mode: 'i', Columns: []string{"b"}}}})
}

func vlive(rows []vrow) int {
	n := 0
	for _, r := range rows {
		if r.live {
			n++
		}
	}
	return n
}

func vcopyRows(rows []vrow) []vrow { return append([]vrow{}, rows...) }

// vagree asserts that what transaction t sees of table t equals the model: both indexes hold
// exactly one entry per live row under that row's key, in order, pointing at the same record;
// row count and size statistics equal the rows and their bytes.
func vagree(tag string, t *ReadTran, rows []vrow) {
	n := vlive(rows)
	keys0, offs0 := vscan(t, "t", 0)
	keys1, offs1 := vscan(t, "t", 1)
	rt.Assert(tag+"/key-index-count", len(keys0) == n)
	rt.Assert(tag+"/b-index-count", len(keys1) == n)
	for j := 1; j < len(keys0); j++ {
		rt.Assert(tag+"/key-index-order", keys0[j-1] < keys0[j])
	}
	for j := 1; j < len(keys1); j++ {
		rt.Assert(tag+"/b-index-order", keys1[j-1] < keys1[j])
	}
	ts := t.meta.GetRoSchema("t")
	size := 0
	for _, r := range rows {
		rec := t.Lookup("t", 0, vpk(r.a))
		if !r.live {
			// (another live row may have the same key)
			continue
		}
		rt.Assert(tag+"/row-found", rec != nil)
		if rec == nil {
			continue
		}
		rt.Assert(tag+"/row-content", rec.Record.GetStr(0) == r.a && rec.Record.GetStr(1) == r.b)
		size += rec.Record.Len()
		want0 := ts.Indexes[0].Ixspec.Key(rec.Record)
		want1 := ts.Indexes[1].Ixspec.Key(rec.Record)
		in0, in1 := false, false
		for j := range offs0 {
			if offs0[j] == rec.Off {
				in0 = rt.Or(in0, keys0[j] == want0)
			}
		}
		for j := range offs1 {
			if offs1[j] == rec.Off {
				in1 = rt.Or(in1, keys1[j] == want1)
			}
		}
		rt.Assert(tag+"/key-index-entry", in0)
		rt.Assert(tag+"/b-index-entry", in1)
	}
	ti := t.GetInfo("t")
	rt.Assert(tag+"/nrows", ti.Nrows == n)
	rt.Assert(tag+"/size", int(ti.Size) == size)
}

// vtouched collects every key value a vapply call involved (old and new), vconcurrent relaxes
// "refused iff duplicate" to "duplicate implies refused" (a conflict with another transaction is
// a legitimate refusal too)
var vtouched []string
var vconcurrent bool

func vrefusal(label string, refused, dup bool) {
	if vconcurrent {
		rt.Assert(label, refused || !dup)
	} else {
		rt.Assert(label, refused == dup)
	}
}

// vapply attempts one change in ut and updates the model when it is accepted. kind: 0 output a
// new row, 1 update row #target, 2 delete row #target. Returns false if it was refused.
func vapply(tag string, ut *UpdateTran, rows *[]vrow, kind int, name string) bool {
	switch kind {
	case 0:
		a, b := rt.Str(name+"_a", 1), rt.Str(name+"_b", 1)
		dup := false
		for _, r := range *rows {
			dup = rt.Or(dup, rt.And(r.live, r.a == a))
		}
		vtouched = append(vtouched, a)
		refused := vtry(func() { ut.Output(nil, "t", vmkrec(a, b)) })
		vrefusal(tag+"/output-refused-iff-duplicate", refused, dup)
		if !refused {
			*rows = append(*rows, vrow{a, b, true})
		}
		return !refused
	case 1:
		i := rt.Pick(name+"_target", len(*rows))
		tgt := (*rows)[i]
		rt.Assume(tgt.live)
		a, b := rt.Str(name+"_a", 1), rt.Str(name+"_b", 1)
		dup := false
		for j, r := range *rows {
			if j != i {
				dup = rt.Or(dup, rt.And(r.live, r.a == a))
			}
		}
		vtouched = append(vtouched, a, tgt.a)
		var rec *core.DbRec
		if vtry(func() { rec = ut.Lookup("t", 0, vpk(tgt.a)) }) {
			rt.Assert(tag+"/lookup-fails-only-under-concurrency", vconcurrent)
			return false
		}
		rt.Assert(tag+"/update-target-found", rec != nil)
		refused := vtry(func() { ut.Update(nil, "t", rec.Off, vmkrec(a, b)) })
		vrefusal(tag+"/update-refused-iff-duplicate", refused, dup)
		if !refused {
			(*rows)[i] = vrow{a, b, true}
		}
		return !refused
	default:
		i := rt.Pick(name+"_target", len(*rows))
		tgt := (*rows)[i]
		rt.Assume(tgt.live)
		vtouched = append(vtouched, tgt.a)
		var rec *core.DbRec
		if vtry(func() { rec = ut.Lookup("t", 0, vpk(tgt.a)) }) {
			rt.Assert(tag+"/lookup-fails-only-under-concurrency", vconcurrent)
			return false
		}
		rt.Assert(tag+"/delete-target-found", rec != nil)
		refused := vtry(func() { ut.Delete(nil, "t", rec.Off) })
		rt.Assert(tag+"/delete-accepted", !refused || vconcurrent)
		if !refused {
			(*rows)[i].live = false
		}
		return !refused
	}
}

func vpersist(db *Database) { db.persist(&execPersistSingle{}, false) }

// vmergeSplit merges the pending layers of tables the way the merger goroutine does - compute on
// the current state outside UpdateState, apply later - with `between` running in the gap (a
// commit may land there).
func vmergeSplit(db *Database, tables []string, between func()) {
	if len(tables) == 0 {
		between()
		return
	}
	ml := &mergeList{}
	ml.add(tables)
	updates := mergeSingle(db.GetState().Meta, ml)
	between()
	db.UpdateState(func(state *DbState) {
		m := *state.Meta
		meta.Apply(&m, updates)
		state.Meta = &m
	})
}

// vpersistSplit persists like Database.persist - compute outside, apply and write the state
// inside UpdateState - with `between` running in the gap.
func vpersistSplit(db *Database, between func()) {
	exec := &execPersistSingle{}
	db.GetState().Meta.Persist(exec.Submit)
	updates := exec.Results()
	between()
	db.UpdateState(func(state *DbState) {
		m := *state.Meta
		meta.Apply(&m, updates)
		state.Meta = &m
		state.Off = state.Write()
	})
}
