package db19

import (
	"github.com/apmckinlay/gsuneido/db19/meta/schema"
	rt "github.com/apmckinlay/gsuneido/zzverifrt"
)

// vfkStr: a foreign key / key value of 0..1 arbitrary bytes
func vfkStr(name string) string { return rt.Str(name, rt.Pick(name+"_len", 2)) }

// C08 scenario on the real transaction layer (HeapStor database, synchronous checker):
// target hdr key(k); source lin key(id) index(k) in hdr with mode block / cascade update /
// cascade deletes / cascade. One hdr row k1 and one lin row (1,k2) are inserted; then one of
// {delete the hdr row, change its key to k3, change the lin row's k to k4, insert a second lin
// row (2,k5)} is attempted. Oracle = the documentation (Foreign Keys.md): a source row needs a
// matching target unless its value is empty; removing/changing a referenced target is refused
// unless the mode cascades that kind of change, in which case the source rows follow.
//
//symgo:harness prop=C08 tier=quick shards=16 timeout=500 ttimeout=1700 bounds=1_target_row;1..2_source_rows;values_of_0..1_arbitrary_bytes;all_4_fk_modes;one_change_after_the_inserts outside=multi-column_keys;more_rows;concurrent_transactions
func VerifC08Fkeys() {
	mode := byte(rt.Pick("mode", 4)) // 0 block, 1 cascade update, 2 cascade deletes, 3 cascade
	db := vnewdb()
	db.Create(&schema.Schema{Table: "hdr", Columns: []string{"k"}, Indexes: []schema.Index{vkey("k")}})
	db.Create(&schema.Schema{Table: "lin", Columns: []string{"id", "k"},
		Indexes: []schema.Index{vkey("id"),
			{Mode: 'i', Columns: []string{"k"}, Fk: schema.Fkey{Table: "hdr", Columns: []string{"k"}, Mode: mode}}}})
	k1, k2 := vfkStr("k1"), vfkStr("k2")
	ut := db.NewUpdateTran()
	ut.Output(nil, "hdr", vmkrec(k1))
	if vtry(func() { ut.Output(nil, "lin", vmkrec("1", k2)) }) {
		rt.Assert("insert-source/refused-only-without-target", k2 != "" && k2 != k1)
		return
	}
	rt.Assert("insert-source/accepted-only-with-target-or-empty", k2 == "" || k2 == k1)
	db.CommitMerge(ut)
	rt.Reach("inserted")
	referenced := k2 != "" && k2 == k1

	// model of the expected final state
	hdrK, hdrThere := k1, true
	lin1K, lin1There := k2, true
	lin2K, lin2There := "", false

	ut = db.NewUpdateTran()
	op := rt.Pick("op", 4)
	refused := false
	switch op {
	case 0: // delete the target row
		rec := ut.Lookup("hdr", 0, vpk(k1))
		rt.Assert("lookup-target", rec != nil)
		refused = vtry(func() { ut.Delete(nil, "hdr", rec.Off) })
		if referenced && mode&schema.CascadeDeletes == 0 {
			rt.Assert("delete-target/refused-unless-cascade-deletes", refused)
		} else {
			rt.Assert("delete-target/allowed", !refused)
			hdrThere = false
			if referenced {
				lin1There = false
			}
		}
	case 1: // change the target row's key
		k3 := rt.Str("k3", 1)
		rt.Assume(k3 != k1)
		rec := ut.Lookup("hdr", 0, vpk(k1))
		rt.Assert("lookup-target", rec != nil)
		refused = vtry(func() { ut.Update(nil, "hdr", rec.Off, vmkrec(k3)) })
		if referenced && mode&schema.CascadeUpdates == 0 {
			rt.Assert("update-target/refused-unless-cascade-updates", refused)
		} else {
			rt.Assert("update-target/allowed", !refused)
			hdrK = k3
			if referenced {
				lin1K = k3
			}
		}
	case 2: // change the source row's foreign key value
		k4 := vfkStr("k4")
		rec := ut.Lookup("lin", 0, vpk("1"))
		rt.Assert("lookup-source", rec != nil)
		refused = vtry(func() { ut.Update(nil, "lin", rec.Off, vmkrec("1", k4)) })
		if k4 == "" || k4 == k1 {
			rt.Assert("update-source/allowed-with-target-or-empty", !refused)
			lin1K = k4
		} else {
			rt.Assert("update-source/refused-without-target", refused)
		}
	case 3: // insert a second source row
		k5 := vfkStr("k5")
		refused = vtry(func() { ut.Output(nil, "lin", vmkrec("2", k5)) })
		if k5 == "" || k5 == k1 {
			rt.Assert("insert-source2/allowed-with-target-or-empty", !refused)
			lin2K, lin2There = k5, true
		} else {
			rt.Assert("insert-source2/refused-without-target", refused)
		}
	}
	if !refused {
		db.CommitMerge(ut)
	}
	rt.Reach("changed")

	// the committed state equals the model, and has no orphan
	rtx := db.NewReadTran()
	nh, nl := 0, 0
	if hdrThere {
		nh = 1
	}
	if lin1There {
		nl++
	}
	if lin2There {
		nl++
	}
	rt.Assert("state/hdr-count", rtx.GetInfo("hdr").Nrows == nh)
	rt.Assert("state/lin-count", rtx.GetInfo("lin").Nrows == nl)
	h := rtx.Lookup("hdr", 0, vpk(hdrK))
	rt.Assert("state/hdr-row", (h != nil) == hdrThere)
	l1 := rtx.Lookup("lin", 0, vpk("1"))
	rt.Assert("state/lin1-row", (l1 != nil) == lin1There)
	if l1 != nil {
		rt.Assert("state/lin1-value", l1.Record.GetStr(1) == lin1K)
		fk := l1.Record.GetStr(1)
		rt.Assert("no-orphan", fk == "" || rtx.Lookup("hdr", 0, vpk(fk)) != nil)
	}
	l2 := rtx.Lookup("lin", 0, vpk("2"))
	rt.Assert("state/lin2-row", (l2 != nil) == lin2There)
	if l2 != nil {
		rt.Assert("state/lin2-value", l2.Record.GetStr(1) == lin2K)
		fk := l2.Record.GetStr(1)
		rt.Assert("no-orphan", fk == "" || rtx.Lookup("hdr", 0, vpk(fk)) != nil)
	}
}

// C08 with two source tables referencing the same target key through foreign keys of different
// modes (so a cascading and a blocking foreign key meet on one key), optionally after a schema
// change on the other source table (dropped, or its foreign key index dropped): deleting or
// re-keying the target row is refused iff some source row references it through a foreign key
// that does not cascade that kind of change; otherwise the change goes through, cascading sources
// follow, and no orphan remains.
//
//symgo:harness prop=C08 tier=quick shards=16 timeout=500 ttimeout=1700 bounds=1_target_row;2_source_tables_(same_column_names)_x_0..1_rows;modes_in_{block,cascade_update,cascade}^2;optional_drop_of_the_first_source_table_or_of_its_fk_index;delete_or_key_update_of_the_target
func VerifC08TwoSources() {
	modes := []byte{schema.Block, schema.CascadeUpdates, schema.Cascade}
	m1, m2 := modes[rt.Pick("mode1", 3)], modes[rt.Pick("mode2", 3)]
	db := vnewdb()
	db.Create(&schema.Schema{Table: "hdr", Columns: []string{"k"}, Indexes: []schema.Index{vkey("k")}})
	mk := func(name string, mode byte) {
		db.Create(&schema.Schema{Table: name, Columns: []string{"id", "k"},
			Indexes: []schema.Index{vkey("id"),
				{Mode: 'i', Columns: []string{"k"}, Fk: schema.Fkey{Table: "hdr", Columns: []string{"k"}, Mode: mode}}}})
	}
	mk("lin1", m1)
	mk("lin2", m2)
	k := rt.Str("k", 1)
	has1, has2 := rt.Pick("row1", 2) == 1, rt.Pick("row2", 2) == 1
	ut := db.NewUpdateTran()
	ut.Output(nil, "hdr", vmkrec(k))
	if has1 {
		ut.Output(nil, "lin1", vmkrec("1", k))
	}
	if has2 {
		ut.Output(nil, "lin2", vmkrec("1", k))
	}
	rt.Assert("setup/commit", vcommit(db, ut, true))
	lin1There := true
	switch rt.Pick("schema-change", 3) {
	case 1:
		db.Drop("lin1")
		lin1There, has1 = false, false
	case 2:
		db.AlterDrop(&schema.Schema{Table: "lin1", Indexes: []schema.Index{{Mode: 'i', Columns: []string{"k"}}}})
		m1 = 0xff // no foreign key any more: lin1 rows neither block nor follow
	}
	rt.Reach("prepared")
	ut = db.NewUpdateTran()
	rec := ut.Lookup("hdr", 0, vpk(k))
	rt.Assert("lookup-target", rec != nil)
	del := rt.Pick("op", 2) == 0
	bit := byte(schema.CascadeUpdates)
	if del {
		bit = schema.CascadeDeletes
	}
	blocks := func(has bool, mode byte) bool { return has && mode != 0xff && mode&bit == 0 }
	follows := func(has bool, mode byte) bool { return has && mode != 0xff && mode&bit != 0 }
	k2 := rt.Str("k2", 1)
	rt.Assume(k2 != k)
	refused := vtry(func() {
		if del {
			ut.Delete(nil, "hdr", rec.Off)
		} else {
			ut.Update(nil, "hdr", rec.Off, vmkrec(k2))
		}
	})
	rt.Assert("two-sources/refused-iff-a-non-cascading-reference-exists", refused == (blocks(has1, m1) || blocks(has2, m2)))
	if !refused {
		rt.Assert("two-sources/commit", vcommit(db, ut, true))
	}
	rtx := db.NewReadTran()
	check := func(table string, has bool, mode byte) {
		row := rtx.Lookup(table, 0, vpk("1"))
		switch {
		case !has:
			rt.Assert("two-sources/no-row", row == nil)
		case refused || !follows(has, mode):
			rt.Assert("two-sources/source-unchanged", row != nil && row.Record.GetStr(1) == k)
		case del:
			rt.Assert("two-sources/cascade-deleted", row == nil)
		default:
			rt.Assert("two-sources/cascade-updated", row != nil && row.Record.GetStr(1) == k2)
		}
		if row != nil && mode != 0xff {
			rt.Assert("two-sources/no-orphan", rtx.Lookup("hdr", 0, vpk(row.Record.GetStr(1))) != nil)
		}
	}
	if lin1There {
		check("lin1", has1, m1)
	}
	check("lin2", has2, m2)
}
