package db19

//symgo:needs core

import (
	"github.com/apmckinlay/gsuneido/core"
	rt "github.com/apmckinlay/gsuneido/zzverifrt"
)

// vtsDbms is the connection of a client process to the server: only Timestamp is used, and it
// is the server's backend (what DbmsLocal.Timestamp calls). The wire transfer of the value
// (pack/unpack of a date) is outside this harness.
type vtsDbms struct{ core.IDbms }

func (d vtsDbms) Timestamp() core.SuDate { return Timestamp() }
func (d vtsDbms) Unwrap() core.IDbms     { return d }

// vts is one handed-out value: the raw date word, the raw time word
// (hour<<22 | minute<<16 | second<<10 | millisecond) and the extra byte.
type vts struct {
	date, time uint32
	extra      int
	val        core.PackableValue
}

func vtsOf(v core.PackableValue) vts {
	d, t, x, ok := core.TsVerifParts(v)
	rt.Assert("ts/is-a-date-or-timestamp", ok)
	return vts{d, t, x, v}
}

// independent order on timestamps: date, then time of day, then the extra byte (branch-free)
func vtsLess(a, b vts) bool {
	return rt.Or(a.date < b.date, rt.And(a.date == b.date,
		rt.Or(a.time < b.time, rt.And(a.time == b.time, a.extra < b.extra))))
}

func vtsSame(a, b vts) bool {
	return rt.And(a.date == b.date, rt.And(a.time == b.time, a.extra == b.extra))
}

// vtsTime: an arbitrary valid time of day without milliseconds, as a raw time word
func vtsTime(name string) uint32 {
	h, m, s := uint32(rt.Choice(name+"_h", 24)), uint32(rt.Choice(name+"_m", 60)), uint32(rt.Choice(name+"_s", 60))
	return h<<22 | m<<16 | s<<10
}

func vtsDate(y, m, d uint32) uint32 { return y<<9 | m<<5 | d }

// the days the scripts start on (the script's clock readings are on the same or the next day):
// an ordinary day; thorough also the last day of February in a leap and a non-leap year and the
// last day of a year (for the roll-over of 23:59:59.999)
var vtsDays = [][2]uint32{
	{vtsDate(2025, 6, 15), vtsDate(2025, 6, 16)},
	{vtsDate(2024, 2, 28), vtsDate(2024, 2, 29)},
	{vtsDate(2023, 2, 28), vtsDate(2023, 3, 1)},
	{vtsDate(2025, 12, 31), vtsDate(2026, 1, 1)},
}

// vsumPlus stands for SuDate.Plus in the engine (summary=; natively the real Plus runs and the
// conformance replays compare the two). The only call reached here is the fallback of AddMs,
// d.Plus(0,0,0,0,0,0,1) with d.Millisecond()+1 == 1000 (asserted): the contract is "the first
// millisecond of the next second", rolling over minute, hour and day (the next day is looked up
// in vtsDays). That Plus normalises like this is property C33 (VerifC33PlusTime); run
// symbolically, Go's time.Date on an arbitrary time of day is too hard for the solver in bv mode.
func vsumPlus(d core.SuDate, yr, mon, day, hr, min, sec, ms int) core.SuDate {
	date, time, _, _ := core.TsVerifParts(d)
	rt.Assert("ts/plus-only-for-the-ms-rollover",
		yr == 0 && mon == 0 && day == 0 && hr == 0 && min == 0 && sec == 0 && rt.And(ms == 1, time&0x3ff == 999))
	h, m, s := time>>22, (time>>16)&0x3f, (time>>10)&0x3f
	switch {
	case s < 59:
		return core.TsVerifMkDate(date, h<<22|m<<16|(s+1)<<10)
	case m < 59:
		return core.TsVerifMkDate(date, h<<22|(m+1)<<16)
	case h < 23:
		return core.TsVerifMkDate(date, (h+1)<<22)
	}
	for _, dd := range vtsDays {
		if date == dd[0] {
			return core.TsVerifMkDate(dd[1], 0)
		}
	}
	rt.Assert("ts/model-knows-the-next-day", false)
	return core.NilDate
}

// vtsTickStep is the update step of ticker() (timestamp.go), verbatim, for a clock reading t
// (t := Now().WithoutMs()); the goroutine around it (Sleep, time-skip logging) is not run here.
// VerifC34Ticker runs the real ticker goroutine and checks that it does exactly this.
func vtsTickStep(t core.SuDate) {
	tsLock.Lock()
	if t.Compare(timestamp) > 0 {
		// only update timestamp forwards
		timestamp = t
	}
	tsLock.Unlock()
}

// C34: a server and two client processes A and B (each with its own copy of the client-side
// batching state of core/thread.go; the harness swaps the globals in and out) plus callers that
// ask the server directly. The server's timestamp starts at an arbitrary time of day with
// arbitrary milliseconds on one of the listed days. A script of events, each one of
//
//	0 the server's ticker reads the clock: an arbitrary time (any second of the same or the
//	  next day - not even assumed to be later than the previous reading)
//	1 a direct request to the server (db19.Timestamp)
//	2 client A asks for a timestamp (Thread.Timestamp)     3 client B asks
//	4 client A's expiry tick (tsExpire's step)             5 client B's expiry tick
//
// Oracle: all values handed out (to anybody) are pairwise different as timestamps including
// the extra byte; the values each caller receives (direct callers taken as one caller, A, B)
// strictly increase - by the harness's own lexicographic order on (date, time, extra) and
// by the values' own Compare; a value with an extra byte never has extra = 0.
//
//symgo:harness prop=C34 tier=quick shards=8 timeout=400 ttimeout=1700 preempt=0 summary=(github.com/apmckinlay/gsuneido/core.SuDate).Plus=vsumPlus bounds=scripts_of_4_(thorough_6)_events_from_{clock_tick_with_an_arbitrary_time,direct_request,client_A_request,client_B_request,expiry_of_A,expiry_of_B};server_timestamp_starts_at_any_time_of_day_and_millisecond_on_2025-06-15_(thorough:_also_Feb_28_leap/non-leap,_Dec_31);clients_start_with_an_expired_(=empty)_batch outside=SuDate.Plus_(reached_only_for_the_+1_ms_roll-over_at_ms_999)_is_replaced_by_its_contract_in_the_engine_(property_C33;_the_real_one_is_compared_in_the_native_conformance_replays);the_ticker_and_tsExpire_goroutines_themselves_(their_loop_bodies_are_run_as_events;_the_real_ticker_runs_in_VerifC34Ticker);the_client-server_wire_transfer;server_restart_within_the_same_second_(990_ms_head_start);more_than_2_clients;more_than_255+1_requests_per_batch
func VerifC34Ts() {
	nev := 4
	ndays := 1
	if rt.Thorough() {
		nev = 6
		ndays = len(vtsDays)
	}
	days := vtsDays[rt.Pick("day", ndays)]
	ms := uint32(rt.Choice("ms0", 1000))
	timestamp = core.TsVerifMkDate(days[0], vtsTime("t0")|ms)

	core.GetDbms = func() core.IDbms { return vtsDbms{} }
	th := &core.Thread{}
	// a client whose batch is used up / expired: its next request goes to the server, exactly
	// as for a fresh process (tsCount = tsLimit = 0) except that the latter also starts the
	// tsExpire goroutine
	expired := core.TsVerifState{Count: core.TsInitialBatch + 1, Limit: core.TsInitialBatch}
	clients := []core.TsVerifState{expired, expired}
	saved := core.TsVerifGet()
	defer core.TsVerifSet(saved)

	var all []vts
	var caller []int // 0 direct, 1 A, 2 B
	var asked, fresh [2]bool // client has asked at all / since its last expiry
	for i := 0; i < nev; i++ {
		nm := vname34("e", i)
		ev := rt.Pick(nm, 6)
		// scripts that add nothing are skipped: a script ending in an event that hands out no
		// value is covered by the shorter script (thorough runs them all the same); B's
		// first request before A's first is the mirror image of the script with A and B
		// exchanged; an expiry of a client that has not asked since its last expiry (or at all)
		// changes nothing
		if !rt.Thorough() {
			if i == nev-1 && (ev == 0 || ev >= 4) {
				return
			}
			if ev == 3 && !asked[0] && !asked[1] {
				return
			}
			if ev >= 4 && !fresh[ev-4] {
				return
			}
		}
		switch ev {
		case 0:
			day := days[rt.Pick(nm+"_day", 2)]
			vtsTickStep(core.TsVerifMkDate(day, vtsTime(nm+"_clk")))
		case 1:
			all = append(all, vtsOf(Timestamp()))
			caller = append(caller, 0)
		case 2, 3:
			c := ev - 2
			core.TsVerifSet(clients[c])
			v := th.Timestamp()
			clients[c] = core.TsVerifGet()
			asked[c], fresh[c] = true, true
			all = append(all, vtsOf(v))
			caller = append(caller, 1+c)
		case 4, 5:
			c := ev - 4
			core.TsVerifSet(clients[c])
			core.TsVerifExpireStep()
			clients[c] = core.TsVerifGet()
			fresh[c] = false
		}
	}
	rt.Reach("script-done")
	distinct, increasing, extraOk := true, true, true
	last := [3]int{-1, -1, -1}
	for i, v := range all {
		for j := 0; j < i; j++ {
			distinct = rt.And(distinct, !vtsSame(all[j], v))
		}
		if p := last[caller[i]]; p >= 0 {
			increasing = rt.And(increasing, vtsLess(all[p], v))
			rt.Assert("ts/compare-says-increasing", all[p].val.Compare(v.val) < 0)
		}
		last[caller[i]] = i
		if _, isTs := v.val.(core.SuTimestamp); isTs {
			extraOk = rt.And(extraOk, v.extra != 0)
		}
		rt.Observe(vname34("date", i), v.date)
		rt.Observe(vname34("time", i), v.time)
		rt.Observe(vname34("extra", i), v.extra)
	}
	rt.Assert("ts/all-distinct", distinct)
	rt.Assert("ts/each-caller-increasing", increasing)
	rt.Assert("ts/extra-byte-nonzero", extraOk)
}

func vname34(p string, i int) string { return p + string(rune('0'+i)) }
