package db19

//symgo:needs core

import (
	"github.com/apmckinlay/gsuneido/core"
	rt "github.com/apmckinlay/gsuneido/zzverifrt"
)

// vtsDbms is the connection of a client process to the server: only Timestamp is used, and it
// is the server's backend (what DbmsLocal.Timestamp calls). The wire transfer of the value
// (pack/unpack of a date) is outside this harness.
type vtsDbms struct{ core.IDbms }

func (d vtsDbms) Timestamp() core.SuDate { return Timestamp() }
func (d vtsDbms) Unwrap() core.IDbms     { return d }

// vts is one handed-out value: the raw date word, the raw time word
// (hour<<22 | minute<<16 | second<<10 | millisecond) and the extra byte.
type vts struct {
	date, time uint32
	extra      int
	val        core.PackableValue
}

func vtsOf(v core.PackableValue) vts {
	d, t, x, ok := core.VerifTsParts(v)
	rt.Assert("ts/is-a-date-or-timestamp", ok)
	return vts{d, t, x, v}
}

// independent order on timestamps: date, then time of day, then the extra byte (branch-free)
func vtsLess(a, b vts) bool {
	return rt.Or(a.date < b.date, rt.And(a.date == b.date,
		rt.Or(a.time < b.time, rt.And(a.time == b.time, a.extra < b.extra))))
}

func vtsSame(a, b vts) bool {
	return rt.And(a.date == b.date, rt.And(a.time == b.time, a.extra == b.extra))
}

// vtsTime: an arbitrary valid time of day without milliseconds, as a raw time word
func vtsTime(name string) uint32 {
	h, m, s := rt.U32(name+"_h"), rt.U32(name+"_m"), rt.U32(name+"_s")
	rt.Assume(h < 24)
	rt.Assume(m < 60)
	rt.Assume(s < 60)
	return h<<22 | m<<16 | s<<10
}

func vtsDate(y, m, d uint32) uint32 { return y<<9 | m<<5 | d }

// the days the scripts start on (the script's clock readings are on the same or the next day):
// an ordinary day; thorough also the last day of February in a leap and a non-leap year and the
// last day of a year (for the roll-over of 23:59:59.999)
var vtsDays = [][2]uint32{
	{vtsDate(2025, 6, 15), vtsDate(2025, 6, 16)},
	{vtsDate(2024, 2, 28), vtsDate(2024, 2, 29)},
	{vtsDate(2023, 2, 28), vtsDate(2023, 3, 1)},
	{vtsDate(2025, 12, 31), vtsDate(2026, 1, 1)},
}

// vtsTickStep is the update step of ticker() (timestamp.go), verbatim, for a clock reading t
// (t := Now().WithoutMs()); the goroutine around it (Sleep, time-skip logging) is not run here.
// VerifC34Ticker runs the real ticker goroutine and checks that it does exactly this.
func vtsTickStep(t core.SuDate) {
	tsLock.Lock()
	if t.Compare(timestamp) > 0 {
		// only update timestamp forwards
		timestamp = t
	}
	tsLock.Unlock()
}

// C34: a server and two client processes A and B (each with its own copy of the client-side
// batching state of core/thread.go; the harness swaps the globals in and out) plus callers that
// ask the server directly. The server's timestamp starts at an arbitrary time of day with
// arbitrary milliseconds on one of the listed days. A script of events, each one of
//
//	0 the server's ticker reads the clock: an arbitrary time (any second of the same or the
//	  next day - not even assumed to be later than the previous reading)
//	1 a direct request to the server (db19.Timestamp)
//	2 client A asks for a timestamp (Thread.Timestamp)     3 client B asks
//	4 client A's expiry tick (tsExpire's step)             5 client B's expiry tick
//
// Oracle: all values handed out (to anybody) are pairwise different as timestamps including
// the extra byte; the values each caller receives (direct callers taken as one caller, A, B)
// strictly increase - by the harness's own lexicographic order on (date, time, extra) and
// by the values' own Compare; a value with an extra byte never has extra = 0.
//
//symgo:harness prop=C34 tier=quick shards=8 timeout=400 ttimeout=1700 preempt=0 bounds=scripts_of_4_(thorough_6)_events_from_{clock_tick_with_an_arbitrary_time,direct_request,client_A_request,client_B_request,expiry_of_A,expiry_of_B};server_timestamp_starts_at_any_time_of_day_and_millisecond_on_2025-06-15_(thorough:_also_Feb_28_leap/non-leap,_Dec_31);clients_start_with_an_expired_(=empty)_batch outside=the_ticker_and_tsExpire_goroutines_themselves_(their_loop_bodies_are_run_as_events;_the_real_ticker_runs_in_VerifC34Ticker);the_client-server_wire_transfer;server_restart_within_the_same_second_(990_ms_head_start);more_than_2_clients;more_than_255+1_requests_per_batch
func VerifC34Ts() {
	nev := 4
	ndays := 1
	if rt.Thorough() {
		nev = 6
		ndays = len(vtsDays)
	}
	days := vtsDays[rt.Pick("day", ndays)]
	ms := rt.U32("ms0")
	rt.Assume(ms < 1000)
	timestamp = core.VerifMkDate(days[0], vtsTime("t0")|ms)

	core.GetDbms = func() core.IDbms { return vtsDbms{} }
	th := &core.Thread{}
	// a client whose batch is used up / expired: its next request goes to the server, exactly
	// as for a fresh process (tsCount = tsLimit = 0) except that the latter also starts the
	// tsExpire goroutine
	expired := core.VerifTsState{Count: core.TsInitialBatch + 1, Limit: core.TsInitialBatch}
	clients := []core.VerifTsState{expired, expired}
	saved := core.VerifTsGet()
	defer core.VerifTsSet(saved)

	var all []vts
	var caller []int // 0 direct, 1 A, 2 B
	for i := 0; i < nev; i++ {
		nm := vname34("e", i)
		switch ev := rt.Pick(nm, 6); ev {
		case 0:
			day := days[rt.Pick(nm+"_day", 2)]
			vtsTickStep(core.VerifMkDate(day, vtsTime(nm+"_clk")))
		case 1:
			all = append(all, vtsOf(Timestamp()))
			caller = append(caller, 0)
		case 2, 3:
			c := ev - 2
			core.VerifTsSet(clients[c])
			v := th.Timestamp()
			clients[c] = core.VerifTsGet()
			all = append(all, vtsOf(v))
			caller = append(caller, 1+c)
		case 4, 5:
			c := ev - 4
			core.VerifTsSet(clients[c])
			core.VerifTsExpireStep()
			clients[c] = core.VerifTsGet()
		}
	}
	rt.Reach("script-done")
	distinct, increasing, extraOk := true, true, true
	last := [3]int{-1, -1, -1}
	for i, v := range all {
		for j := 0; j < i; j++ {
			distinct = rt.And(distinct, !vtsSame(all[j], v))
		}
		if p := last[caller[i]]; p >= 0 {
			increasing = rt.And(increasing, vtsLess(all[p], v))
			rt.Assert("ts/compare-says-increasing", all[p].val.Compare(v.val) < 0)
		}
		last[caller[i]] = i
		if _, isTs := v.val.(core.SuTimestamp); isTs {
			extraOk = rt.And(extraOk, v.extra != 0)
		}
		rt.Observe(vname34("date", i), v.date)
		rt.Observe(vname34("time", i), v.time)
		rt.Observe(vname34("extra", i), v.extra)
	}
	rt.Assert("ts/all-distinct", distinct)
	rt.Assert("ts/each-caller-increasing", increasing)
	rt.Assert("ts/extra-byte-nonzero", extraOk)
}

func vname34(p string, i int) string { return p + string(rune('0'+i)) }
