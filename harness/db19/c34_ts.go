package db19

//symgo:needs core

import (
	"sync"

	"github.com/apmckinlay/gsuneido/core"
	rt "github.com/apmckinlay/gsuneido/zzverifrt"
)

// vtsDbms is the connection of a client process to the server: only Timestamp is used, and it
// is the server's backend (what DbmsLocal.Timestamp calls). The wire transfer of the value
// (pack/unpack of a date) is outside this harness.
type vtsDbms struct{ core.IDbms }

func (d vtsDbms) Timestamp() core.SuDate { return Timestamp() }
func (d vtsDbms) Unwrap() core.IDbms     { return d }

// vts is one handed-out value: the raw date word, the raw time word
// (hour<<22 | minute<<16 | second<<10 | millisecond) and the extra byte.
type vts struct {
	date, time uint32
	extra      int
	val        core.PackableValue
}

func vtsOf(v core.PackableValue) vts {
	d, t, x, ok := core.TsVerifParts(v)
	rt.Assert("ts/is-a-date-or-timestamp", ok)
	return vts{d, t, x, v}
}

// independent order on timestamps: date, then time of day, then the extra byte (branch-free)
func vtsLess(a, b vts) bool {
	return rt.Or(a.date < b.date, rt.And(a.date == b.date,
		rt.Or(a.time < b.time, rt.And(a.time == b.time, a.extra < b.extra))))
}

func vtsSame(a, b vts) bool {
	return rt.And(a.date == b.date, rt.And(a.time == b.time, a.extra == b.extra))
}

// vtsTime: an arbitrary valid time of day without milliseconds, as a raw time word
func vtsTime(name string) uint32 {
	h, m, s := uint32(rt.Choice(name+"_h", 24)), uint32(rt.Choice(name+"_m", 60)), uint32(rt.Choice(name+"_s", 60))
	return h<<22 | m<<16 | s<<10
}

func vtsDate(y, m, d uint32) uint32 { return y<<9 | m<<5 | d }

// the days the scripts start on, each with the two days following it (the script's clock
// readings are on the first or the second day): an ordinary day; thorough also the last day of
// February in a leap and a non-leap year and the last day of a year (for the roll-over of
// 23:59:59.999)
var vtsDays = [][3]uint32{
	{vtsDate(2025, 6, 15), vtsDate(2025, 6, 16), vtsDate(2025, 6, 17)},
	{vtsDate(2024, 2, 28), vtsDate(2024, 2, 29), vtsDate(2024, 3, 1)},
	{vtsDate(2023, 2, 28), vtsDate(2023, 3, 1), vtsDate(2023, 3, 2)},
	{vtsDate(2025, 12, 31), vtsDate(2026, 1, 1), vtsDate(2026, 1, 2)},
}

// vsumPlus stands for SuDate.Plus in the engine (summary=; natively the real Plus runs and the
// conformance replays compare the two). The only call reached here is the fallback of AddMs,
// d.Plus(0,0,0,0,0,0,1) with d.Millisecond()+1 == 1000 (asserted): the contract is "the first
// millisecond of the next second", rolling over minute, hour and day (the next day is looked up
// in vtsDays). That Plus normalises like this is property C33 (VerifC33PlusTime); run
// symbolically, Go's time.Date on an arbitrary time of day is too hard for the solver in bv mode.
func vsumPlus(d core.SuDate, yr, mon, day, hr, min, sec, ms int) core.SuDate {
	date, time, _, _ := core.TsVerifParts(d)
	rt.Assert("ts/plus-only-for-the-ms-rollover",
		yr == 0 && mon == 0 && day == 0 && hr == 0 && min == 0 && sec == 0 && rt.And(ms == 1, time&0x3ff == 999))
	h, m, s := time>>22, (time>>16)&0x3f, (time>>10)&0x3f
	switch {
	case s < 59:
		return core.TsVerifMkDate(date, h<<22|m<<16|(s+1)<<10)
	case m < 59:
		return core.TsVerifMkDate(date, h<<22|(m+1)<<16)
	case h < 23:
		return core.TsVerifMkDate(date, (h+1)<<22)
	}
	for _, dd := range vtsDays {
		for k := 0; k+1 < len(dd); k++ {
			if date == dd[k] {
				return core.TsVerifMkDate(dd[k+1], 0)
			}
		}
	}
	rt.Assert("ts/model-knows-the-next-day", false)
	return core.NilDate
}

// vtsTickStep is the update step of ticker() (timestamp.go), verbatim, for a clock reading t
// (t := Now().WithoutMs()); the goroutine around it (Sleep, time-skip logging) is not run here.
// VerifC34Ticker runs the real ticker goroutine and checks that it does exactly this.
func vtsTickStep(t core.SuDate) {
	tsLock.Lock()
	if t.Compare(timestamp) > 0 {
		// only update timestamp forwards
		timestamp = t
	}
	tsLock.Unlock()
}

// vtsVariant: how a script starts. kind 0: both clients with an expired (= empty) batch.
// kind 1: client A in the middle of a 5-millisecond batch (it fetched a timestamp with ms < 500
// and has used count further values); kind 2: A in the middle of a 256-value batch (fetched
// with ms >= 500, has used count extra-byte values).
type vtsVariant struct{ kind, count, nev, day int }

var vtsQuick = []vtsVariant{{0, 0, 4, 0}, {1, 3, 3, 0}, {2, 254, 3, 0}}
var vtsThorough = []vtsVariant{{0, 0, 5, 0}, {0, 0, 3, 1}, {0, 0, 3, 2}, {0, 0, 3, 3},
	{1, 3, 4, 0}, {1, 4, 4, 0}, {2, 254, 4, 0}, {2, 255, 4, 0}}

// C34: a server and two client processes A and B (each with its own copy of the client-side
// batching state of core/thread.go; the harness swaps the globals in and out) plus callers that
// ask the server directly. The server's timestamp starts at an arbitrary time of day with
// arbitrary milliseconds on one of the listed days; the clients start with an empty batch, or
// (vtsVariant) client A starts in the middle of a batch: then its last value L is arbitrary and
// the server is where the protocol leaves it at least - past the 5 milliseconds it gave away
// with L's batch, resp. past L. A script of events, each one of
//
//	0 the server's ticker reads the clock: an arbitrary time (any second of the same or the
//	  next day - not even assumed to be later than the previous reading)
//	1 a direct request to the server (db19.Timestamp)
//	2 client A asks for a timestamp (Thread.Timestamp)     3 client B asks
//	4 client A's expiry tick (tsExpire's step)             5 client B's expiry tick
//
// Oracle: all values handed out (to anybody, including A's last value before the script) are
// pairwise different as timestamps including the extra byte; the values each caller receives
// (direct callers taken as one caller, A, B) strictly increase - by the harness's own
// lexicographic order on (date, time, extra) and by the values' own Compare; a value with an
// extra byte never has extra = 0.
//
//symgo:harness prop=C34 tier=quick shards=8 tshards=16 timeout=400 ttimeout=1700 preempt=0 summary=(github.com/apmckinlay/gsuneido/core.SuDate).Plus=vsumPlus bounds=scripts_of_4_(thorough_5)_events_from_{clock_tick_with_an_arbitrary_time,direct_request,client_A_request,client_B_request,expiry_of_A,expiry_of_B}_from_empty_client_batches;scripts_of_3_(4)_events_with_client_A_at_count_3_of_a_5-ms_batch_or_at_count_254_of_a_256-value_batch_fetched_at_any_time_with_ms_<_500_resp._500..998_(thorough:_counts_3,4_and_254,255;_ms_500..999),_the_server_anywhere_later;server_timestamp_starts_at_any_time_of_day_and_millisecond_on_2025-06-15_(thorough:_3-event_scripts_also_from_Feb_28_leap/non-leap,_Dec_31);skipped_as_covered_by_other_scripts:_scripts_ending_without_a_request,_mirror_images_A<->B,_expiry_of_an_expired_batch outside=SuDate.Plus_(reached_only_for_the_+1_ms_roll-over_at_ms_999)_is_replaced_by_its_contract_in_the_engine_(property_C33;_the_real_one_is_compared_in_the_native_conformance_replays);the_ticker_and_tsExpire_goroutines_themselves_(their_loop_bodies_are_run_as_events;_the_real_ticker_runs_in_VerifC34Ticker);the_client-server_wire_transfer;server_restart_within_the_same_second_(990_ms_head_start);more_than_2_clients
func VerifC34Ts() {
	vars := vtsQuick
	if rt.Thorough() {
		vars = vtsThorough
	}
	va := vars[rt.Pick("variant", len(vars))]
	nev := va.nev
	days := vtsDays[va.day]
	core.GetDbms = func() core.IDbms { return vtsDbms{} }
	th := &core.Thread{}
	saved := core.TsVerifGet()
	defer core.TsVerifSet(saved)

	// a client whose batch is used up / expired: its next request goes to the server, exactly
	// as for a fresh process (tsCount = tsLimit = 0) except that the latter also starts the
	// tsExpire goroutine
	expired := core.TsVerifState{Count: core.TsInitialBatch + 1, Limit: core.TsInitialBatch}
	clients := []core.TsVerifState{expired, expired}
	var all []vts
	var caller []int         // 0 direct, 1 A, 2 B
	var asked, fresh [2]bool // client has asked at all / since its last expiry
	sdate := days[0]
	var floor uint32 // the server's time of day is at least this
	if va.kind != 0 {
		// client A fetches B from the server (the real code decides the kind and size of the
		// batch), then uses va.count values of the batch
		bms := uint32(rt.Choice("last_ms", 1000))
		if va.kind == 1 {
			rt.Assume(bms < core.TsThreshold)
		} else {
			rt.Assume(bms >= core.TsThreshold)
			if !rt.Thorough() {
				rt.Assume(bms < 999) // quick: the server's roll-over is left to the scripts
			}
		}
		btime := vtsTime("last") | bms
		timestamp = core.TsVerifMkDate(sdate, btime)
		core.TsVerifSet(expired)
		lastVal := th.Timestamp()
		st := core.TsVerifGet()
		st.Count = va.count
		if va.kind == 1 {
			st.Last = core.TsVerifMkDate(sdate, btime+uint32(va.count)) // B + count ms
			lastVal = st.Last
		} else if va.count > 0 {
			lastVal = core.TsVerifMkTimestamp(st.Last, uint8(va.count))
		}
		clients[0] = st
		all = append(all, vtsOf(lastVal))
		caller = append(caller, 1)
		asked[0], fresh[0] = true, true
		// where that fetch left the server; from there it has moved on arbitrarily (below)
		sdate, floor, _, _ = core.TsVerifParts(timestamp)
	}
	ms := uint32(rt.Choice("ms0", 1000))
	stime := vtsTime("t0") | ms
	rt.Assume(stime >= floor)
	timestamp = core.TsVerifMkDate(sdate, stime)

	for i := 0; i < nev; i++ {
		nm := vname34("e", i)
		ev := rt.Pick(nm, 6)
		// scripts that add nothing are skipped: a script ending in an event that hands out no
		// value is covered by the script that has requests in place of its trailing other
		// events (the oracle looks at all values of the script); B's first request before A's
		// first is the mirror image of the script with A and B exchanged (both start alike
		// then); an expiry of a client whose batch is expired already changes nothing
		if i == nev-1 && (ev == 0 || ev >= 4) {
			return
		}
		if ev == 3 && !asked[0] && !asked[1] {
			return
		}
		if ev >= 4 && !fresh[ev-4] {
			return
		}
		switch ev {
		case 0:
			day := days[rt.Pick(nm+"_day", 2)]
			vtsTickStep(core.TsVerifMkDate(day, vtsTime(nm+"_clk")))
		case 1:
			all = append(all, vtsOf(Timestamp()))
			caller = append(caller, 0)
		case 2, 3:
			c := ev - 2
			core.TsVerifSet(clients[c])
			v := th.Timestamp()
			clients[c] = core.TsVerifGet()
			asked[c], fresh[c] = true, true
			all = append(all, vtsOf(v))
			caller = append(caller, 1+c)
		case 4, 5:
			c := ev - 4
			core.TsVerifSet(clients[c])
			core.TsVerifExpireStep()
			clients[c] = core.TsVerifGet()
			fresh[c] = false
		}
	}
	rt.Reach("script-done")
	distinct, increasing, extraOk := true, true, true
	last := [3]int{-1, -1, -1}
	for i, v := range all {
		for j := 0; j < i; j++ {
			distinct = rt.And(distinct, !vtsSame(all[j], v))
		}
		if p := last[caller[i]]; p >= 0 {
			increasing = rt.And(increasing, vtsLess(all[p], v))
			rt.Assert("ts/compare-says-increasing", all[p].val.Compare(v.val) < 0)
		}
		last[caller[i]] = i
		if _, isTs := v.val.(core.SuTimestamp); isTs {
			extraOk = rt.And(extraOk, v.extra != 0)
		}
		rt.Observe(vname34("date", i), v.date)
		rt.Observe(vname34("time", i), v.time)
		rt.Observe(vname34("extra", i), v.extra)
	}
	rt.Assert("ts/all-distinct", distinct)
	rt.Assert("ts/each-caller-increasing", increasing)
	rt.Assert("ts/extra-byte-nonzero", extraOk)
}

func vname34(p string, i int) string { return p + string(rune('0'+i)) }

// ---------------------------------------------------------------- the real ticker goroutine

// The clock of VerifC34Ticker: core.Now is replaced (summary=) by vsumNow, which hands the
// ticker goroutine the next clock reading granted by the harness and parks it until then. So the
// real ticker() runs unchanged: its first Now() (prev), then per granted reading one iteration
// Sleep - Now - time-skip check - locked update of timestamp. (time.Sleep is a scheduling point.)
var (
	vtkMu    sync.Mutex
	vtkCond  sync.Cond // L = &vtkMu
	vtkGrant int       // readings granted and not yet taken
	vtkAsked int       // calls of Now entered
	vtkTaken int       // calls of Now returned
	vtkClock core.SuDate
)

func vsumNow() core.SuDate {
	vtkMu.Lock()
	vtkAsked++
	vtkCond.Broadcast()
	for vtkGrant == 0 {
		vtkCond.Wait()
	}
	vtkGrant--
	vtkTaken++
	t := vtkClock
	vtkMu.Unlock()
	return t
}

// vtkTick: the clock reads t; returns when the ticker has taken that reading, finished what it
// does with it, and has come back asking for the next one.
func vtkTick(t core.SuDate) {
	vtkMu.Lock()
	vtkClock = t
	vtkGrant++
	k := vtkTaken + 1
	vtkCond.Broadcast()
	for vtkTaken < k || vtkAsked < k+1 {
		vtkCond.Wait()
	}
	vtkMu.Unlock()
}

// C34, the server's ticker: the real goroutine ticker() (timestamp.go) runs next to direct
// requests. The server's timestamp starts at an arbitrary time of day and millisecond; the
// clock starts at an arbitrary second (ticker's prev); a script of events, each either
// "a second later the ticker reads the clock" - an arbitrary second of the same day, forwards,
// backwards or a time skip of hours - or a direct request db19.Timestamp(). After every clock
// reading the server's timestamp is the later of its old value and the reading (never moves
// backwards; this is the step VerifC34Ts replays as its event 0), and the values handed out
// are pairwise different and strictly increasing.
//
//symgo:harness prop=C34 tier=quick shards=4 tshards=8 timeout=300 ttimeout=1700 preempt=0 replay=off havoc=(github.com/apmckinlay/gsuneido/core.SuDate).MinusMs summary=core.Now=vsumNow summary=(github.com/apmckinlay/gsuneido/core.SuDate).Plus=vsumPlus bounds=scripts_of_3_(thorough_4)_events_from_{the_real_ticker_goroutine_reads_an_arbitrary_clock_second_of_the_same_day,direct_request},_the_last_one_a_request;server_timestamp_starts_at_any_time_of_day_and_millisecond;the_ticker_runs_only_while_the_harness_waits_for_it_(1_pre-emption:_VerifC34TickerPreempt) outside=clock_readings_on_another_day;the_time-skip_log_message_(SuDate.MinusMs,_used_only_for_it,_returns_an_arbitrary_value:_both_log_branches_are_run);SuDate.Plus_by_its_contract_as_in_VerifC34Ts;no_native_replay_(the_clock_and_the_schedule_cannot_be_forced_natively)
func VerifC34Ticker() {
	if rt.Thorough() {
		vticker(4)
	} else {
		vticker(3)
	}
}

// C34, thorough only: as VerifC34Ticker (3 events) where the scheduler may also pre-empt once:
// the ticker can be suspended anywhere between its operations on the lock while requests are
// served, or run on while the harness is between two events.
//
//symgo:harness prop=C34 tier=thorough shards=8 tshards=8 timeout=1700 ttimeout=1700 preempt=1 replay=off havoc=(github.com/apmckinlay/gsuneido/core.SuDate).MinusMs summary=core.Now=vsumNow summary=(github.com/apmckinlay/gsuneido/core.SuDate).Plus=vsumPlus bounds=as_VerifC34Ticker_with_scripts_of_3_events_and_<=1_pre-emptive_switch_at_any_lock/unlock/Sleep/Wait/Broadcast outside=as_VerifC34Ticker;more_pre-emptions
func VerifC34TickerPreempt() {
	vticker(3)
}

func vticker(nev int) {
	day := vtsDays[0][0]
	ms := uint32(rt.Choice("ms0", 1000))
	timestamp = core.TsVerifMkDate(day, vtsTime("t0")|ms)
	vtkCond.L = &vtkMu
	vtkGrant, vtkAsked, vtkTaken = 0, 0, 0
	go ticker()
	vtkTick(core.TsVerifMkDate(day, vtsTime("clk"))) // prev := Now().WithoutMs()
	rt.Reach("ticker-started")
	var all []vts
	for i := 0; i < nev; i++ {
		nm := vname34("e", i)
		if rt.Pick(nm, 2) == 0 {
			if i == nev-1 {
				return // the last event is a request (clock readings: the first nev-1 events)
			}
			before := vtsOf(timestamp)
			// the reading has milliseconds: ticker must strip them (WithoutMs)
			cms := uint32(rt.Choice(nm+"_clkms", 1000))
			ctime := vtsTime(nm + "_clk")
			vtkTick(core.TsVerifMkDate(day, ctime|cms))
			after := vtsOf(timestamp)
			t := vts{date: day, time: ctime}
			rt.Assert("ticker/timestamp-is-later-of-old-and-clock", rt.Or(
				rt.And(vtsLess(before, t), vtsSame(after, t)),
				rt.And(!vtsLess(before, t), vtsSame(after, before))))
		} else {
			all = append(all, vtsOf(Timestamp()))
		}
	}
	rt.Reach("script-done")
	increasing := true
	for i := 1; i < len(all); i++ {
		increasing = rt.And(increasing, vtsLess(all[i-1], all[i]))
	}
	rt.Assert("ticker/handed-out-values-increase", increasing)
}
