package db19

import (
	"github.com/apmckinlay/gsuneido/db19/meta/schema"
	rt "github.com/apmckinlay/gsuneido/zzverifrt"
)

func vval(name string) string { return rt.Str(name, rt.Pick(name+"_len", 2)) }

// C07 scenario on the real transaction layer: table t(a,u) key(a) index unique(u); two update
// transactions each try to add one row (a_i, u_i) with arbitrary values of 0..1 bytes (so equal
// keys, equal unique values and empty unique values all occur); the two transactions run
// sequentially or overlapped in one of several orders; any step may be refused (duplicate) or
// abort the transaction (conflict). Oracle on the committed state: no two rows share the key,
// no two rows share a non-empty unique value, row count and index contents equal the model; if
// both insert the same key at most one commits; a transaction that ran alone on non-clashing
// data commits.
//
//symgo:harness prop=C07 tier=quick shards=16 timeout=500 ttimeout=1700 bounds=1_table_key(a)_unique(u);2_transactions_x_1_output;values_of_0..1_arbitrary_bytes;5_interleavings outside=more_rows;updates_(see_VerifC07Update)
func VerifC07Unique() {
	db := vnewdb()
	db.Create(&schema.Schema{Table: "t", Columns: []string{"a", "u"},
		Indexes: []schema.Index{vkey("a"), {Mode: 'u', Columns: []string{"u"}}}})
	a := [2]string{vval("a0"), vval("a1")}
	u := [2]string{vval("u0"), vval("u1")}
	var ut [2]*UpdateTran
	var outOK, committed [2]bool
	start := func(i int) { ut[i] = db.NewUpdateTran() }
	output := func(i int) { outOK[i] = !vtry(func() { ut[i].Output(nil, "t", vmkrec(a[i], u[i])) }) }
	commit := func(i int) {
		if outOK[i] {
			committed[i] = vcommit(db, ut[i], rt.Pick("merge", 2) == 1)
		} else {
			ut[i].Abort()
		}
	}
	sched := rt.Pick("schedule", 5)
	switch sched {
	case 0: // sequential
		start(0)
		output(0)
		commit(0)
		start(1)
		output(1)
		commit(1)
	case 1: // overlapped, commits in start order
		start(0)
		start(1)
		output(0)
		output(1)
		commit(0)
		commit(1)
	case 2:
		start(0)
		start(1)
		output(0)
		commit(0)
		output(1)
		commit(1)
	case 3:
		start(0)
		start(1)
		output(1)
		output(0)
		commit(1)
		commit(0)
	case 4:
		start(0)
		output(0)
		start(1)
		output(1)
		commit(1)
		commit(0)
	}
	rt.Reach("ran")
	clashKey := a[0] == a[1]
	clashU := u[0] != "" && u[0] == u[1]
	if committed[0] && committed[1] {
		rt.Assert("unique/no-duplicate-key", !clashKey)
		rt.Assert("unique/no-duplicate-unique-value", !clashU)
	}
	rt.Assert("unique/first-alone-commits", committed[0] || sched >= 3)
	if !clashKey && !clashU {
		rt.Assert("unique/no-spurious-refusal-when-sequential", sched != 0 || (committed[0] && committed[1]))
	}
	// the committed state equals the model
	rtx := db.NewReadTran()
	n := 0
	for i := 0; i < 2; i++ {
		if committed[i] {
			n++
		}
	}
	rt.Assert("unique/nrows", rtx.GetInfo("t").Nrows == n)
	keys, _ := vscan(rtx, "t", 0)
	rt.Assert("unique/key-index-count", len(keys) == n)
	for j := 1; j < len(keys); j++ {
		rt.Assert("unique/key-index-strictly-increasing", keys[j-1] < keys[j])
	}
	ukeys, _ := vscan(rtx, "t", 1)
	rt.Assert("unique/unique-index-count", len(ukeys) == n)
	for i := 0; i < 2; i++ {
		rec := rtx.Lookup("t", 0, vpk(a[i]))
		if committed[i] {
			rt.Assert("unique/committed-row-found", rec != nil && rec.Record.GetStr(1) == u[i])
		} else if !committed[1-i] || a[0] != a[1] {
			rt.Assert("unique/failed-row-absent", rec == nil)
		}
	}
}

// C07 empty key: a table with key() holds at most one row, whatever two transactions try.
//
//symgo:harness prop=C07 tier=quick shards=4 timeout=300 bounds=table_with_key();2_transactions_x_1_output;5_interleavings
func VerifC07EmptyKey() {
	db := vnewdb()
	db.Create(&schema.Schema{Table: "one", Columns: []string{"x"}, Indexes: []schema.Index{vkey()}})
	x := [2]string{vval("x0"), vval("x1")}
	var ut [2]*UpdateTran
	var outOK, committed [2]bool
	start := func(i int) { ut[i] = db.NewUpdateTran() }
	output := func(i int) { outOK[i] = !vtry(func() { ut[i].Output(nil, "one", vmkrec(x[i])) }) }
	commit := func(i int) {
		if outOK[i] {
			committed[i] = vcommit(db, ut[i], true)
		} else {
			ut[i].Abort()
		}
	}
	switch rt.Pick("schedule", 4) {
	case 0:
		start(0)
		output(0)
		commit(0)
		start(1)
		output(1)
		commit(1)
	case 1:
		start(0)
		start(1)
		output(0)
		output(1)
		commit(0)
		commit(1)
	case 2:
		start(0)
		start(1)
		output(0)
		commit(0)
		output(1)
		commit(1)
	case 3:
		start(0)
		start(1)
		output(1)
		output(0)
		commit(1)
		commit(0)
	}
	rt.Reach("ran")
	rt.Assert("emptykey/at-most-one-row", !(committed[0] && committed[1]))
	rt.Assert("emptykey/one-commits", committed[0] || committed[1])
	rtx := db.NewReadTran()
	rt.Assert("emptykey/nrows", rtx.GetInfo("one").Nrows == 1)
}

// C07 updates: one committed row set {r0, r1}; a transaction updates r1's key / unique value to
// arbitrary values: refused exactly when it would collide with r0 (non-empty unique), and the
// committed state stays duplicate-free.
//
//symgo:harness prop=C07 tier=quick shards=8 timeout=400 bounds=2_rows;1_update_of_key_and_unique_value;values_of_0..1_arbitrary_bytes
func VerifC07Update() {
	db := vnewdb()
	db.Create(&schema.Schema{Table: "t", Columns: []string{"a", "u"},
		Indexes: []schema.Index{vkey("a"), {Mode: 'u', Columns: []string{"u"}}}})
	a0, u0 := vval("a0"), vval("u0")
	a1, u1 := vval("a1"), vval("u1")
	rt.Assume(a0 != a1 && (u0 == "" || u0 != u1))
	t := db.NewUpdateTran()
	t.Output(nil, "t", vmkrec(a0, u0))
	t.Output(nil, "t", vmkrec(a1, u1))
	rt.Assert("update/setup-commits", vcommit(db, t, rt.Pick("merge0", 2) == 1))
	a2, u2 := vval("a2"), vval("u2")
	t = db.NewUpdateTran()
	rec := t.Lookup("t", 0, vpk(a1))
	rt.Assert("update/lookup", rec != nil)
	refused := vtry(func() { t.Update(nil, "t", rec.Off, vmkrec(a2, u2)) })
	rt.Reach("updated")
	collide := a2 == a0 || (u2 != "" && u2 == u0)
	rt.Assert("update/refused-iff-collision", refused == collide)
	if !refused {
		rt.Assert("update/commits", vcommit(db, t, rt.Pick("merge1", 2) == 1))
	}
	rtx := db.NewReadTran()
	rt.Assert("update/nrows", rtx.GetInfo("t").Nrows == 2)
	keys, _ := vscan(rtx, "t", 0)
	rt.Assert("update/key-index-count", len(keys) == 2 && keys[0] < keys[1])
	wantA, wantU := a1, u1
	if !refused {
		wantA, wantU = a2, u2
	}
	r1 := rtx.Lookup("t", 0, vpk(wantA))
	rt.Assert("update/row-as-expected", r1 != nil && r1.Record.GetStr(1) == wantU)
	r0 := rtx.Lookup("t", 0, vpk(a0))
	rt.Assert("update/other-row-untouched", r0 != nil && r0.Record.GetStr(1) == u0)
}
