package db19

import (
	rt "github.com/apmckinlay/gsuneido/zzverifrt"
)

// C16 scenario: three transactions T1, T2, T3 each make one change (arbitrary 1-byte values) and
// commit; the background steps run in between in a chosen order, split as the real goroutines
// split them: merge = compute on the then-current state, apply later; persist = compute, apply
// and write later; a commit may land in the gap between compute and apply. After every state
// change the logical contents of both indexes and the row/size statistics equal the model of the
// committed changes applied in order (nothing lost, duplicated or reordered).
//
//symgo:harness prop=C16 tier=quick shards=16 timeout=700 ttimeout=1700 bounds=3_commits_of_1_change_each;merge_and_persist_compute/apply_split_with_a_commit_in_the_gap;6_schedules;1-byte_values outside=more_than_3_pending_layers;several_tables
func VerifC16Pipeline() {
	db := vnewdb()
	vcreateT(db)
	var rows []vrow
	n := 0
	var pending []string
	commitOne := func() {
		ut := db.NewUpdateTran()
		kind := 0
		if vlive(rows) > 0 {
			kind = rt.Pick("kind"+string(rune('0'+n)), 3)
		}
		ok := vapply("T", ut, &rows, kind, "c"+string(rune('0'+n)))
		n++
		if !ok {
			ut.Abort()
			return
		}
		done, tables := vcommit2(db, ut)
		rt.Assert("commit/succeeds", done)
		pending = append(pending, tables...)
		vagree("after-commit", db.NewReadTran(), rows)
	}
	take := func() []string {
		p := pending
		pending = nil
		return p
	}
	none := func() {}
	switch rt.Pick("schedule", 6) {
	case 0: // commits pile up, then one merge of all layers, then persist
		commitOne()
		commitOne()
		commitOne()
		vmergeSplit(db, take(), none)
		vagree("after-merge", db.NewReadTran(), rows)
		vpersistSplit(db, none)
	case 1: // a commit lands between merge compute and apply
		commitOne()
		commitOne()
		vmergeSplit(db, take(), commitOne)
		vagree("after-merge", db.NewReadTran(), rows)
		vmergeSplit(db, take(), none)
		vpersistSplit(db, none)
	case 2: // a commit lands between persist compute and apply
		commitOne()
		vmergeSplit(db, take(), none)
		vpersistSplit(db, commitOne)
		vagree("after-persist", db.NewReadTran(), rows)
		commitOne()
		vmergeSplit(db, take(), none)
		vpersistSplit(db, none)
	case 3: // persist with unmerged layers pending, then merge, then persist again
		commitOne()
		commitOne()
		vpersistSplit(db, none)
		vagree("after-persist", db.NewReadTran(), rows)
		vmergeSplit(db, take(), commitOne)
		vpersistSplit(db, none)
	case 4: // merge after every commit, persist at the end with a commit in the gap
		commitOne()
		vmergeSplit(db, take(), none)
		commitOne()
		vmergeSplit(db, take(), none)
		vpersistSplit(db, commitOne)
		vmergeSplit(db, take(), none)
	case 5: // two persists in a row around merges
		commitOne()
		vpersistSplit(db, none)
		commitOne()
		vmergeSplit(db, take(), commitOne)
		vpersistSplit(db, none)
		vmergeSplit(db, take(), none)
		vpersistSplit(db, none)
	}
	rt.Reach("pipeline-done")
	vagree("final", db.NewReadTran(), rows)
}
