package db19

import (
	"encoding/binary"

	"github.com/apmckinlay/gsuneido/core"
	"github.com/apmckinlay/gsuneido/db19/meta/schema"
	"github.com/apmckinlay/gsuneido/db19/stor"
	"github.com/apmckinlay/gsuneido/util/cksum"
	rt "github.com/apmckinlay/gsuneido/zzverifrt"
)

// vmkrec builds a record of string fields
func vmkrec(args ...string) core.Record {
	var b core.RecordBuilder
	for _, a := range args {
		b.Add(core.SuStr(a))
	}
	return b.Trim().Build()
}

// vpk is the packed form of a string value (what a single-column key of it looks like)
func vpk(s string) string { return core.Pack(core.SuStr(s)) }

// vtry reports whether f panicked (an Assume violated during a native replay is passed on)
func vtry(f func()) (panicked bool) { return rt.Try(f) }

// vnewdb: an in-memory database with the synchronous conflict checker
func vnewdb() *Database {
	MakeSuTran = func(ut *UpdateTran) *core.SuTran { return nil }
	db := CreateDb(stor.HeapStor(8192))
	db.CheckerSync()
	// the conflict checker picks the victim of a conflict at random; the package's own test switch
	// makes it deterministic (always the acting transaction) so that replays are reproducible
	checkerAbortT1 = true
	vtouched, vconcurrent = nil, false
	return db
}

func vkey(cols ...string) schema.Index { return schema.Index{Mode: 'k', Columns: cols} }

// vcommit completes ut the way the checker goroutine does (check, then publish the state):
// false if the transaction had been aborted. merge=true also merges its index layers at once.
func vcommit(db *Database, ut *UpdateTran, merge bool) bool {
	ok, tables := vcommit2(db, ut)
	if ok && merge {
		vmerge(db, tables)
	}
	return ok
}

// vcommit2 commits without merging and returns the tables whose layers await merging
func vcommit2(db *Database, ut *UpdateTran) (bool, []string) {
	tables := db.ck.(*Check).commit(ut)
	if tables == nil {
		return false, nil
	}
	ut.commit()
	return true, tables
}

// vmerge merges the pending layers of the given tables (what the merger goroutine does)
func vmerge(db *Database, tables []string) {
	if len(tables) == 0 {
		return
	}
	ml := &mergeList{}
	ml.add(tables)
	db.Merge(mergeSingle, ml)
}

// vscan returns the keys and offsets of a full forward scan of an index
func vscan(t *ReadTran, table string, i int) (keys []string, offs []uint64) {
	it := t.IndexIter(table, i)
	for it.Next(t); !it.Eof(); it.Next(t) {
		k, o := it.Cur()
		keys = append(keys, k)
		offs = append(offs, o)
		if len(keys) > 16 {
			panic("vscan: runaway iteration")
		}
	}
	return
}

// vwriteStateAt writes a state record exactly as writeState does, but with a given time instead
// of the wall clock (metadata offsets 0 = empty metadata)
func vwriteStateAt(store *stor.Stor, t int64) uint64 {
	off, buf := store.Alloc(stateLen)
	copy(buf, magic1)
	i := len(magic1)
	binary.BigEndian.PutUint64(buf[i:], uint64(t))
	i += dateSize
	stor.WriteSmallOffset(buf[i:], 0)
	i += stor.SmallOffsetLen
	stor.WriteSmallOffset(buf[i:], 0)
	i += stor.SmallOffsetLen
	i += cksum.Len
	cksum.Update(buf[:i])
	copy(buf[i:], magic2)
	return off
}
