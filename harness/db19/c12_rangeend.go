package db19

import (
	"github.com/apmckinlay/gsuneido/db19/index/ixkey"
	rt "github.com/apmckinlay/gsuneido/zzverifrt"
)

func vfieldC12(name string, maxlen int) string {
	n := rt.Pick(name+"_len", maxlen+1)
	return rt.Str(name, n)
}

// C12 rangeEnd: [key, rangeEnd(key,n)) selects exactly the keys whose first n fields equal key's.
//
//symgo:harness prop=C12 tier=quick shards=16 timeout=240 bounds=key_of_n_in_1..2_fields(len_0..2,0..1);other_key_of_3_fields(len_0..2,0..1,0..1)
func VerifC12RangeEnd() {
	n := 1 + rt.Pick("n", 2)
	kf := []string{vfieldC12("k0", 2), vfieldC12("k1", 1)}[:n]
	rt.Assume(kf[n-1] != "") // callers pass keys with exactly n fields
	key := ixkey.CompKey(kf...)
	end := rangeEnd(key, n)
	o := []string{vfieldC12("o0", 2), vfieldC12("o1", 1), vfieldC12("o2", 1)}
	ok := ixkey.CompKey(o...)
	rt.Reach("computed")
	same := true
	for i := 0; i < n; i++ {
		if o[i] != kf[i] {
			same = false
		}
	}
	inRange := key <= ok && ok < end
	rt.Assert("rangeend/iff-first-n-fields-equal", inRange == same)
}
