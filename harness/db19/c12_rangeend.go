package db19

import (
	"github.com/apmckinlay/gsuneido/db19/index/ixkey"
	rt "github.com/apmckinlay/gsuneido/zzverifrt"
)

func vfieldC12(name string, maxlen int) string {
	n := rt.Pick(name+"_len", maxlen+1)
	return rt.Str(name, n)
}

// C12 rangeEnd: [key, rangeEnd(key,n)) selects exactly the keys whose first n fields equal key's.
// Keys of 1..3 fields (so empty middle fields, fields that start with or consist of zero bytes and
// trimmed trailing empties all occur) against other keys of 4 fields.
//
//symgo:harness prop=C12 tier=quick shards=16 timeout=300 ttimeout=1700 bounds=key_of_n_in_1..3_fields(len_0..2,0..1,0..1);other_key_of_4_fields(len_0..2,0..1,0..1,0..1);all_byte_values
func VerifC12RangeEnd() {
	n := 1 + rt.Pick("n", 3)
	kf := []string{vfieldC12("k0", 2), vfieldC12("k1", 1), vfieldC12("k2", 1)}[:n]
	rt.Assume(kf[n-1] != "") // callers pass keys with exactly n fields
	key := ixkey.CompKey(kf...)
	end := rangeEnd(key, n)
	o := []string{vfieldC12("o0", 2), vfieldC12("o1", 1), vfieldC12("o2", 1), vfieldC12("o3", 1)}
	ok := ixkey.CompKey(o...)
	rt.Reach("computed")
	rt.Observe("end", end)
	same := true
	for i := 0; i < n; i++ {
		same = rt.And(same, o[i] == kf[i])
	}
	inRange := rt.And(key <= ok, ok < end)
	rt.Assert("rangeend/iff-first-n-fields-equal", inRange == same)
}
