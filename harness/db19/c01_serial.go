package db19

import (
	"github.com/apmckinlay/gsuneido/db19/index"
	rt "github.com/apmckinlay/gsuneido/zzverifrt"
)

// what one transaction of the C01 scenario does and saw
type vtx struct {
	ut        *UpdateTran
	readKind  int    // 0 range scan [lo,hi) of the key index, 1 lookup of key k
	lo, hi, k string // read arguments
	seenScan  []string
	seenFound bool
	seenB     string
	writeKind int // 0 output (a,b), 1 move base row r0 to key a (b unchanged)
	a, b      string
	r0Found   bool // (writeKind 1) what its own lookup of r0 returned
	failed    bool
	committed bool
}

func (x *vtx) read(name string) {
	if x.failed {
		return
	}
	if vtry(func() {
		if x.readKind == 0 {
			it := x.ut.IndexIter("t", 0)
			it.Range(index.Range{Org: vpk(x.lo), End: vpk(x.hi)})
			for it.Next(x.ut); !it.Eof(); it.Next(x.ut) {
				_, off := it.Cur()
				x.seenScan = append(x.seenScan, x.ut.GetRecord(off).GetStr(0))
				if len(x.seenScan) > 8 {
					panic("runaway scan")
				}
			}
		} else {
			rec := x.ut.Lookup("t", 0, vpk(x.k))
			x.seenFound = rec != nil
			if rec != nil {
				x.seenB = rec.Record.GetStr(1)
			}
		}
	}) {
		x.failed = true
	}
}

func (x *vtx) write(r0 vrow) {
	if x.failed {
		return
	}
	if vtry(func() {
		if x.writeKind == 0 {
			x.ut.Output(nil, "t", vmkrec(x.a, x.b))
		} else {
			rec := x.ut.Lookup("t", 0, vpk(r0.a))
			x.r0Found = rec != nil
			if rec == nil {
				panic("r0 gone")
			}
			x.ut.Update(nil, "t", rec.Off, vmkrec(x.a, r0.b))
		}
	}) {
		x.failed = true
	}
}

func (x *vtx) commit(db *Database) {
	if x.failed {
		x.ut.Abort()
		return
	}
	x.committed, _ = vcommit2(db, x.ut)
}

// vapplyTx applies a committed transaction's write to the model
func vapplyTx(rows []vrow, x *vtx) []vrow {
	rows = vcopyRows(rows)
	if x.writeKind == 0 {
		return append(rows, vrow{x.a, x.b, true})
	}
	rows[0].a = x.a
	return rows
}

// vreadsHold: would the reads x made return the same results on the given state?
func vreadsHold(rows []vrow, x *vtx, r0a string, readAfterWrite bool) bool {
	ok := true
	base := rows // the implicit reads of the write (own lookup of r0, duplicate check) come before it
	if readAfterWrite {
		rows = vapplyTx(rows, x) // the explicit read came after its own write and saw it
	}
	if x.readKind == 0 {
		// rows in [lo,hi) in key order (at most 3 rows: insertion sort)
		var in []string
		for _, r := range rows {
			if r.live && x.lo <= r.a && r.a < x.hi {
				in = append(in, r.a)
			}
		}
		for i := 1; i < len(in); i++ {
			for j := i; j > 0 && in[j] < in[j-1]; j-- {
				in[j], in[j-1] = in[j-1], in[j]
			}
		}
		if len(in) != len(x.seenScan) {
			return false
		}
		for i := range in {
			ok = rt.And(ok, in[i] == x.seenScan[i])
		}
	} else {
		found, b := false, ""
		for _, r := range rows {
			if r.live && r.a == x.k {
				found, b = true, r.b
			}
		}
		if found != x.seenFound {
			return false
		}
		if found {
			ok = rt.And(ok, b == x.seenB)
		}
	}
	rows = base
	if x.writeKind == 1 {
		// its own lookup of r0 by the original key
		found := false
		for _, r := range rows {
			if r.live && r.a == r0a {
				found = true
			}
		}
		ok = rt.And(ok, found == x.r0Found)
	}
	// the duplicate-key check of its write is a read too: the new key was absent
	for _, r := range rows {
		if r.live {
			ok = rt.And(ok, r.a != x.a)
		}
	}
	return ok
}

// C01 scenario on the real transaction layer: one committed row r0; two overlapping update
// transactions, each doing one read (a range scan [lo,hi) of the key index, or a keyed lookup that
// may miss) and then one write (output a new row, or move r0 to a new key), with arbitrary 1-byte
// values, in one of 5 interleavings. Oracle: every transaction that commits must have read what it
// would have read had it run alone at its commit point, i.e. on the state produced by the
// transactions that committed before it, in commit order (no lost update, no phantom, no write
// skew); the final state equals the serial application of the committed transactions.
//
//symgo:harness prop=C01 tier=thorough tshards=16 ttimeout=3000 bounds=1_committed_row;2_concurrent_transactions_x_(1_read_of_either_kind_+_1_write_of_either_kind);5_interleavings;1-byte_values outside=more_than_2_concurrent_transactions;longer_transactions
func VerifC01Serial() { vserial(-1, -1, 5) }

// C01 quick slice 1: both transactions scan a range and then insert a row (phantoms, write skew).
//
//symgo:harness prop=C01 tier=quick shards=16 timeout=600 bounds=1_committed_row;2_concurrent_transactions_each_(scan_of_[lo,0xff)_with_arbitrary_lo,_then_output);4_interleavings;1-byte_values_(thorough:_arbitrary_hi)
func VerifC01ScanInsert() { vserial(0, 0, 4) }

// C01 quick slice 2: both transactions do a keyed lookup (hit or miss) and then move the
// committed row to a new key (lost update, update into a key the other looked up).
//
//symgo:harness prop=C01 tier=quick shards=16 timeout=600 bounds=1_committed_row;2_concurrent_transactions_each_(lookup_then_key-changing_update);4_interleavings;1-byte_values
func VerifC01LookupUpdate() { vserial(1, 1, 4) }

// C01 quick slice 3: one transaction scans and moves the row, the other looks up and inserts.
//
//symgo:harness prop=C01 tier=quick shards=16 timeout=600 bounds=1_committed_row;T0_(range_scan_then_key-changing_update),T1_(lookup_then_output);4_interleavings;1-byte_values
func VerifC01Mixed() { vserial(2, 2, 4) }

// vserial runs the scenario; readSel/writeSel: -1 = any kind for both transactions (forked),
// 0/1 = that kind for both, 2 = (0,1) for T0 and (1,0) for T1; nsched = number of interleavings.
func vserial(readSel, writeSel, nsched int) {
	db := vnewdb()
	vcreateT(db)
	var rows []vrow
	ut := db.NewUpdateTran()
	vapply("setup", ut, &rows, 0, "r0")
	rt.Assert("setup/commit", vcommit(db, ut, !rt.Thorough() || rt.Pick("merge0", 2) == 1))
	r0 := rows[0]
	var x [2]*vtx
	for i := range x {
		n := string(rune('0' + i))
		rk, wk := readSel, writeSel
		if readSel == -1 {
			rk = rt.Pick("read"+n, 2)
		} else if readSel == 2 {
			rk = i
		}
		if writeSel == -1 {
			wk = rt.Pick("write"+n, 2)
		} else if writeSel == 2 {
			wk = 1 - i
		}
		x[i] = &vtx{readKind: rk, writeKind: wk,
			a: rt.Str("a"+n, 1), b: "b" + n}
		if x[i].writeKind == 1 {
			rt.Assume(x[i].a != r0.a) // a real change (write-free transactions are serialised at their snapshot)
		}
		if x[i].readKind == 0 {
			x[i].lo, x[i].hi = rt.Str("lo"+n, 1), "\xff"
			if rt.Thorough() {
				x[i].hi = rt.Str("hi"+n, 1)
			}
			rt.Assume(x[i].lo < x[i].hi)
		} else {
			x[i].k = rt.Str("k"+n, 1)
		}
	}
	start := func(i int) { x[i].ut = db.NewUpdateTran() }
	read := func(i int) { x[i].read("") }
	write := func(i int) { x[i].write(r0) }
	commit := func(i int) { x[i].commit(db) }
	order := [2]int{0, 1} // commit order
	readAfterWrite := false
	switch rt.Pick("schedule", nsched) {
	case 0:
		start(0)
		start(1)
		read(0)
		read(1)
		write(0)
		write(1)
		commit(0)
		commit(1)
	case 1:
		start(0)
		start(1)
		read(0)
		write(0)
		commit(0)
		read(1)
		write(1)
		commit(1)
	case 2:
		start(0)
		start(1)
		read(1)
		read(0)
		write(0)
		write(1)
		commit(1)
		commit(0)
		order = [2]int{1, 0}
	case 3:
		start(0)
		read(0)
		start(1)
		read(1)
		write(1)
		commit(1)
		write(0)
		commit(0)
		order = [2]int{1, 0}
	case 4:
		start(0)
		start(1)
		write(0)
		read(1)
		write(1)
		read(0)
		commit(0)
		commit(1)
		readAfterWrite = true // only for transaction 0
	}
	rt.Reach("ran")
	state := vcopyRows(rows)
	for _, i := range order {
		if !x[i].committed {
			continue
		}
		rt.Assert("serializable/reads-hold-at-commit-point", vreadsHold(state, x[i], r0.a, readAfterWrite && i == 0))
		state = vapplyTx(state, x[i])
	}
	rt.Assert("serializable/someone-commits", x[order[0]].committed || x[order[1]].committed || x[0].failed || x[1].failed)
	vagree("final-equals-serial-application", db.NewReadTran(), state)
}
