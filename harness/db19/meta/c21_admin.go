package meta

import (
	"slices"
	"strconv"

	"github.com/apmckinlay/gsuneido/db19/index"
	"github.com/apmckinlay/gsuneido/db19/index/btree"
	"github.com/apmckinlay/gsuneido/db19/meta/schema"
	"github.com/apmckinlay/gsuneido/db19/stor"
	"github.com/apmckinlay/gsuneido/util/set"
	rt "github.com/apmckinlay/gsuneido/zzverifrt"
)

// C21: schema-change requests on an in-memory Meta (real PutNew, Ensure, AlterCreate, AlterRename,
// AlterDrop, RenameTable, Drop, AddView, Write, ReadMeta), called the way db19.Database calls them
// for tables without rows.

var vtables = []string{"t1", "t2", "t3"}

const vview = "v1"

func vix(mode byte, cols ...string) schema.Index {
	return schema.Index{Mode: mode, Columns: cols}
}

// vfk: the index with a foreign key; its cascade mode is an arbitrary one of the four modes.
// (The admin parser sets Fk.Columns to the index columns when none are given.)
func vfk(ix schema.Index, table string, cols ...string) schema.Index {
	mode := byte(schema.CascadeUpdates)
	if vanyMode {
		mode = byte(rt.Choice("fkmode", 4))
	}
	ix.Fk = schema.Fkey{Table: table, Columns: cols, Mode: mode}
	return ix
}

// vanyMode: arbitrary cascade modes (every printed schema forks three ways per foreign key),
// or the fixed mode "cascade update"
var vanyMode bool

func vsch(table string, cols []string, idxs ...schema.Index) *schema.Schema {
	return &schema.Schema{Table: table, Columns: cols, Indexes: idxs}
}

func vcols(cols ...string) []string { return cols }

// the callers' side of the requests, as in db19/database.go (tables have no rows)

func vcreate(m *Meta, st *stor.Stor, sch *schema.Schema) *Meta {
	if m.GetRoSchema(sch.Table) != nil {
		panic("can't create existing table: " + sch.Table)
	}
	sch.Check()
	ts := &Schema{Schema: *sch}
	ts.SetupIndexes()
	ovs := make([]*index.Overlay, len(ts.Indexes))
	for i := range ovs {
		ovs[i] = index.OverlayFor(btree.CreateBtree(st))
	}
	return m.PutNew(ts, NewInfo(sch.Table, ovs, 0, 0), sch)
}

func vensure(m *Meta, st *stor.Stor, sch *schema.Schema) *Meta {
	ts := m.GetRoSchema(sch.Table)
	if ts != nil && set.HasSubset(ts.Columns, sch.Columns) && set.HasSubset(ts.Derived, sch.Derived) {
		subset := true
		for i := range sch.Indexes {
			ix := ts.FindIndex(sch.Indexes[i].Columns)
			if ix == nil {
				subset = false
				break
			}
			if !ix.Equal(&sch.Indexes[i]) {
				panic("ensure: index exists but is different")
			}
		}
		if subset {
			return m
		}
	}
	if ts == nil {
		return vcreate(m, st, sch)
	}
	_, m2 := m.Ensure(sch, st)
	return m2
}

func vdropTable(m *Meta, name string) *Meta {
	if m.GetRoSchema(name) == nil && m.GetView(name) == "" {
		return nil
	}
	return m.Drop(name)
}

// vrequest runs request number r on m; nil = refused without a panic.
func vrequest(r int, m *Meta, st *stor.Stor) *Meta {
	switch r {
	case 0:
		return vcreate(m, st, vsch("t1", vcols("a", "b", "c"), vix('k', "a"), vix('i', "b")))
	case 1:
		return vcreate(m, st, vsch("t2", vcols("a", "b", "c"), vix('k', "a"), vfk(vix('i', "b"), "t1", "a")))
	case 2:
		return vcreate(m, st, vsch("t3", vcols("a", "b"), vix('k', "a"), vfk(vix('i', "b"), "t3", "a")))
	case 3:
		return vcreate(m, st, vsch("t2", vcols("a", "b"), vix('i', "b")))
	case 4:
		return vcreate(m, st, vsch("t2", vcols("a", "b"), vix('k', "a"), vix('i', "z")))
	case 5:
		return vensure(m, st, vsch("t1", vcols("a", "b", "c", "d"), vix('k', "a"), vix('i', "c")))
	case 6:
		return vensure(m, st, vsch("t2", vcols("a", "b", "c"), vix('k', "a"), vfk(vix('i', "c"), "t1", "a")))
	case 7:
		return m.AlterCreate(vsch("t1", vcols("d")), st)
	case 8:
		return m.AlterCreate(vsch("t1", nil, vix('i', "c")), st)
	case 9:
		return m.AlterCreate(vsch("t2", nil, vfk(vix('i', "c"), "t1", "a")), st)
	case 10:
		return m.AlterCreate(vsch("t1", nil, vfk(vix('i', "c"), "t1", "a")), st)
	case 11:
		return m.AlterCreate(vsch("t1", nil, vix('k', "c")), st)
	case 12:
		return m.AlterCreate(vsch("t1", vcols("a")), st)
	case 13:
		return m.AlterCreate(vsch("t2", nil, vfk(vix('i', "c"), "t1", "b")), st)
	case 14:
		return m.AlterRename("t1", vcols("a"), vcols("d"))
	case 15:
		return m.AlterRename("t2", vcols("b"), vcols("d"))
	case 16:
		return m.AlterRename("t1", vcols("b"), vcols("a"))
	case 17:
		return m.AlterRename("t1", vcols("b"), vcols("d"))
	case 18:
		return m.AlterDrop(vsch("t1", vcols("c")))
	case 19:
		return m.AlterDrop(vsch("t2", nil, vix('i', "b")))
	case 20:
		return m.AlterDrop(vsch("t1", nil, vix('k', "a")))
	case 21:
		return m.AlterDrop(vsch("t1", nil, vix('i', "b")))
	case 22:
		return m.AlterDrop(vsch("t2", vcols("b")))
	case 23:
		return m.RenameTable("t1", "t3")
	case 24:
		return m.RenameTable("t2", "t3")
	case 25:
		return m.RenameTable("t2", "t1")
	case 26:
		return vdropTable(m, "t1")
	case 27:
		return vdropTable(m, "t2")
	case 28:
		return vdropTable(m, "t3")
	case 29:
		return m.AddView(vview, "t1 join t2")
	case 30:
		return vdropTable(m, vview)
	case 31:
		return m.AlterCreate(vsch("t1", nil, vix('u', "b", "c")), st)
	case 32:
		return m.AlterDrop(vsch("t1", nil, vix('k', "c")))
	}
	panic("vrequest")
}

const vnrequests = 33

// vdump: everything the in-memory schema of a table says, as a string (for "unchanged" checks)
func vdump(ts *Schema) string {
	if ts == nil {
		return "-"
	}
	b := []byte(ts.Table)
	strs := func(ss []string) {
		b = append(b, '(')
		for _, s := range ss {
			b = append(b, s...)
			b = append(b, ',')
		}
		b = append(b, ')')
	}
	ints := func(ns []int) {
		b = append(b, '[')
		for _, n := range ns {
			b = append(b, strconv.Itoa(n)...)
			b = append(b, ',')
		}
		b = append(b, ']')
	}
	flag := func(f bool) {
		if f {
			b = append(b, 'T')
		} else {
			b = append(b, 'F')
		}
	}
	fkey := func(fk *schema.Fkey) {
		b = append(b, fk.Table...)
		strs(fk.Columns)
		b = append(b, strconv.Itoa(fk.IIndex)...)
		b = append(b, '/', fk.Mode, ' ')
	}
	strs(ts.Columns)
	strs(ts.Derived)
	for i := range ts.Indexes {
		ix := &ts.Indexes[i]
		b = append(b, ' ', ix.Mode)
		strs(ix.Columns)
		strs(ix.BestKey)
		strs(ix.Fields)
		ints(ix.Ixspec.Fields)
		ints(ix.Ixspec.Fields2)
		flag(ix.Primary)
		flag(ix.ContainsKey)
		b = append(b, " fk:"...)
		fkey(&ix.Fk)
		b = append(b, " to:"...)
		for j := range ix.FkToHere {
			fkey(&ix.FkToHere[j])
		}
	}
	return string(b)
}

func vsnapshot(m *Meta) []string {
	var ss []string
	for _, t := range vtables {
		ss = append(ss, vdump(m.GetRoSchema(t)))
		if ti := m.GetRoInfo(t); ti == nil {
			ss = append(ss, "-")
		} else {
			ss = append(ss, strconv.Itoa(len(ti.Indexes)))
		}
	}
	ss = append(ss, m.GetView(vview))
	return ss
}

func vsameSnapshot(a, b []string) bool {
	same := len(a) == len(b)
	for i := 0; same && i < len(a); i++ {
		same = a[i] == b[i]
	}
	return same
}

// vconsistent: the consistency conditions of the property on one Meta.
func vconsistent(m *Meta, w string) {
	for _, t := range vtables {
		ts := m.GetRoSchema(t)
		ti := m.GetRoInfo(t)
		if ts == nil {
			rt.Assert("meta/info-without-table-"+w, ti == nil)
			continue
		}
		rt.Assert("meta/table-without-info-"+w, ti != nil)
		if ti != nil {
			rt.Assert("meta/info-indexes-"+w, len(ti.Indexes) == len(ts.Indexes))
		}
		nkeys := 0
		for i := range ts.Indexes {
			ix := &ts.Indexes[i]
			if ix.Mode == 'k' {
				nkeys++
			}
			for _, c := range ix.Columns {
				rt.Assert("meta/index-column-exists-"+w, slices.Contains(ts.Columns, c))
			}
			if ix.Fk.Table != "" {
				tgt := m.GetRoSchema(ix.Fk.Table)
				rt.Assert("meta/fk-target-exists-"+w, tgt != nil)
				if tgt == nil {
					continue
				}
				cols := ix.Fk.Columns
				if len(cols) == 0 {
					cols = ix.Columns
				}
				j := ix.Fk.IIndex
				okj := 0 <= j && j < len(tgt.Indexes) && slices.Equal(tgt.Indexes[j].Columns, cols) &&
					tgt.Indexes[j].Mode == 'k'
				rt.Assert("meta/fk-iindex-"+w, okj)
				if okj {
					n := 0
					for _, e := range tgt.Indexes[j].FkToHere {
						if e.Table == ts.Table && e.IIndex == i && slices.Equal(e.Columns, ix.Columns) {
							n = rt.IteInt(e.Mode == ix.Fk.Mode, n+1, n)
						}
					}
					rt.Assert("meta/fk-has-one-fktohere-"+w, n == 1)
				}
			}
			for k := range ix.FkToHere {
				e := &ix.FkToHere[k]
				src := m.GetRoSchema(e.Table)
				rt.Assert("meta/fktohere-source-exists-"+w, src != nil)
				if src == nil {
					continue
				}
				ok := 0 <= e.IIndex && e.IIndex < len(src.Indexes)
				if ok {
					six := &src.Indexes[e.IIndex]
					fcols := six.Fk.Columns
					if len(fcols) == 0 {
						fcols = six.Columns
					}
					ok = slices.Equal(six.Columns, e.Columns) && six.Fk.Table == ts.Table &&
						six.Fk.IIndex == i && slices.Equal(fcols, ix.Columns)
					rt.Assert("meta/fktohere-has-fk-"+w, rt.And(ok, six.Fk.Mode == e.Mode))
				} else {
					rt.Assert("meta/fktohere-has-fk-"+w, false)
				}
				for k2 := 0; k2 < k; k2++ {
					e2 := &ix.FkToHere[k2]
					rt.Assert("meta/fktohere-duplicate-"+w, e2.Table != e.Table || e2.IIndex != e.IIndex)
				}
			}
		}
		rt.Assert("meta/table-has-key-"+w, nkeys >= 1)
		rt.Assert("meta/schema-check-"+w, !rt.Try(func() { ts.Check(m.GetRoSchema) }))
	}
}

// vreload: write the metadata chains, read them back: the same tables, views and schemas
// (String2, and what ReadSchema derives afresh: key fields, ixspecs, primary/contains-key flags,
// foreign key links), and the reloaded Meta is consistent too. Returns the written Meta.
func vreload(m *Meta, st *stor.Stor) *Meta {
	mc := *m
	so, io := mc.Write(st)
	r := ReadMeta(st, so, io)
	fieldsOK, primaryOK, containsOK := true, true, true
	for _, t := range vtables {
		a, b := m.GetRoSchema(t), r.GetRoSchema(t)
		if a == nil && b != nil {
			rt.Assert("meta/reload-dropped-table-live", false)
		}
		if a != nil && b == nil {
			rt.Assert("meta/reload-table-lost", false)
		}
		ai, bi := m.GetRoInfo(t), r.GetRoInfo(t)
		if ai == nil && bi != nil {
			rt.Assert("meta/reload-dropped-info-live", false)
		}
		if ai != nil && bi == nil {
			rt.Assert("meta/reload-info-lost", false)
		}
		if ai != nil && bi != nil {
			rt.Assert("meta/reload-info-indexes", len(ai.Indexes) == len(bi.Indexes))
		}
		if a == nil || b == nil {
			continue
		}
		rt.Assert("meta/reload-string2", a.String2() == b.String2())
		rt.Assert("meta/reload-columns", slices.Equal(a.Columns, b.Columns) && slices.Equal(a.Derived, b.Derived))
		if len(a.Indexes) != len(b.Indexes) {
			rt.Assert("meta/reload-index-count", false)
			continue
		}
		for i := range a.Indexes {
			x, y := &a.Indexes[i], &b.Indexes[i]
			rt.Assert("meta/reload-index", x.Mode == y.Mode && slices.Equal(x.Columns, y.Columns) &&
				slices.Equal(x.BestKey, y.BestKey))
			rt.Assert("meta/reload-ixspec", slices.Equal(x.Ixspec.Fields, y.Ixspec.Fields) &&
				slices.Equal(x.Ixspec.Fields2, y.Ixspec.Fields2))
			rt.Assert("meta/reload-fk", rt.And(x.Fk.Table == y.Fk.Table && slices.Equal(x.Fk.Columns, y.Fk.Columns) &&
				(x.Fk.Table == "" || x.Fk.IIndex == y.Fk.IIndex), x.Fk.Mode == y.Fk.Mode))
			rt.Assert("meta/reload-fktohere-count", len(x.FkToHere) == len(y.FkToHere))
			// what ReadSchema derives afresh (checked last, see below)
			fieldsOK = fieldsOK && slices.Equal(x.Fields, y.Fields)
			primaryOK = primaryOK && x.Primary == y.Primary
			containsOK = containsOK && x.ContainsKey == y.ContainsKey
		}
	}
	rt.Assert("meta/reload-view", m.GetView(vview) == r.GetView(vview))
	vconsistent(r, "reloaded")
	rt.Assert("meta/reload-index-fields", fieldsOK)
	rt.Assert("meta/reload-primary", primaryOK)
	rt.Assert("meta/reload-containskey", containsOK)
	return &mc
}

// vadmin: from the pre-state number pre, a script of nreq requests from the pool; each request is
// optionally preceded by a persist (Write) of the current Meta. After every request the Meta it
// was applied to is unchanged (persistent data structure; also when the request panics); after
// every accepted request the new Meta is consistent (vconsistent) and survives Write + ReadMeta.
func vadmin(pre int, nreq int, pool []int, persistFirst, anyMode bool) {
	vanyMode = anyMode
	st := stor.HeapStor(8192)
	st.Alloc(1) // offset 0 means "no chain"
	m := &Meta{}
	prologue := [][]int{{}, {0}, {0, 1}, {0, 10}, {0, 31, 11}, {0, 1, 10, 29}}[pre]
	for _, r := range prologue {
		m = vrequest(r, m, st)
	}
	vconsistent(m, "memory")
	rt.Reach("pre-state")
	naccepted := 0
	for step := 0; step < nreq; step++ {
		if (step > 0 || persistFirst) && rt.Pick("persist", 2) == 1 {
			m = vreload(m, st)
		}
		r := pool[rt.Pick("req", len(pool))]
		before := vsnapshot(m)
		var m2 *Meta
		panicked := rt.Try(func() { m2 = vrequest(r, m, st) })
		rt.Assert("meta/old-version-changed", vsameSnapshot(before, vsnapshot(m)))
		if panicked || m2 == nil {
			rt.Reach("refused")
			continue
		}
		rt.Reach("accepted")
		naccepted++
		m = m2
		vconsistent(m, "memory")
		vreload(m, st)
	}
	rt.Observe("accepted", naccepted)
	for _, t := range vtables {
		if ts := m.GetRoSchema(t); ts != nil {
			rt.Observe("schema", ts.String2())
		} else {
			rt.Observe("schema", "-")
		}
	}
}

func vallRequests() []int {
	pool := make([]int, vnrequests)
	for i := range pool {
		pool[i] = i
	}
	return pool
}

// C21, one request (every request of the pool) from every pre-state.
//
//symgo:harness prop=C21 tier=quick shards=4 tshards=8 timeout=400 ttimeout=1700 bounds=6_pre-states_(empty;_t1;_t1+t2_with_fk_t2->t1;_t1_with_self-referencing_fk;_t1_with_a_unique_index_and_a_second_key_added_later;_t1+t2+self_fk+view);one_request_from_a_pool_of_33_(create/ensure/alter_create/alter_rename/alter_drop/rename/drop/view,_valid_and_invalid,_over_tables_t1..t3_columns_a..d_z);optional_persist_before_the_request;arbitrary_fk_cascade_modes;tables_without_rows outside=the_admin_parser;tables_with_rows_(buildIndexes);derived_and__lower!_columns;multi-column_foreign_keys
func VerifC21Admin1() {
	vadmin(rt.Pick("pre", 6), 1, vallRequests(), true, true)
}

// C21, scripts of two requests (thorough: the whole pool twice; quick: a core pool).
//
//symgo:harness prop=C21 tier=quick shards=4 tshards=16 timeout=400 ttimeout=1700 bounds=pre-states_as_VerifC21Admin1_(quick:_4_of_them:_t1+t2,_self_fk,_unique_index,_t1+t2+self_fk+view);scripts_of_2_requests_(quick:_core_pool_of_12;_thorough:_all_33);optional_persist_between_the_requests_(thorough:_also_before_the_first);fk_mode_cascade_update outside=as_VerifC21Admin1
func VerifC21Admin2() {
	if rt.Thorough() {
		vadmin(rt.Pick("pre", 6), 2, vallRequests(), true, false)
		return
	}
	pre := []int{2, 3, 4, 5}[rt.Pick("pre", 4)]
	vadmin(pre, 2, []int{9, 10, 11, 14, 15, 17, 19, 21, 23, 26, 27, 32}, false, false)
}

// C21, scripts of three requests from a core pool.
//
//symgo:harness prop=C21 tier=thorough shards=16 timeout=1700 bounds=pre-states_empty,_t1,_t1+t2,_unique_index;scripts_of_3_requests_from_a_core_pool_of_12;optional_persist_between_requests;fk_mode_cascade_update outside=as_VerifC21Admin1
func VerifC21Admin3() {
	pre := []int{0, 1, 2, 4}[rt.Pick("pre", 4)]
	vadmin(pre, 3, []int{0, 1, 9, 10, 11, 14, 15, 19, 23, 26, 27, 32}, false, false)
}
