package stor

import rt "github.com/apmckinlay/gsuneido/zzverifrt"

// C14: Put1..Put5 / Get1..Get5 return exactly what was written for every representable value,
// in sequence, and nothing else is consumed.
//
//symgo:harness prop=C14 tier=quick bounds=all_values_in_range_of_each_width;one_of_each_in_sequence
func VerifC14PutGet() {
	n1 := rt.Int("n1")
	rt.Assume(0 <= n1 && n1 < 1<<8)
	n2 := rt.Int("n2")
	rt.Assume(0 <= n2 && n2 < 1<<16)
	n3 := rt.Int("n3")
	rt.Assume(0 <= n3 && n3 < 1<<24)
	n4 := rt.Int("n4")
	rt.Assume(0 <= n4 && n4 < 1<<32)
	n5 := rt.I64("n5")
	rt.Assume(0 <= n5 && n5 < 1<<40)
	w := NewWriter(make([]byte, 0, 32))
	w.Put5(n5).Put1(n1).Put4(n4).Put2(n2).Put3(n3)
	rt.Reach("written")
	rt.Assert("len", w.Len() == 15)
	rt.Observe("buf", w.buf)
	r := NewReader(w.buf)
	rt.Assert("get5", r.Get5() == n5)
	rt.Assert("get1", r.Get1() == n1)
	rt.Assert("get4", r.Get4() == n4)
	rt.Assert("get2", r.Get2() == n2)
	rt.Assert("get3", r.Get3() == n3)
	rt.Assert("remaining", r.Remaining() == 0)
}

// C14: a value outside the representable range of a Put is refused loudly (never truncated).
//
//symgo:harness prop=C14 tier=quick bounds=all_int64_arguments;width_1..5
func VerifC14PutRange() {
	n := rt.I64("n")
	wd := rt.Pick("width", 5) + 1
	w := NewWriter(make([]byte, 0, 8))
	panicked := rt.Try(func() {
		switch wd {
		case 1:
			w.Put1(int(n))
		case 2:
			w.Put2(int(n))
		case 3:
			w.Put3(int(n))
		case 4:
			w.Put4(int(n))
		case 5:
			w.Put5(n)
		}
	})
	rt.Reach("put")
	inrange := 0 <= n && n < int64(1)<<(8*uint(wd))
	rt.Assert("range/refused-iff-outside", panicked == !inrange)
	if !panicked {
		rt.Assert("range/len", w.Len() == wd)
	}
}

// C14: PutStr/PutStrs round trip (lengths 0..2 each, up to 2 strings) followed by a sentinel.
//
//symgo:harness prop=C14 tier=quick bounds=0..2_strings_of_0..2_arbitrary_bytes
func VerifC14PutStrs() {
	k := rt.Pick("nstrs", 3)
	ss := make([]string, k)
	for i := range ss {
		ss[i] = rt.Str("s"+string(rune('0'+i)), rt.Pick("len"+string(rune('0'+i)), 3))
	}
	one := rt.Str("one", rt.Pick("lenone", 3))
	w := NewWriter(make([]byte, 0, 64))
	w.PutStrs(ss).PutStr(one).Put1(0x5a)
	rt.Assert("strs/len", w.Len() == LenStrs(ss)+LenStr(one)+1)
	r := NewReader(w.buf)
	got := r.GetStrs()
	rt.Assert("strs/count", len(got) == k)
	for i := 0; i < k && i < len(got); i++ {
		rt.Assert("strs/elem", got[i] == ss[i])
	}
	rt.Assert("strs/one", r.GetStr() == one)
	rt.Assert("strs/sentinel", r.Get1() == 0x5a && r.Remaining() == 0)
	rt.Reach("done")
}

// C14: 5-byte small offsets round trip for every representable offset.
//
//symgo:harness prop=C14 tier=quick bounds=all_offsets_<=_2^40-1
func VerifC14SmallOffset() {
	off := rt.U64("off")
	rt.Assume(off <= MaxSmallOffset)
	var b [SmallOffsetLen]byte
	WriteSmallOffset(b[:], off)
	rt.Observe("b", b[:])
	rt.Assert("smalloffset/write-read", ReadSmallOffset(b[:]) == off)
	b2 := AppendSmallOffset([]byte{7}, off)
	rt.Assert("smalloffset/append-read", len(b2) == 1+SmallOffsetLen && b2[0] == 7 && ReadSmallOffset(b2[1:]) == off)
	rt.Reach("done")
}
