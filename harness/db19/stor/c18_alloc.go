package stor

import (
	"sync"

	rt "github.com/apmckinlay/gsuneido/zzverifrt"
)

type vrng struct {
	off uint64
	n   int
	ok  bool
}

func valloc(s *Stor, n int, out *vrng) {
	defer func() {
		if e := recover(); e != nil {
			out.ok = false // failed loudly
		}
	}()
	off, buf := s.Alloc(n)
	rt.Assert("alloc/buffer-length", len(buf) == n && cap(buf) == n)
	*out = vrng{off, n, true}
}

// C18: two threads allocate concurrently (thorough: three) from a store with chunk size 16 whose
// first chunk is partly used (arbitrary fill), with arbitrary sizes 1..16; the interleaving is
// chosen at every atomic load/add/store and lock operation of Stor.Alloc/extend, with at most 2
// (thorough 3) pre-emptive context switches. Every allocation either fails loudly or returns a
// range of exactly the requested length that does not straddle a chunk boundary, lies within
// the storage size, and overlaps no other returned range.
//
//symgo:harness prop=C18 tier=quick shards=8 timeout=500 ttimeout=1700 preempt=2 tpreempt=2 replay=off bounds=2_threads(thorough_3)_x_1_Alloc;sizes_in_{1,8,9,16}_initial_fill_in_{1,8,15}_(thorough:_every_size_1..16);chunk_size_16;interleaved_at_every_atomic/lock_operation;<=2_pre-emptions outside=the_closed-store_path;more_pre-emptions
func VerifC18Alloc() {
	const chunk = 16
	st := HeapStor(chunk)
	// sizes are concrete per path (the engine would enumerate symbolic slice bounds anyway):
	// quick = a spread around the chunk boundary, thorough = every size
	pick := func(name string, spread []int) int {
		if rt.Thorough() {
			return 1 + rt.Pick(name, chunk)
		}
		return spread[rt.Pick(name, len(spread))]
	}
	pre := pick("pre", []int{1, 8, 15})
	st.Alloc(pre)
	nth := 2
	if rt.Thorough() {
		nth = 3
	}
	ns := make([]int, nth)
	rs := make([]vrng, nth)
	var wg sync.WaitGroup
	wg.Add(nth)
	for i := 0; i < nth; i++ {
		ns[i] = pick("n"+string(rune('0'+i)), []int{1, 8, 9, 16})
		i := i
		go func() { valloc(st, ns[i], &rs[i]); wg.Done() }()
	}
	wg.Wait()
	rt.Reach("joined")
	size := st.Size()
	for i := range rs {
		r := rs[i]
		if !r.ok {
			continue
		}
		rt.Assert("alloc/within-one-chunk", r.off/chunk == (r.off+uint64(r.n)-1)/chunk)
		rt.Assert("alloc/within-size", r.off+uint64(r.n) <= size)
		rt.Assert("alloc/after-initial-fill", r.off >= uint64(pre))
		for j := 0; j < i; j++ {
			if rs[j].ok {
				rt.Assert("alloc/disjoint", r.off+uint64(r.n) <= rs[j].off || rs[j].off+uint64(rs[j].n) <= r.off)
			}
		}
	}
}
