package db19

import (
	"github.com/apmckinlay/gsuneido/db19/stor"
	rt "github.com/apmckinlay/gsuneido/zzverifrt"
)

// vsumScanner replaces newScanner: the same scan (the real (*scanner).scanner method) run to
// completion before search starts, instead of in a goroutine that search synchronises with
// through a condition variable. Every offset list the concurrent scanner can hand to search is a
// prefix of this one followed, eventually, by the complete list.
func vsumScanner(store *stor.Stor) *scanner {
	var s scanner
	s.cond.L = &s.lock
	s.scanner(store)
	return &s
}

// vsumCheckState replaces checkState (a full consistency check of every table through worker
// goroutines): the states of this harness have empty metadata, for which it reports no error.
func vsumCheckState(state *DbState, fn func(*tableCheckers, string), table string, ixcols []string) *errCorrupt {
	return nil
}

// C05 repair search: a store holding 0..4 state records (thorough 5), each either intact or
// damaged (a flipped checksum byte, so it is found by the scan but fails to read), at arbitrary
// increasing times. search() must terminate with a clear result for every such store: it never
// fails with a Go runtime error; with no intact state it reports "none"; when the intact states
// are the older ones (good..good,bad..bad - what a crash produces) it returns the newest intact
// state and its offset.
//
//symgo:harness prop=C05 tier=quick shards=4 timeout=400 summary=db19.newScanner=vsumScanner summary=db19.checkState=vsumCheckState bounds=0..4_state_records(thorough_5);each_intact_or_damaged;scanner_run_to_completion_first;checkState_replaced_(empty_metadata) outside=the_concurrent_scanner_hand-off;file_copy/rename_of_repair.fix;mmap
func VerifC05Search() {
	store := stor.HeapStor(8192)
	_, hdr := store.Alloc(len(magic))
	copy(hdr, magic)
	maxn := 5
	if rt.Thorough() {
		maxn = 6
	}
	n := rt.Pick("nstates", maxn)
	offs := make([]uint64, n)
	good := make([]bool, n)
	for i := 0; i < n; i++ {
		offs[i] = vwriteStateAt(store, int64(1649267441664+i))
		good[i] = rt.Pick("good"+string(rune('0'+i)), 2) == 1
		if !good[i] {
			store.Data(offs[i])[magic2at-1] ^= 0x55 // damage the checksum
		}
	}
	r := &repair{store: store}
	var gi int
	var goff uint64
	var st *DbState
	kind := rt.TryKind(func() { gi, goff, st = r.search() })
	rt.Reach("searched")
	rt.Assert("search/no-runtime-error", kind != 2)
	if kind != 0 {
		return
	}
	ngood := 0
	newestGood := -1
	monotone := true // all intact states older than all damaged ones
	for i := 0; i < n; i++ {
		if good[i] {
			ngood++
			newestGood = i
			if i > 0 && !good[i-1] {
				monotone = false
			}
		}
	}
	if ngood == 0 {
		rt.Assert("search/none-when-no-intact-state", st == nil && goff == 0)
	} else if monotone {
		rt.Assert("search/newest-intact-state", st != nil && goff == offs[newestGood] && gi == n-1-newestGood)
	} else if st != nil {
		found := false
		for i := 0; i < n; i++ {
			if good[i] && goff == offs[i] {
				found = true
			}
		}
		rt.Assert("search/returns-an-intact-state", found)
	}
}

// C05 open: a database file is opened only if it ends with the shutdown marker; any other tail
// (8 arbitrary bytes, or a store too short to have one) is refused with an error - never a
// crash, never a database object.
//
//symgo:harness prop=C05 tier=quick shards=2 timeout=300 bounds=store_=_header_+_one_state_+_8_arbitrary_tail_bytes;or_header_only;or_header_+_state_without_tail
func VerifC05Open() {
	store := stor.HeapStor(8192)
	_, hdr := store.Alloc(len(magic))
	copy(hdr, magic)
	shape := rt.Pick("shape", 3)
	if shape >= 1 {
		vwriteStateAt(store, 1649267441664)
	}
	var tail []byte
	if shape == 2 {
		tail = rt.Bytes("tail", tailSize)
		_, buf := store.Alloc(tailSize)
		copy(buf, tail)
	}
	var db *Database
	var err error
	kind := rt.TryKind(func() { db, err = OpenDbStor(store, stor.Read, false) })
	rt.Reach("opened")
	rt.Assert("open/no-runtime-error", kind != 2)
	if kind != 0 {
		return
	}
	clean := shape == 2 && string(tail) == shutdown
	if clean {
		rt.Assert("open/clean-file-opens", err == nil && db != nil)
	} else {
		rt.Assert("open/damaged-file-refused", err != nil && db == nil)
	}
}
