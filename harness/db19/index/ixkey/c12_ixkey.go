package ixkey

import (
	"strings"

	. "github.com/apmckinlay/gsuneido/core"
	rt "github.com/apmckinlay/gsuneido/zzverifrt"
)

// vfield is a field of 0..maxlen symbolic bytes (length forked, content symbolic).
func vfield(name string, maxlen int) string {
	n := rt.Pick(name+"_len", maxlen+1)
	return rt.Str(name, n)
}

func vsign(n int) int {
	if n < 0 {
		return -1
	} else if n > 0 {
		return 1
	}
	return 0
}

func vrec(flds []string) Record {
	var b RecordBuilder
	for _, f := range flds {
		b.AddRaw(f)
	}
	return b.Build()
}

func vtrim(flds []string) []string {
	for len(flds) > 0 && flds[len(flds)-1] == "" {
		flds = flds[:len(flds)-1]
	}
	return flds
}

// fieldwise comparison, the harness's reference order
func vcmpFields(a, b []string) int {
	for i := range a {
		if c := vsign(strings.Compare(a[i], b[i])); c != 0 {
			return c
		}
	}
	return 0
}

func vallEmpty(a []string) bool {
	for _, s := range a {
		if s != "" {
			return false
		}
	}
	return true
}

func vmaxlen() int {
	if rt.Thorough() {
		return 3
	}
	return 2
}

// C12 order: byte order of keys == field order == Spec.Compare; equal keys <=> equal tuples
// (up to trailing empty fields); Decode recovers the fields.
//
//symgo:harness prop=C12 tier=quick shards=16 timeout=240 ttimeout=1700 bounds=2_records;nfields_in_1..2(thorough_3);field_len_0..2(thorough_0..3);all_byte_values
func VerifC12Order() {
	nf := 1 + rt.Pick("nf", 2)
	if rt.Thorough() {
		nf = 1 + rt.Pick("nf3", 3)
	}
	a := make([]string, nf)
	b := make([]string, nf)
	for i := 0; i < nf; i++ {
		a[i] = vfield("a"+string(rune('0'+i)), vmaxlen())
		b[i] = vfield("b"+string(rune('0'+i)), vmaxlen())
	}
	r1, r2 := vrec(a), vrec(b)
	flds := []int{0, 1, 2}[:nf]
	spec := &Spec{Fields: flds}
	k1, k2 := spec.Key(r1), spec.Key(r2)
	rt.Reach("keys")
	rt.Observe("k1", k1)
	rt.Observe("k2", k2)
	want := vcmpFields(a, b)
	got := vsign(strings.Compare(k1, k2))
	rt.Assert("order/key-bytes-vs-fields", got == want)
	rt.Assert("order/spec-compare", vsign(spec.Compare(r1, r2)) == want)
	if nf > 1 {
		// decode (single field keys are not encoded)
		d := Decode(k1)
		exp := vtrim(a)
		rt.Assert("decode/len", len(d) == len(exp))
		if len(d) == len(exp) {
			for i := range exp {
				rt.Assert("decode/field", d[i] == exp[i])
				rt.Assert("decode1/field", Decode1(k1, i) == exp[i])
			}
		}
		rt.Assert("decode1/past-end", Decode1(k1, len(exp)) == "")
	}
}

// C12 secondary fields rule: when all Fields are empty the Fields2 values decide.
//
//symgo:harness prop=C12 tier=quick shards=8 timeout=240 bounds=2_records;Fields=[0,1],Fields2=[2];field_len_0..2(key_fields_0..1)
func VerifC12Fields2() {
	a := []string{vfield("a0", 1), vfield("a1", 1), vfield("a2", 2)}
	b := []string{vfield("b0", 1), vfield("b1", 1), vfield("b2", 2)}
	r1, r2 := vrec(a), vrec(b)
	spec := &Spec{Fields: []int{0, 1}, Fields2: []int{2}}
	k1, k2 := spec.Key(r1), spec.Key(r2)
	rt.Reach("keys")
	want := vcmpFields(a[:2], b[:2])
	if want == 0 && vallEmpty(a[:2]) {
		want = vsign(strings.Compare(a[2], b[2]))
	}
	rt.Assert("fields2/key-bytes-vs-fields", vsign(strings.Compare(k1, k2)) == want)
	rt.Assert("fields2/spec-compare", vsign(spec.Compare(r1, r2)) == want)
	// a key with non-empty Fields never collides with an all-empty one using Fields2
	if vallEmpty(a[:2]) && !vallEmpty(b[:2]) {
		rt.Assert("fields2/no-collision", k1 != k2)
	}
}

// C12 prefix helpers on encoded keys of 3 fields.
//
//symgo:harness prop=C12 tier=quick shards=16 timeout=240 bounds=keys_of_3_fields;field_len_0..2(thorough_0..3_for_first);prefix_of_1..2_fields
func VerifC12Prefix() {
	ml := 1
	if rt.Thorough() {
		ml = 2
	}
	a := []string{vfield("a0", 2), vfield("a1", ml), vfield("a2", 1)}
	k := CompKey(a...)
	rt.Reach("key")
	n := 1 + rt.Pick("n", 2) // prefix of n fields
	p := []string{vfield("p0", 2), vfield("p1", ml)}[:n]
	pk := CompKey(p...)
	// HasPrefix(key, CompKey(p)) <=> first fields match (p trimmed of trailing empties)
	pt := vtrim(p)
	match := true
	for i := range pt {
		if a[i] != pt[i] {
			match = false
		}
	}
	if len(pt) > 0 {
		rt.Assert("hasprefix/iff-fields-match", HasPrefix(k, pk) == match)
	}
	// SplitPrefixSuffix splits exactly at field n; Join restores the key when it has > n fields
	pre, suf := SplitPrefixSuffix(k, n)
	rt.Assert("split/prefix-is-key-of-first-n", pre == CompKey(a[:n]...))
	rest := vtrim(a[n:])
	if len(rest) > 0 {
		rt.Assert("split/suffix-is-key-of-rest", suf == CompKey(a[n:]...))
		rt.Assert("split/join-identity", JoinPrefixSuffix(pre, n, suf) == k)
	} else {
		rt.Assert("split/suffix-empty", suf == "")
	}
}

// C12 TruncFunc: key of a longer spec truncated == key of the shorter spec (untrimmed keys).
//
//symgo:harness prop=C12 tier=quick shards=8 timeout=240 bounds=3_field_keys_with_non-empty_last_field;truncate_to_1..3
func VerifC12Trunc() {
	a := []string{vfield("a0", 2), vfield("a1", 2), vfield("a2", 1)}
	rt.Assume(a[2] != "") // "comp may not be missing empty trailing fields"
	r := vrec(a)
	spec3 := Spec{Fields: []int{0, 1, 2}}
	n := 1 + rt.Pick("n", 3)
	spec2 := Spec{Fields: []int{0, 1, 2}[:n]}
	k3 := spec3.Key(r)
	got := TruncFunc(spec3, spec2)(k3)
	rt.Reach("trunc")
	want := spec2.Key(r)
	if n > 1 {
		// an encoded truncated key keeps its (possibly empty) trailing fields: compare decoded
		rt.Assert("trunc/fields", strings.Join(vtrim(Decode(got)), "\x00\x00\x00") == strings.Join(vtrim(Decode(want)), "\x00\x00\x00"))
	} else {
		rt.Assert("trunc/single", got == want)
	}
}

// vrefEncode: the documented escaping - every zero byte is followed by a 0x01
func vrefEncode(s string) string {
	var b []byte
	for i := 0; i < len(s); i++ {
		b = append(b, s[i])
		if s[i] == 0 {
			b = append(b, 1)
		}
	}
	return string(b)
}

// C12 single-value encoding: Encode(s) is the escaped form used for fields of composite keys, for
// every s of 0..3 bytes: it equals the reference escaping, it is what CompKey uses for a field,
// it never contains the field separator, distinct values get distinct encodings that order like
// the values, and Decode1 of a composite key recovers the value.
//
//symgo:harness prop=C12 tier=quick shards=8 timeout=300 bounds=values_of_0..3_arbitrary_bytes;second_value_of_0..2_bytes
func VerifC12Encode() {
	s := vfield("s", 3)
	t := vfield("t", 2)
	es, et := Encode(s), Encode(t)
	rt.Reach("encoded")
	rt.Observe("es", es)
	rt.Assert("encode/reference", es == vrefEncode(s))
	rt.Assert("encode/no-separator", !strings.Contains(es, Sep))
	rt.Assert("encode/order", vsign(strings.Compare(es, et)) == vsign(strings.Compare(s, t)))
	if t != "" {
		k := CompKey(s, t)
		rt.Assert("encode/compkey-field", k == es+Sep+et)
		rt.Assert("encode/hasprefix", HasPrefix(k, es))
	}
}
