package btree

import (
	"github.com/apmckinlay/gsuneido/db19/index/ixbuf"
	"github.com/apmckinlay/gsuneido/db19/stor"
	rt "github.com/apmckinlay/gsuneido/zzverifrt"
)

// ------------------------------------------------------------------ model

// vent is one key of the sorted universe of a scenario: live[s] says whether the key is in
// the index at stage s (stage 0 = initial tree, stage b+1 = after batch b), off[s] is its
// offset there. The shape (live, upd) is concrete, keys and offsets are symbolic.
type vent struct {
	key  string
	live []bool
	upd  []bool // upd[b]: live before and after batch b with a replaced offset
	off  []uint64
}

type vpair struct {
	key string
	off uint64
}

// vstage is the model content (sorted by construction) at stage s
func vstage(es []vent, s int) []vpair {
	var r []vpair
	for _, e := range es {
		if e.live[s] {
			r = append(r, vpair{e.key, e.off[s]})
		}
	}
	return r
}

// vmodel is the ordered-map model: the offset of p or 0 (branch-free).
func vmodel(ps []vpair, p string) uint64 {
	want := 0
	for _, e := range ps {
		want = rt.IteInt(e.key == p, int(e.off), want)
	}
	return uint64(want)
}

// vacc collects conjunctions per label so that one solver query decides a whole class
type vacc struct {
	labels []string
	conds  []bool
}

func (a *vacc) add(label string, c bool) {
	for i, l := range a.labels {
		if l == label {
			a.conds[i] = rt.And(a.conds[i], c)
			return
		}
	}
	a.labels = append(a.labels, label)
	a.conds = append(a.conds, c)
}

func (a *vacc) flush() {
	for i, l := range a.labels {
		rt.Assert(l, a.conds[i])
	}
	a.labels, a.conds = nil, nil
}

// ------------------------------------------------------------------ inputs

func voff(name string) uint64 {
	o := rt.U64(name)
	rt.Assume(o != 0 && o <= ixbuf.Mask)
	return o
}

func vname(pre string, i int) string {
	return pre + string(rune('a'+i))
}

var vlenModes = [][]int{{1}, {1, 2}, {2, 1}, {2}}

// vkeys makes n symbolic keys that are assumed strictly increasing (no forking on the order).
// lens gives the byte length of key i (cyclic); pfx is a concrete common prefix.
func vkeys(n int, lens []int, pfx string) []string {
	ks := make([]string, n)
	for i := range ks {
		ks[i] = pfx + rt.Str(vname("k", i), lens[i%len(lens)])
		if i > 0 {
			rt.Assume(ks[i-1] < ks[i])
		}
	}
	return ks
}

func vstor() *stor.Stor {
	st := stor.HeapStor(1024)
	st.Alloc(1) // offset 0 means "no node" in the merge state; real stores have a header there
	return st
}

func vbuild(st *stor.Stor, ps []vpair) *btree {
	b := NewBuilder(st)
	for _, p := range ps {
		rt.Assert("builder/add-accepts-increasing", b.Add(p.key, p.off))
	}
	return b.Finish()
}

// vbatch turns the universe's changes of batch b into an ixbuf through its public API
func vbatch(es []vent, b int) *ixbuf.T {
	ib := &ixbuf.T{}
	for _, e := range es {
		switch {
		case !e.live[b] && e.live[b+1]:
			ib.Insert(e.key, e.off[b+1])
		case e.live[b] && !e.live[b+1]:
			ib.Delete(e.key, e.off[b])
		case e.upd[b]:
			ib.Update(e.key, e.off[b+1])
		}
	}
	return ib
}

// ------------------------------------------------------------------ oracles

// vcheckMap compares the tree with the model by full iteration in both directions (keys and
// offsets) and runs the package's Check.
func vcheckMap(pre string, bt *btree, ps []vpair) {
	var a vacc
	it := bt.Iterator()
	for _, e := range ps {
		it.Next()
		if it.Eof() {
			rt.Assert(pre+"iter/next-ends-early", false)
			return
		}
		k, o := it.Cur()
		a.add(pre+"iter/next-key", k == e.key)
		a.add(pre+"iter/next-off", o == e.off)
	}
	it.Next()
	rt.Assert(pre+"iter/next-eof-after-last", it.Eof())
	it.Next()
	rt.Assert(pre+"iter/eof-sticks", it.Eof())
	it.Rewind()
	for i := len(ps) - 1; i >= 0; i-- {
		it.Prev()
		if it.Eof() {
			rt.Assert(pre+"iter/prev-ends-early", false)
			return
		}
		k, o := it.Cur()
		a.add(pre+"iter/prev-key", k == ps[i].key)
		a.add(pre+"iter/prev-off", o == ps[i].off)
	}
	it.Prev()
	rt.Assert(pre+"iter/prev-eof-before-first", it.Eof())
	a.flush()

	count := -1
	rt.Assert(pre+"check/no-panic", !rt.Try(func() { count, _, _ = bt.Check(nil) }))
	rt.Assert(pre+"check/count", count == len(ps))
	rt.Assert(pre+"count-field", bt.count == len(ps))
}

// vprobe: Lookup of the symbolic probe equals the model (forks inside the searches: call last)
func vprobe(pre string, bt *btree, ps []vpair, probe string) {
	got := bt.Lookup(probe)
	rt.Observe(pre+"lookup", got)
	rt.Assert(pre+"lookup", got == vmodel(ps, probe))
}

// vwalk asserts the structural invariants of every node reachable from off, using only the
// node readers: separators strictly increasing, every key of child i is >= separator i-1 and
// < separator i, node fan-out within the split count, no empty node below the root.
// It returns the number of keys in the subtree.
func vwalk(a *vacc, pre string, bt *btree, level int, off uint64, lo, hi string, hasLo, hasHi bool) int {
	if level < bt.treeLevels {
		nd := bt.readTree(off)
		n := nd.nkeys()
		if level == 0 {
			a.add(pre+"node/root-has-2-children", n >= 1)
		}
		a.add(pre+"node/tree-nonempty", nd.noffs() >= 1)
		a.add(pre+"node/tree-fanout<=split", nd.noffs() <= splitCount)
		a.add(pre+"node/size", nd.size() == len(nd) && len(nd) <= maxNodeSize)
		total := 0
		clo, chasLo := lo, hasLo
		for i := 0; i <= n; i++ {
			chi, chasHi := hi, hasHi
			if i < n {
				chi, chasHi = string(nd.key(i)), true
				a.add(pre+"node/sep-nonempty", len(chi) > 0)
				if chasLo {
					a.add(pre+"node/sep-order", clo < chi)
				}
				if hasHi {
					a.add(pre+"node/sep-order", chi < hi)
				}
			}
			total += vwalk(a, pre, bt, level+1, nd.offset(i), clo, chi, chasLo, chasHi)
			clo, chasLo = chi, true
		}
		return total
	}
	nd := bt.readLeaf(off)
	n := nd.nkeys()
	if bt.treeLevels > 0 {
		a.add(pre+"node/leaf-nonempty", n >= 1)
	}
	a.add(pre+"node/leaf-fanout<=split", n <= splitCount)
	a.add(pre+"node/size", nd.size() == len(nd) && len(nd) <= maxNodeSize)
	for i := 0; i < n; i++ {
		k := nd.key(i)
		if i > 0 {
			a.add(pre+"node/leaf-sorted", nd.key(i-1) < k)
		}
		if hasLo {
			a.add(pre+"node/key-within-separators", lo <= k)
		}
		if hasHi {
			a.add(pre+"node/key-within-separators", k < hi)
		}
	}
	return n
}

func vwalkAll(pre string, bt *btree, want int) {
	rt.Assert(pre+"node/levels<8", bt.treeLevels < maxLevels)
	var a vacc
	n := vwalk(&a, pre, bt, 0, bt.root, "", "", false, false)
	a.flush()
	rt.Assert(pre+"node/total-keys", n == want)
}

// ------------------------------------------------------------------ Builder

// C10 Builder: a bulk-built tree of n increasing keys is exactly that ordered map; a further
// Add of an arbitrary key is accepted iff it is larger, refused (false) iff equal, and panics
// iff smaller than the last key.
//
//symgo:harness prop=C10 tier=quick shards=4 tshards=16 timeout=300 ttimeout=3400 bounds=split_2..4;0..8_keys_of_1_byte|0..6_keys_of_alternating_1,2_bytes_(thorough_0..13_keys_of_1|1,2|2,1_bytes,_0..7_keys_all_2_bytes);symbolic_key_bytes_in_an_assumed_ordering_chain;40-bit_offsets;symbolic_probe_of_1..2_bytes;one_extra_Add_of_an_arbitrary_key outside=trees_deeper_than_8_levels;keys_longer_than_2_bytes
func VerifC10Builder() {
	split := 2 + rt.Pick("split", 3)
	maxn, nlens := []int{8, 6}, 2
	if rt.Thorough() {
		maxn, nlens = []int{13, 13, 13, 7}, 4
	}
	li := rt.Pick("lens", nlens)
	lens := vlenModes[li]
	n := rt.Pick("n", maxn[li]+1)
	defer SetSplit(SetSplit(split))
	ks := vkeys(n, lens, "")
	ps := make([]vpair, n)
	for i := range ps {
		ps[i] = vpair{ks[i], voff(vname("o", i))}
	}
	st := vstor()
	b := NewBuilder(st)
	for _, p := range ps {
		rt.Assert("builder/add-accepts-increasing", b.Add(p.key, p.off))
	}
	bt := b.Finish()
	rt.Reach("built")
	rt.Observe("levels", bt.treeLevels)
	// three alternatives (their forks add up instead of multiplying; the tree they look at is
	// the same function of the same symbolic inputs in all three):
	switch rt.Pick("what", 3) {
	case 0: // contents by iteration, Check, node invariants
		vcheckMap("built/", bt, ps)
		vwalkAll("built/", bt, n)
	case 1: // Lookup of a symbolic probe
		probe := rt.Str("probe", 1+rt.Pick("plen", 2))
		vprobe("built/", bt, ps, probe)
	case 2: // one more Add of an arbitrary key
		if n == 0 {
			return
		}
		x := rt.Str("extra", 1+rt.Pick("xlen", 2))
		last := ks[n-1]
		var ok bool
		b2 := NewBuilder(vstor())
		for _, p := range ps {
			b2.Add(p.key, p.off)
		}
		panicked := rt.Try(func() { ok = b2.Add(x, 1) })
		rt.Assert("builder/out-of-order-panics", panicked == (x < last))
		if !panicked {
			rt.Assert("builder/duplicate-refused", ok == (x != last))
			bt2 := b2.Finish()
			rt.Assert("builder/count-after-extra", bt2.count == n+rt.IteInt(ok, 1, 0))
			rt.Assert("builder/extra-found", bt2.Lookup(x) == uint64(rt.IteInt(ok, 1, int(ps[n-1].off))))
		}
	}
}

// ------------------------------------------------------------------ MergeAndSave

// histories of one key over nb batches: the stages at which it is live and which batches
// replace its offset. Index 0 of each list is "stop here" in the enumeration.
type vhist struct {
	live []bool
	upd  []bool
}

var vhist1 = []vhist{
	{[]bool{true, true}, []bool{false}},  // keep
	{[]bool{true, true}, []bool{true}},   // update
	{[]bool{true, false}, []bool{false}}, // delete
	{[]bool{false, true}, []bool{false}}, // add
}

var vhist2 = []vhist{
	{[]bool{true, true, true}, []bool{false, false}},   // keep keep
	{[]bool{true, true, true}, []bool{false, true}},    // keep update
	{[]bool{true, true, false}, []bool{false, false}},  // keep delete
	{[]bool{true, true, true}, []bool{true, false}},    // update keep
	{[]bool{true, true, true}, []bool{true, true}},     // update update
	{[]bool{true, true, false}, []bool{true, false}},   // update delete
	{[]bool{true, false, false}, []bool{false, false}}, // delete -
	{[]bool{true, false, true}, []bool{false, false}},  // delete add
	{[]bool{false, true, true}, []bool{false, false}},  // add keep
	{[]bool{false, true, true}, []bool{false, true}},   // add update
	{[]bool{false, true, false}, []bool{false, false}}, // add delete
	{[]bool{false, false, true}, []bool{false, false}}, // - add
}

func (h vhist) changes(b int) bool {
	return h.live[b] != h.live[b+1] || h.upd[b]
}

// vshape enumerates (by forking) every sorted universe with exactly n0 initial keys and exactly
// cs[b] changes in batch b. Every prefix of choices can be completed (a kept key uses up an
// initial key, an add uses up a change), so the enumeration has no dead ends.
func vshape(hists []vhist, n0 int, cs []int) []vhist {
	var shape []vhist
	r0 := n0
	rc := append([]int{}, cs...)
	for {
		done := r0 == 0
		for _, c := range rc {
			done = done && c == 0
		}
		if done {
			return shape
		}
		var allowed []vhist
		for _, h := range hists {
			ok := !(h.live[0] && r0 == 0)
			for b := range rc {
				if h.changes(b) && rc[b] == 0 {
					ok = false
				}
			}
			if ok {
				allowed = append(allowed, h)
			}
		}
		h := allowed[rt.Pick(vname("h", len(shape)), len(allowed))]
		shape = append(shape, h)
		if h.live[0] {
			r0--
		}
		for b := range rc {
			if h.changes(b) {
				rc[b]--
			}
		}
	}
}

func vuniverse(shape []vhist, lens []int, pfx string) []vent {
	ks := vkeys(len(shape), lens, pfx)
	es := make([]vent, len(shape))
	for i, h := range shape {
		e := vent{key: ks[i], live: h.live, upd: h.upd, off: make([]uint64, len(h.live))}
		for s := range h.live {
			switch {
			case !h.live[s]:
			case s > 0 && h.live[s-1] && !h.upd[s-1]:
				e.off[s] = e.off[s-1]
			default:
				e.off[s] = voff(vname("o", i) + string(rune('0'+s)))
			}
		}
		es[i] = e
	}
	return es
}

// vinitial builds the stage 0 tree: by the Builder (full nodes), or by merging all the keys
// into an empty tree (split-shaped nodes)
func vinitial(how int, ps []vpair) *btree {
	st := vstor()
	if how == 0 {
		return vbuild(st, ps)
	}
	ib := &ixbuf.T{}
	for _, p := range ps {
		ib.Insert(p.key, p.off)
	}
	return CreateBtree(st).MergeAndSave(ib.Iter())
}

// vcfg is a configuration of a merge scenario: split count, key length pattern, how the
// initial tree is made
type vcfg struct {
	split int
	lens  []int
	init  int
}

// a diagonal of the configuration space
var vdiagCfgs = []vcfg{
	{2, vlenModes[0], 0},
	{3, vlenModes[1], 0},
	{4, vlenModes[0], 1},
	{2, vlenModes[1], 1},
}

// the full product of split 2|3|4, key lengths all 1 | 1,2 | 2,1, Builder | merge
func vfullCfgs() []vcfg {
	var r []vcfg
	for split := 2; split <= 4; split++ {
		for li := 0; li < 3; li++ {
			for init := 0; init < 2; init++ {
				r = append(r, vcfg{split, vlenModes[li], init})
			}
		}
	}
	return r
}

// vcombos lists the size tuples (n0, c1[, c2]) with n0 in lo..hi and the given change counts
func vcombos(lo, hi int, cs ...[]int) [][]int {
	var r [][]int
	for n0 := lo; n0 <= hi; n0++ {
		for _, c := range cs {
			r = append(r, append([]int{n0}, c...))
		}
	}
	return r
}

func vcat(xs ...[][]int) [][]int {
	var r [][]int
	for _, x := range xs {
		r = append(r, x...)
	}
	return r
}

func vmergeScenario(hists []vhist, combos [][]int, cfgs []vcfg, pfx string, probeOld bool) {
	cfg := cfgs[rt.Pick("cfg", len(cfgs))]
	defer SetSplit(SetSplit(cfg.split))
	combo := combos[rt.Pick("size", len(combos))]
	nb := len(combo) - 1
	shape := vshape(hists, combo[0], combo[1:])
	es := vuniverse(shape, cfg.lens, pfx)

	trees := make([]*btree, nb+1)
	trees[0] = vinitial(cfg.init, vstage(es, 0))
	rt.Observe("levels0", trees[0].treeLevels)
	for b := 0; b < nb; b++ {
		ib := vbatch(es, b)
		old := *trees[b]
		panicked := rt.Try(func() { trees[b+1] = trees[b].MergeAndSave(ib.Iter()) })
		rt.Assert("merge/no-panic", !panicked)
		if panicked {
			return
		}
		rt.Assert("merge/receiver-unchanged", *trees[b] == old)
	}
	rt.Reach("merged")
	rt.Observe("levels", trees[nb].treeLevels)
	// the newest tree is the final model; every older tree still is its own stage (path copying).
	// Two alternatives (forks add up instead of multiplying): contents + invariants, or probe.
	if rt.Pick("what", 2) == 0 {
		for s := nb; s >= 0; s-- {
			ps := vstage(es, s)
			vcheckMap(vpre(s, nb), trees[s], ps)
			vwalkAll(vpre(s, nb), trees[s], len(ps))
		}
		return
	}
	maxplen := 2
	if !rt.Thorough() {
		maxplen = len(cfg.lens) // quick: no 2-byte probe when every key has 1 byte
	}
	probe := pfx + rt.Str("probe", 1+rt.Pick("plen", maxplen))
	for s := nb; s >= 0; s-- {
		if s == nb || probeOld {
			vprobe(vpre(s, nb), trees[s], vstage(es, s), probe)
		}
	}
}

func vpre(s, nb int) string {
	if s < nb {
		return "old/"
	}
	return "merged/"
}

// C10 MergeAndSave, one batch: a stored tree (bulk-built, or grown by merging into an empty
// tree) receives a batch of inserts/updates/deletes; the result is the model map, the old tree
// still is the old map, all nodes are ordered and within the split count.
//
//symgo:harness prop=C10 tier=quick shards=8 tshards=16 timeout=400 ttimeout=3400 bounds=quick:initial_tree_of_0..3_keys,_one_batch_of_1..2_changes;thorough:0..2_keys_with_1..3_changes,_3..4_keys_with_1..2_changes,_5..6_keys_with_1_change;changes_=_add/update/delete_at_every_position_of_the_sorted_universe;quick_configurations_(split,key_lengths,initial_tree_by):(2,all_1,Builder)|(3,alternating_1/2,Builder)|(4,all_1,merge_into_empty)|(2,alternating_1/2,merge_into_empty);thorough:split_2|3|4_x_key_lengths_all_1|1,2|2,1_x_Builder|merge;symbolic_key_bytes_in_an_assumed_ordering_chain;40-bit_offsets;symbolic_probe_1..2_bytes_(quick:_1_byte_when_all_keys_have_1_byte);old_tree_iterated_and_checked_but_not_probed outside=trees_deeper_than_8_levels;keys_longer_than_2_bytes_(see_VerifC10MergePrefix);more_than_one_batch_(see_VerifC10Merge2)
func VerifC10Merge() {
	if rt.Thorough() {
		combos := vcat(vcombos(0, 2, []int{1}, []int{2}, []int{3}), vcombos(3, 4, []int{1}, []int{2}), vcombos(5, 6, []int{1}))
		vmergeScenario(vhist1, combos, vfullCfgs(), "", false)
	} else {
		vmergeScenario(vhist1, vcombos(0, 3, []int{1}, []int{2}), vdiagCfgs, "", false)
	}
}

// C10 MergeAndSave, two batches in sequence (the second one works on a tree shaped by the first);
// all three trees are compared with their stage of the model.
//
//symgo:harness prop=C10 tier=thorough tshards=16 ttimeout=3400 bounds=initial_tree_of_0..2_keys_and_two_batches_of_(1,1)|(1,2)|(2,1)_changes,_or_3_keys_and_(1,1);every_consistent_history_per_key_(keep/update/delete/add,_delete_then_re-add,_add_then_update/delete);the_4_configurations_of_VerifC10Merge's_quick_tier;symbolic_probe_on_all_three_trees outside=as_VerifC10Merge
func VerifC10Merge2() {
	combos := vcat(vcombos(0, 2, []int{1, 1}, []int{1, 2}, []int{2, 1}), vcombos(3, 3, []int{1, 1}))
	vmergeScenario(vhist2, combos, vdiagCfgs, "", true)
}

// C10 MergeAndSave with keys that share a concrete 6-byte prefix (leaf prefix compression and
// longer separators) and a symbolic 1..2 byte tail.
//
//symgo:harness prop=C10 tier=thorough tshards=16 ttimeout=3400 bounds=initial_tree_of_0..4_keys,_one_batch_of_1..2_changes;every_key_and_the_probe_prefixed_by_the_6_bytes_"prefix";the_4_configurations_of_VerifC10Merge's_quick_tier;symbolic_probe_on_both_trees outside=as_VerifC10Merge
func VerifC10MergePrefix() {
	vmergeScenario(vhist1, vcombos(0, 4, []int{1}, []int{2}), vdiagCfgs, "prefix", true)
}

// ------------------------------------------------------------------ RangeFrac

// C10 RangeFrac: for trees of 12..16 keys with split 4 (two tree levels once merges have
// produced half full leaves), built in four ways, and symbolic 1-byte range bounds:
// the estimate is within [0,1], is 0 for an empty range, and never panics.
//
//symgo:harness prop=C10 tier=quick shards=4 tshards=8 timeout=300 ttimeout=3400 bounds=split_4;12..13_keys_(thorough_0..17)_1_symbolic_byte_each_in_an_assumed_ordering_chain;tree_made_by:Builder|merge_of_all_keys_into_empty|Builder_of_every_other_key_then_merge_of_the_rest|Builder_of_all_then_merge_deleting_every_third;org,end_symbolic_1_byte_each_(thorough_also_0_bytes_and_ixkey.Max_as_end) outside=other_split_counts;more_than_2_tree_levels;accuracy_of_the_estimate
func VerifC10RangeFrac() {
	defer SetSplit(SetSplit(4))
	mode := rt.Pick("mode", 4)
	var n int
	if rt.Thorough() {
		n = rt.Pick("n", 18)
	} else {
		n = 12 + rt.Pick("n", 2)
	}
	ks := vkeys(n, vlenModes[0], "")
	var ps, first []vpair
	second := &ixbuf.T{}
	for i, k := range ks {
		off := uint64(i + 1)
		switch mode {
		case 0:
			first = append(first, vpair{k, off})
			ps = append(ps, vpair{k, off})
		case 1:
			second.Insert(k, off)
			ps = append(ps, vpair{k, off})
		case 2:
			if i%2 == 0 {
				first = append(first, vpair{k, off})
			} else {
				second.Insert(k, off)
			}
			ps = append(ps, vpair{k, off})
		case 3:
			first = append(first, vpair{k, off})
			if i%3 == 1 {
				second.Delete(k, off)
			} else {
				ps = append(ps, vpair{k, off})
			}
		}
	}
	bt := vbuild(vstor(), first)
	if mode != 0 {
		bt = bt.MergeAndSave(second.Iter())
	}
	rt.Reach("tree-made")
	rt.Observe("levels", bt.treeLevels)
	rt.Assert("rangefrac/tree-count", bt.count == len(ps))
	org, end := rt.Str("org", 1), rt.Str("end", 1)
	if rt.Thorough() {
		switch rt.Pick("special", 3) {
		case 1:
			org = ""
		case 2:
			end = "\xff\xff\xff\xff\xff\xff\xff\xff" // ixkey.Max
		}
	}
	var r float64
	panicked := rt.Try(func() { r = bt.RangeFrac(org, end) })
	rt.Assert("rangefrac/no-panic", !panicked)
	if panicked {
		return
	}
	rt.Observe("frac-per-mille", int(r*1000))
	rt.Assert("rangefrac/ge-0", r >= 0)
	rt.Assert("rangefrac/le-1", r <= 1)
	rt.Assert("rangefrac/empty-range-is-0", rt.Implies(org >= end, r == 0))
}
