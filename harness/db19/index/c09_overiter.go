package index

import (
	btree "github.com/apmckinlay/gsuneido/db19/index/btree"
	"github.com/apmckinlay/gsuneido/db19/index/ixbuf"
	"github.com/apmckinlay/gsuneido/db19/stor"
	rt "github.com/apmckinlay/gsuneido/zzverifrt"
)

// ------------------------------------------------------------------ model
//
// A layered index is the stored btree plus ixbuf layers (oldest first, the transaction's
// mutable layer last). The model is the list of all entries; everything about a key is a
// branch-free fold over that list in layer order, so the oracle never forks.

// v9ent is one entry of one layer. The kind of change is not chosen but derived from the
// layering invariant: a key that is live in the layers below can only be updated or deleted
// (symbolic choice del), a key that is not live below can only be added.
type v9ent struct {
	key   string
	base  uint64 // 40-bit offset
	del   bool   // symbolic: delete rather than update, when the key is live below
	below bool   // symbolic: the key is live in the layers below
}

func (e v9ent) isDel() bool { return rt.And(e.below, e.del) }
func (e v9ent) isUpd() bool { return rt.And(e.below, !e.del) }

// off is the offset with the ixbuf flag bits of the entry's kind
func (e v9ent) off() uint64 {
	return e.base | uint64(rt.IteInt(e.isUpd(), 1, 0))<<62 | uint64(rt.IteInt(e.isDel(), 1, 0))<<63
}

type v9model struct {
	ents []v9ent // in layer order (btree entries first)
}

// live: is key k in the index, looking at the first n entries
func (m *v9model) live(k string, n int) bool {
	live := false
	for _, e := range m.ents[:n] {
		hit := e.key == k
		live = rt.Or(rt.And(hit, !e.isDel()), rt.And(!hit, live))
	}
	return live
}

// offOf is the current offset of a live key (the newest entry for it)
func (m *v9model) offOf(k string) uint64 {
	o := 0
	for _, e := range m.ents {
		o = rt.IteInt(e.key == k, int(e.base), o)
	}
	return uint64(o)
}

// add appends an entry of an ixbuf layer for key
func (m *v9model) add(name string, key string) v9ent {
	e := v9ent{key: key, base: v9off(name + "_o"), del: rt.Bool(name + "_d")}
	e.below = m.live(key, len(m.ents))
	m.ents = append(m.ents, e)
	return e
}

// addBt appends a btree entry (always a plain key -> offset)
func (m *v9model) addBt(name string, key string) v9ent {
	e := v9ent{key: key, base: v9off(name + "_o")}
	m.ents = append(m.ents, e)
	return e
}

func v9off(name string) uint64 {
	o := rt.U64(name)
	rt.Assume(o != 0 && o <= ixbuf.Mask)
	return o
}

func v9name(pre string, i int) string {
	return pre + string(rune('a'+i))
}

// v9keys: n symbolic keys of klen bytes, strictly increasing within the layer (Assumed chain);
// nothing is assumed about keys of different layers.
func v9keys(pre string, n, klen int) []string {
	ks := make([]string, n)
	for i := range ks {
		ks[i] = rt.Str(v9name(pre, i), klen)
		if i > 0 {
			rt.Assume(ks[i-1] < ks[i])
		}
	}
	return ks
}

// ------------------------------------------------------------------ tran

type v9tran struct {
	ov    *Overlay
	reads int
}

func (t *v9tran) GetIndexI(string, int) *Overlay { return t.ov }
func (t *v9tran) Read(string, int, string, string) {
	t.reads++
}
func (t *v9tran) Num() int { return 7 }

// ------------------------------------------------------------------ cursor oracle

type v9cursor struct {
	m        *v9model
	org, end string
	all      bool // unrestricted range
	rewound  bool
	eof      bool
	cur      string // valid when !rewound && !eof
}

func (c *v9cursor) inRange(k string) bool {
	if c.all {
		return true
	}
	return rt.And(c.org <= k, k < c.end)
}

// vcheckStep is the oracle for one Next (fwd) or Prev (!fwd) that was just executed on it,
// given the cursor state before the step. Declarative: the result is a live key inside the
// range strictly beyond the previous position, and no live key in the range lies between;
// eof iff there is no such key.
func (c *v9cursor) step(lbl string, it IndexIter, fwd bool) {
	if c.eof {
		rt.Assert(lbl+"/eof-sticks", it.Eof())
		return
	}
	n := len(c.m.ents)
	beyond := func(k string) bool {
		if c.rewound {
			return true
		}
		if fwd {
			return k > c.cur
		}
		return k < c.cur
	}
	if it.Eof() {
		rt.Observe(lbl+"/eof", true)
		none := true
		for _, e := range c.m.ents {
			none = rt.And(none, !rt.And(c.m.live(e.key, n), rt.And(c.inRange(e.key), beyond(e.key))))
		}
		rt.Assert(lbl+"/eof-but-keys-remain", none)
		c.eof, c.rewound = true, false
		return
	}
	var k string
	var o uint64
	if rt.Try(func() { k, o = it.Cur() }) {
		rt.Assert(lbl+"/cur-panics", false)
		return
	}
	rt.Observe(lbl+"/key", k)
	rt.Observe(lbl+"/off", o)
	isEntry := false
	noneSkipped := true
	for _, e := range c.m.ents {
		isEntry = rt.Or(isEntry, e.key == k)
		before := e.key < k
		if !fwd {
			before = e.key > k
		}
		between := rt.And(beyond(e.key), before)
		noneSkipped = rt.And(noneSkipped, !rt.And(c.m.live(e.key, n), rt.And(c.inRange(e.key), between)))
	}
	rt.Assert(lbl+"/key-is-live-in-range-beyond-previous",
		rt.And(rt.And(isEntry, c.m.live(k, n)), rt.And(c.inRange(k), beyond(k))))
	rt.Assert(lbl+"/skipped-a-live-key", noneSkipped)
	rt.Assert(lbl+"/offset", rt.And(o == c.m.offOf(k), it.CurOff() == o))
	c.cur, c.rewound = k, false
}

// ------------------------------------------------------------------ scenario

// v9size is the concrete shape of a layered index: number of btree keys, entries of each
// immutable layer, entries of the mutable layer (-1: read-only overlay without one)
type v9size struct {
	nbt    int
	layers []int
	nmut   int
}

func (sz v9size) total() int {
	n := sz.nbt
	for _, l := range sz.layers {
		n += l
	}
	if sz.nmut > 0 {
		n += sz.nmut
	}
	return n
}

const (
	v9none   = iota // a step is preceded by nothing,
	v9rewind        // by Rewind,
	v9swap          // by the transaction handing out a new overlay object with the same content,
	v9modify        // or by an insert/update/delete of a symbolic key in the mutable layer
)

// v9cfg is one family of scenarios
type v9cfg struct {
	size     v9size
	klen     int
	ranges   []bool // false: unrestricted, true: symbolic [org,end)
	steps    int
	maxTurns int   // changes of direction allowed in the script
	pres     []int // what may precede a step (besides nothing)
	preFrom  int   // ... from this step index on
	maxPre   int   // ... at most this many times
}

var v9both = []bool{false, true}
var v9allPres = []int{v9rewind, v9swap, v9modify}

func v9scenario(cfgs []v9cfg) {
	b := cfgs[rt.Pick("cfg", len(cfgs))]
	sz := b.size
	m := &v9model{}
	// stored btree, built by the real Builder
	st := stor.HeapStor(1024)
	st.Alloc(1)
	bld := btree.NewBuilder(st)
	for i, k := range v9keys("b", sz.nbt, b.klen) {
		e := m.addBt(v9name("b", i), k)
		bld.Add(k, e.base)
	}
	bt := bld.Finish()
	// immutable layers and the mutable one
	layers := make([]*ixbuf.T, len(sz.layers))
	for li, n := range sz.layers {
		layers[li] = &ixbuf.T{}
		pre := v9name("l", li)
		for i, k := range v9keys(pre, n, b.klen) {
			e := m.add(pre+v9name("", i), k)
			layers[li].Insert(k, e.off())
		}
	}
	var mut *ixbuf.T
	if sz.nmut >= 0 {
		mut = &ixbuf.T{}
		for i, k := range v9keys("m", sz.nmut, b.klen) {
			e := m.add(v9name("m", i), k)
			mut.Insert(k, e.off())
		}
	}
	ov := &Overlay{bt: bt, layers: layers, mut: mut}
	tran := &v9tran{ov: ov}

	var it IndexIter
	simple := false
	if mut == nil && rt.Pick("simple", 2) == 1 {
		// the read-only shortcut iterator, available when there is nothing but the btree
		it = NewSimpleIter(tran, ov)
		empty := true
		for _, l := range layers {
			empty = empty && l.Len() == 0
		}
		rt.Assert("simple/offered-iff-only-btree", (it != nil) == (empty && len(layers) <= 1))
		if it == nil {
			return
		}
		simple = true
	} else {
		it = NewOverIter("tbl", 0)
	}
	c := &v9cursor{m: m, rewound: true}
	if b.ranges[rt.Pick("range", len(b.ranges))] {
		c.org, c.end = rt.Str("org", b.klen), rt.Str("end", b.klen)
		it.Range(Range{Org: c.org, End: c.end})
	} else {
		c.all = true
	}
	rt.Reach("set-up")

	npre, turns, lastFwd := 0, 0, false
	for s := 0; s < b.steps; s++ {
		lbl := "step"
		pre := v9none
		if s >= b.preFrom && npre < b.maxPre && len(b.pres) > 0 {
			if p := rt.Pick(v9name("pre", s), len(b.pres)+1); p > 0 {
				pre = b.pres[p-1]
				npre++
			}
		}
		switch pre {
		case v9rewind:
			it.Rewind()
			c.rewound, c.eof = true, false
			lbl = "after-rewind"
		case v9swap:
			if simple {
				return // SimpleIter is only for overlays that do not change
			}
			tran.ov = &Overlay{bt: bt, layers: layers, mut: mut}
			lbl = "after-swap"
		case v9modify:
			if mut == nil {
				return
			}
			k := rt.Str(v9name("mod", s), b.klen)
			e := m.add(v9name("mod", s), k)
			mut.Insert(k, e.off())
			lbl = "after-modify"
		}
		fwd := lastFwd
		if s == 0 || turns < b.maxTurns {
			fwd = rt.Pick(v9name("dir", s), 2) == 0
		}
		if s > 0 && fwd != lastFwd {
			turns++
		}
		lastFwd = fwd
		if fwd {
			it.Next(tran)
			c.step(lbl+"/next", it, true)
		} else {
			it.Prev(tran)
			c.step(lbl+"/prev", it, false)
		}
	}
	rt.Reach("script-done")
}

// the quick tier runs a diagonal of the scenario space
var v9quick = []v9cfg{
	// three iterators, unrestricted range, every script
	{size: v9size{1, []int{1}, 1}, klen: 1, ranges: []bool{false}, steps: 3, maxTurns: 2, pres: v9allPres, preFrom: 1, maxPre: 1},
	// two iterators (read-only overlay), symbolic range, plain Next/Prev scripts and Rewind
	{size: v9size{2, []int{1}, -1}, klen: 1, ranges: []bool{true}, steps: 3, maxTurns: 2, pres: []int{v9rewind}, preFrom: 2, maxPre: 1},
	// btree only: SimpleIter and OverIter, both ranges, every script
	{size: v9size{1, []int{0}, -1}, klen: 1, ranges: v9both, steps: 3, maxTurns: 2, pres: v9allPres, preFrom: 1, maxPre: 1},
	// empty btree, changes of the mutable layer while iterating, symbolic range
	{size: v9size{0, []int{2}, 0}, klen: 1, ranges: []bool{true}, steps: 3, maxTurns: 1, pres: []int{v9modify}, preFrom: 1, maxPre: 1},
	// five entries in three iterators: the fast path of runs in one direction
	{size: v9size{2, []int{2}, 1}, klen: 1, ranges: []bool{false}, steps: 3, maxTurns: 1, preFrom: 3},
}

// the thorough tier: every shape in btree 0..3 x layer 0..2 x mutable none|0..2 with at most
// 3 entries: up to 2 entries with both kinds of range and every script (one optional interlude
// before any step); 3 entries with an unrestricted range and every script, and with a symbolic
// range and plain scripts or a Rewind; plus the quick tier's families.
func v9thorough() []v9cfg {
	r := append([]v9cfg{}, v9quick...)
	for nbt := 0; nbt <= 3; nbt++ {
		for nl := 0; nl <= 2; nl++ {
			for nm := -1; nm <= 2; nm++ {
				sz := v9size{nbt, []int{nl}, nm}
				all := v9cfg{size: sz, klen: 1, steps: 3, maxTurns: 2, pres: v9allPres, preFrom: 0, maxPre: 1}
				switch {
				case sz.total() <= 2:
					all.ranges = v9both
					r = append(r, all)
				case sz.total() == 3:
					all.ranges = []bool{false}
					r = append(r, all)
					r = append(r, v9cfg{size: sz, klen: 1, ranges: []bool{true}, steps: 3, maxTurns: 2,
						pres: []int{v9rewind}, preFrom: 1, maxPre: 1})
				}
			}
		}
	}
	return r
}

// C09 OverIter / SimpleIter: a script of Next / Prev steps, optionally preceded by Rewind, by
// the transaction handing out a new overlay object, or by a change to the mutable layer,
// returns at every step exactly the next (previous) live key of the layered index inside the
// range, with its newest offset; eof iff there is none; eof sticks until Rewind.
//
//symgo:harness prop=C09 tier=quick shards=8 tshards=16 timeout=400 ttimeout=3400 bounds=shape_=_(btree_keys,_entries_of_the_immutable_ixbuf_layer,_entries_of_the_mutable_layer_or_none);quick_families:(1,1,1)_unrestricted_range_all_scripts|(2,1,none)_symbolic_range_plain_scripts_or_Rewind_before_step_3|(1,0,none)_both_ranges_all_scripts_OverIter_and_SimpleIter|(0,2,0)_symbolic_range_modification_before_step_2_or_3_one_turn|(2,2,1)_unrestricted_range_plain_scripts_with_at_most_one_turn;thorough:additionally_every_shape_in_0..3_x_0..2_x_none|0..2_with_at_most_2_entries_(both_ranges,_all_scripts,_interlude_before_any_step)_and_with_3_entries_(unrestricted_range_all_scripts;_symbolic_range_plain_scripts_or_one_Rewind);scripts:3_steps_of_Next|Prev,_at_most_one_step_preceded_by_Rewind|new_overlay_object|insert/update/delete_of_a_symbolic_key_in_the_mutable_layer;entry_kinds_add/update/delete_symbolic,_constrained_only_by_the_layering_invariant;keys_1_symbolic_byte,_sorted_within_a_layer,_arbitrary_across_layers;40-bit_offsets;range_unrestricted_or_symbolic_[org,end) outside=skip-scan_mode;2_immutable_layers,_2-byte_keys,_4_steps_(see_VerifC09OverIter2);concurrent_modification
func VerifC09OverIter() {
	if rt.Thorough() {
		v9scenario(v9thorough())
	} else {
		v9scenario(v9quick)
	}
}

// C09 OverIter with two immutable layers below the mutable one, 2-byte keys and 4 steps.
//
//symgo:harness prop=C09 tier=thorough tshards=16 ttimeout=3400 bounds=shapes_(btree,layer1,layer2,mutable):(1,1,1,none)_symbolic_range_plain_scripts|(1,1,1,0)_unrestricted_range_all_scripts_with_at_most_1_interlude_before_steps_2..4|(2,1,1,1)_unrestricted_range_plain_scripts_with_one_turn;keys_2_symbolic_bytes;4_steps_of_Next|Prev;otherwise_as_VerifC09OverIter outside=as_VerifC09OverIter
func VerifC09OverIter2() {
	v9scenario([]v9cfg{
		{size: v9size{1, []int{1, 1}, -1}, klen: 2, ranges: []bool{true}, steps: 4, maxTurns: 3, preFrom: 4},
		{size: v9size{1, []int{1, 1}, 0}, klen: 2, ranges: []bool{false}, steps: 4, maxTurns: 3, pres: v9allPres, preFrom: 1, maxPre: 1},
		{size: v9size{2, []int{1, 1}, 1}, klen: 2, ranges: []bool{false}, steps: 4, maxTurns: 1, preFrom: 4},
	})
}

// ------------------------------------------------------------------ the layer iterators alone

// v9raw adapts a layer iterator (btree or ixbuf) to the IndexIter shape used by the oracle
type v9raw struct{ it iterT }

func (r v9raw) Next(oiTran)           { r.it.Next() }
func (r v9raw) Prev(oiTran)           { r.it.Prev() }
func (r v9raw) Cur() (string, uint64) { return r.it.Cur() }
func (r v9raw) CurOff() uint64        { return r.it.Offset() }
func (r v9raw) Eof() bool             { return r.it.Eof() }
func (r v9raw) HasCur() bool          { return r.it.HasCur() }
func (r v9raw) Rewind()               { r.it.Rewind() }
func (r v9raw) Range(rng Range)       { r.it.Range(rng) }
func (r v9raw) SkipScan(p Range, s Range, n int) {
	r.it.SkipScan(p, s, n)
}

// C09 layer iterators: the btree iterator and the ixbuf iterator alone, over 0..3 sorted
// symbolic keys, with an unrestricted or symbolic range and a script of Next / Prev / Rewind /
// Seek(symbolic key) steps. Next and Prev return exactly the next (previous) entry inside the
// range (an ixbuf iterator returns tombstones and updates like any entry, flag bits included);
// Seek(k) lands on the first entry >= k, or on the last entry when there is none, and reports
// eof iff the index is empty or that entry is outside the range.
//
//symgo:harness prop=C09 tier=quick shards=8 tshards=16 timeout=400 ttimeout=3400 bounds=btree_iterator|ixbuf_iterator;0..3_entries_(thorough_0..4);keys_1_symbolic_byte_(thorough_1|2)_in_an_assumed_ordering_chain;ixbuf_offsets_with_symbolic_flag_bits;range_unrestricted_or_symbolic_[org,end);2_steps_(thorough_3)_each_Next|Prev|Seek(symbolic_key),_optional_Rewind_before_step_2_(thorough:_before_any_later_step) outside=skip-scan_mode;modification_of_the_ixbuf_while_iterating_(covered_through_OverIter);trees_with_more_than_one_node
func VerifC09LayerIter() {
	maxn, steps, klen := 3, 2, 1
	if rt.Thorough() {
		maxn, steps = 4, 3
		klen = 1 + rt.Pick("klen", 2)
	}
	n := rt.Pick("n", maxn+1)
	m := &v9model{}
	ks := v9keys("k", n, klen)
	var raw iterT
	if rt.Pick("kind", 2) == 0 {
		st := stor.HeapStor(1024)
		st.Alloc(1)
		bld := btree.NewBuilder(st)
		for i, k := range ks {
			e := m.addBt(v9name("k", i), k)
			bld.Add(k, e.base)
		}
		raw = bld.Finish().Iterator()
	} else {
		ib := &ixbuf.T{}
		for i, k := range ks {
			e := m.addBt(v9name("k", i), k)
			e.base |= uint64(rt.Choice(v9name("f", i), 3)) << 62
			m.ents[len(m.ents)-1] = e
			ib.Insert(k, e.base)
		}
		raw = ib.Iterator()
	}
	it := v9raw{raw}
	c := &v9cursor{m: m, rewound: true}
	if rt.Pick("range", 2) == 1 {
		c.org, c.end = rt.Str("org", klen), rt.Str("end", klen)
		it.Range(Range{Org: c.org, End: c.end})
	} else {
		c.all = true
	}
	rt.Reach("set-up")
	for s := 0; s < steps; s++ {
		// a Rewind may precede any step but the first (thorough) / only the second step (quick)
		if s > 0 && (s == 1 || rt.Thorough()) && rt.Pick(v9name("rew", s), 2) == 1 {
			it.Rewind()
			c.rewound, c.eof = true, false
		}
		switch rt.Pick(v9name("op", s), 3) {
		case 0:
			it.Next(nil)
			c.step("next", it, true)
		case 1:
			it.Prev(nil)
			c.step("prev", it, false)
		case 2:
			k := rt.Str(v9name("seek", s), klen)
			raw.Seek(k)
			c.seek(raw, k)
		}
	}
	rt.Reach("script-done")
}

// seek is the oracle for Seek(k) on a single layer iterator
func (c *v9cursor) seek(it iterT, k string) {
	n := len(c.m.ents)
	if n == 0 {
		rt.Assert("seek/empty-is-eof", it.Eof())
		c.eof, c.rewound = true, false
		return
	}
	// the entry Seek must land on: the least entry >= k, else the greatest entry
	// (entries are in increasing order, so one backwards pass selects it branch-free)
	last := c.m.ents[n-1].key
	anyGE := last >= k
	if it.Eof() {
		rt.Observe("seek/eof", true)
		// legitimate iff the landing entry is outside the range
		landedInRange := rt.And(!anyGE, c.inRange(last))
		for i := n - 1; i >= 0; i-- {
			e := c.m.ents[i].key
			first := e >= k
			if i > 0 {
				first = rt.And(first, !(c.m.ents[i-1].key >= k))
			}
			landedInRange = rt.Or(landedInRange, rt.And(first, c.inRange(e)))
		}
		rt.Assert("seek/eof-but-landing-entry-in-range", !landedInRange)
		c.eof, c.rewound = true, false
		return
	}
	x, o := it.Cur()
	rt.Observe("seek/key", x)
	ok := rt.And(!anyGE, x == last)
	for i := n - 1; i >= 0; i-- {
		e := c.m.ents[i].key
		first := e >= k
		if i > 0 {
			first = rt.And(first, !(c.m.ents[i-1].key >= k))
		}
		ok = rt.Or(ok, rt.And(first, x == e))
	}
	rt.Assert("seek/lands-on-first>=key-else-last", ok)
	rt.Assert("seek/in-range", c.inRange(x))
	rt.Assert("seek/offset", o == c.m.offOf(x))
	c.cur, c.eof, c.rewound = x, false, false
}
