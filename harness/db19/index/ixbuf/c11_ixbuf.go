package ixbuf

import (
	rt "github.com/apmckinlay/gsuneido/zzverifrt"
)

const (
	vNone = iota // no entry
	vAdd
	vUpd
	vDel
	vBad // invalid combination
)

// vop classifies an offset by its flag bits
func vop(off uint64) int {
	switch off >> 62 {
	case 0:
		return vAdd
	case 1:
		return vUpd
	case 2:
		return vDel
	}
	return vBad
}

// vcombine is the specification table for applying change b after the accumulated change a.
// It returns the resulting change kind and which offset it carries (always the later one).
func vcombine(a, b int) int {
	switch {
	case a == vNone:
		return b
	case b == vNone:
		return a
	case a == vAdd && b == vUpd:
		return vAdd
	case a == vAdd && b == vDel:
		return vNone // add then delete: no change
	case a == vUpd && b == vUpd:
		return vUpd
	case a == vUpd && b == vDel:
		return vDel
	case a == vDel && b == vAdd:
		return vUpd
	}
	return vBad
}

func vflags(kind int) uint64 {
	switch kind {
	case vUpd:
		return Update
	case vDel:
		return Delete
	}
	return 0
}

// C11 Combine: for all pairs of offsets with flag bits, the result and the reported old offset
// equal the specification table; invalid pairs are refused (panic).
//
//symgo:harness prop=C11 tier=quick timeout=200 bounds=all_40-bit_offsets;all_flag_combinations_(2_bits_each)
func VerifC11Combine() {
	b1, b2 := rt.U64("b1"), rt.U64("b2")
	rt.Assume(b1 != 0 && b1 <= Mask && b2 != 0 && b2 <= Mask)
	f1, f2 := uint64(rt.Choice("f1", 4)), uint64(rt.Choice("f2", 4))
	off1, off2 := b1|f1<<62, b2|f2<<62
	var res, old uint64
	panicked := rt.Try(func() { res, old = Combine(off1, off2) })
	rt.Reach("combined")
	want := vcombine(vop(off1), vop(off2))
	if vop(off1) == vBad || vop(off2) == vBad {
		want = vBad
	}
	rt.Assert("combine/refused-iff-invalid", panicked == (want == vBad))
	if panicked {
		return
	}
	rt.Observe("res", res)
	if want == vNone {
		rt.Assert("combine/add-delete-vanishes", res == 0)
	} else {
		rt.Assert("combine/result", res == b2|vflags(want))
	}
	if vop(off1) == vUpd {
		rt.Assert("combine/oldoff", old == b1)
	} else {
		rt.Assert("combine/no-oldoff", old == 0)
	}
}

type ventry struct {
	key  string
	off  uint64
	kind int
	free bool
}

// vfree is an entry with a symbolic 1-byte key, symbolic 40-bit offset and symbolic change kind
func vfree(name string) ventry {
	k := rt.Str(name+"_k", 1)
	base := rt.U64(name + "_off")
	rt.Assume(base != 0 && base <= Mask)
	kind := vAdd + rt.Choice(name+"_kind", 3)
	return ventry{k, base | vflags2(kind), kind, true}
}

// branch-free flag selection (kind is symbolic)
func vflags2(kind int) uint64 {
	return uint64(rt.IteInt(kind == vUpd, 1, 0))<<62 | uint64(rt.IteInt(kind == vDel, 1, 0))<<63
}

// vcands: every order type of a key relative to the two ramps 0x10,0x12..0x28 and 0x40,0x42..0x56
// (below, on the first/middle/last ramp key, in a gap, between the ramps, above)
var vcands = []byte{0x0f, 0x10, 0x11, 0x1c, 0x1d, 0x28, 0x29, 0x40, 0x41, 0x56, 0x57}

// vplaced is a free entry whose key is one of the candidate positions (concrete per path;
// merging only ever compares keys, so the positions stand for all keys of that order type)
// with a symbolic 40-bit offset and a symbolic change kind
func vplaced(name string) ventry {
	k := string([]byte{vcands[rt.Pick(name+"_pos", len(vcands))]})
	base := rt.U64(name + "_off")
	rt.Assume(base != 0 && base <= Mask)
	kind := vAdd + rt.Choice(name+"_kind", 3)
	return ventry{k, base | vflags2(kind), kind, true}
}

// vramp is a chunk of n concrete increasing keys start, start+2, ... all adds
func vramp(start byte, n int, off uint64) []ventry {
	es := make([]ventry, n)
	for i := range es {
		es[i] = ventry{string([]byte{start + byte(2*i)}), off + uint64(i), vAdd, false}
	}
	return es
}

func vsorted(es []ventry) bool {
	ok := true
	for i := 1; i < len(es); i++ {
		ok = rt.And(ok, es[i-1].key < es[i].key)
	}
	return ok
}

func vbuild(chunks ...[]ventry) *ixbuf {
	ib := &ixbuf{}
	for _, es := range chunks {
		if len(es) == 0 {
			continue
		}
		c := make(chunk, len(es))
		for i, e := range es {
			c[i] = slot{key: e.key, off: e.off}
		}
		ib.chunks = append(ib.chunks, c)
		ib.size += int32(len(es))
	}
	return ib
}

// vfold applies the buffers' changes to key p in order: returns the resulting kind and offset
func vfold(bufs [][]ventry, p string) (kind int, off uint64) {
	kind = vNone
	for _, es := range bufs {
		for _, e := range es {
			if e.key == p {
				kind = vcombine(kind, e.kind)
				off = e.off & Mask
			}
		}
	}
	return
}

func vflat(chunks ...[]ventry) []ventry {
	var r []ventry
	for _, c := range chunks {
		r = append(r, c...)
	}
	return r
}

func vsnapshot(ib *ixbuf) []slot {
	var r []slot
	for _, c := range ib.chunks {
		r = append(r, c...)
	}
	return r
}

func vsame(ib *ixbuf, snap []slot, nchunks int) bool {
	cur := vsnapshot(ib)
	if len(cur) != len(snap) || len(ib.chunks) != nchunks || int(ib.size) != len(snap) {
		return false
	}
	for i := range cur {
		if cur[i] != snap[i] {
			return false
		}
	}
	return true
}

// vmergeCheck merges the buffers (given as chunk lists) and compares with the sequential model.
func vmergeCheck(bufs [][][]ventry) {
	flat := make([][]ventry, len(bufs))
	ibs := make([]*ixbuf, len(bufs))
	for i, chunks := range bufs {
		flat[i] = vflat(chunks...)
		rt.Assume(vsorted(flat[i]))
		ibs[i] = vbuild(chunks...)
	}
	// the change sequence for every key must be a valid one (what layering guarantees); ramp
	// entries are plain adds in the first buffer, so it is enough to fold at the free entries' keys
	for _, es := range flat {
		for _, e := range es {
			if e.free {
				k, _ := vfold(flat, e.key)
				rt.Assume(k != vBad)
			}
		}
	}
	snaps := make([][]slot, len(ibs))
	ncs := make([]int, len(ibs))
	for i, ib := range ibs {
		snaps[i] = vsnapshot(ib)
		ncs[i] = len(ib.chunks)
	}
	res := Merge(ibs...)
	rt.Reach("merged")
	rt.Assert("merge/check", !rt.Try(func() { res.Check() }))
	// sorted, unique, no empty chunk, size bookkeeping (independent of Check)
	n := 0
	prev := ""
	first := true
	for _, c := range res.chunks {
		rt.Assert("merge/no-empty-chunk", len(c) > 0)
		for _, s := range c {
			if !first {
				rt.Assert("merge/sorted-unique", prev < s.key)
			}
			prev, first = s.key, false
			n++
			rt.Assert("merge/no-zero-offset", s.off != 0)
		}
	}
	rt.Assert("merge/size", int(res.size) == n && res.Len() == n)
	// every slot of the result carries exactly the folded change of its key, and every key whose
	// changes fold to something appears: together with sorted+unique this fixes the whole mapping
	for _, c := range res.chunks {
		for _, s := range c {
			kind, off := vfold(flat, s.key)
			rt.Assert("merge/slot-is-fold", kind != vNone && kind != vBad && s.off == off|vflags(kind))
		}
	}
	want := 0
	for bi, es := range flat {
		for ei, e := range es {
			firstOcc := true
			for bj := 0; bj <= bi; bj++ {
				for ej, f := range flat[bj] {
					if (bj < bi || ej < ei) && f.key == e.key {
						firstOcc = false
					}
				}
			}
			if firstOcc {
				if k, _ := vfold(flat, e.key); k != vNone {
					want++
				}
			}
		}
	}
	rt.Assert("merge/count-is-distinct-surviving-keys", n == want)
	if rt.Thorough() {
		// additionally an arbitrary probe key through Lookup
		p := rt.Str("probe", 1)
		kind, off := vfold(flat, p)
		got := res.Lookup(p)
		if kind == vNone {
			rt.Assert("merge/absent", got == 0)
		} else {
			rt.Assert("merge/lookup", got == off|vflags(kind))
		}
	} else {
		// quick: Lookup of the first free entry's key
		for _, es := range flat {
			for _, e := range es {
				if e.free {
					kind, off := vfold(flat, e.key)
					got := res.Lookup(e.key)
					if kind == vNone {
						rt.Assert("merge/absent", got == 0)
					} else {
						rt.Assert("merge/lookup", got == off|vflags(kind))
					}
					goto done
				}
			}
		}
	done:
	}
	for i, ib := range ibs {
		if res != ib {
			rt.Assert("merge/inputs-unchanged", vsame(ib, snaps[i], ncs[i]))
		}
	}
}

// C11 Merge of 2..3 small buffers (1..2 entries each, arbitrary 1-byte keys, offsets, kinds).
//
//symgo:harness prop=C11 tier=quick shards=16 timeout=400 ttimeout=1700 bounds=2_buffers_of_1..2_entries_or_3_buffers_of_1_entry_(thorough:_2..3_buffers_of_1..3);1-byte_keys;40-bit_offsets;all_valid_change_kinds
func VerifC11MergeSmall() {
	nb := 2 + rt.Pick("nbufs", 2)
	maxn := 2
	if rt.Thorough() {
		maxn = 3
	}
	bufs := make([][][]ventry, nb)
	for i := range bufs {
		n := 1
		if nb == 2 || rt.Thorough() {
			n = 1 + rt.Pick("n"+string(rune('0'+i)), maxn)
		}
		es := make([]ventry, n)
		for j := range es {
			es[j] = vfree("e" + string(rune('0'+i)) + string(rune('0'+j)))
		}
		bufs[i] = [][]ventry{es}
	}
	vmergeCheck(bufs)
}

// C11 Merge with real-size chunks: a 13-slot chunk (passed through whole when nothing overlaps it),
// 12-slot chunks (appended to the output buffer, which is flushed when it exceeds the goal) and
// free entries placed at every order type relative to the chunks (before, on a chunk key, in a
// gap, between chunks, after), with symbolic offsets and change kinds.
//
//symgo:harness prop=C11 tier=quick shards=16 timeout=400 ttimeout=1700 bounds=buffer1_of_chunks_{13}|{12,12}|{13,12}_ramp_keys_plus_one_free_entry;buffer2_of_1_free_entry(thorough_1..2_and_optional_buffer3);free_keys_at_all_11_order_types;symbolic_offsets_and_kinds
func VerifC11MergeChunks() {
	var b1 [][]ventry
	t := vplaced("t")
	switch rt.Pick("shape", 3) {
	case 0:
		rt.Assume(t.key > "\x28")
		b1 = [][]ventry{vramp(0x10, 13, 100), {t}}
	case 1:
		rt.Assume(t.key > "\x56")
		b1 = [][]ventry{vramp(0x10, 12, 100), vramp(0x40, 12, 200), {t}}
	case 2:
		rt.Assume(t.key < "\x10")
		b1 = [][]ventry{{t}, vramp(0x10, 13, 100), vramp(0x40, 12, 200)}
	}
	n2 := 1
	if rt.Thorough() {
		n2 = 1 + rt.Pick("n2", 2)
	}
	b2 := make([]ventry, n2)
	for j := range b2 {
		b2[j] = vplaced("u" + string(rune('0'+j)))
	}
	bufs := [][][]ventry{b1, {b2}}
	if rt.Pick("big-chunk-in-later-buffer", 2) == 1 {
		// the large chunk sits in the LATER buffer and its first slot changes a key that an earlier
		// buffer may also hold: first slot = update or delete (symbolic), the rest adds
		big := vramp(0x10, 13, 300)
		kind := vUpd + rt.Choice("bigkind", 2)
		big[0] = ventry{big[0].key, (300 & Mask) | vflags2(kind), kind, true}
		bufs = [][][]ventry{{b2}, {big, {t}}}
		if t.key <= "\x28" {
			rt.Assume(false)
		}
	}
	if rt.Thorough() && rt.Pick("third", 2) == 1 {
		bufs = append(bufs, [][]ventry{{vplaced("w")}})
	}
	vmergeCheck(bufs)
}

// C11 Insert: a history of inserts/updates/deletes into one buffer equals the sequential model;
// keys stay sorted and unique, size and modCount are maintained.
//
//symgo:harness prop=C11 tier=quick shards=16 timeout=400 ttimeout=1700 bounds=histories_of_1..3_changes(thorough_4);1-byte_keys;40-bit_offsets
func VerifC11Insert() {
	maxn := 3
	if rt.Thorough() {
		maxn = 4
	}
	n := 1 + rt.Pick("n", maxn)
	ib := &ixbuf{}
	var hist [][]ventry
	for i := 0; i < n; i++ {
		e := vfree("e" + string(rune('0'+i)))
		hist = append(hist, []ventry{e})
		k, _ := vfold(hist, e.key)
		rt.Assume(k != vBad)
		mc := ib.modCount
		var old uint64
		switch e.kind {
		case vAdd:
			old = ib.Insert(e.key, e.off)
		case vUpd:
			old = ib.Update(e.key, e.off&Mask)
		case vDel:
			old = ib.Delete(e.key, e.off&Mask)
		}
		_ = old
		rt.Assert("insert/modcount", ib.modCount != mc)
	}
	rt.Reach("inserted")
	rt.Assert("insert/check", !rt.Try(func() { ib.Check() }))
	cnt := 0
	prev, first := "", true
	for _, c := range ib.chunks {
		rt.Assert("insert/no-empty-chunk", len(c) > 0)
		for _, s := range c {
			if !first {
				rt.Assert("insert/sorted-unique", prev < s.key)
			}
			prev, first = s.key, false
			cnt++
		}
	}
	rt.Assert("insert/size", ib.Len() == cnt)
	p := rt.Str("probe", 1)
	kind, off := vfold(hist, p)
	got := ib.Lookup(p)
	if kind == vNone {
		rt.Assert("insert/absent", got == 0)
	} else {
		rt.Assert("insert/lookup", got == off|vflags(kind))
	}
}

// C11 Insert into a full chunk: the chunk splits; everything stays sorted, unique and findable.
//
//symgo:harness prop=C11 tier=quick shards=4 timeout=300 bounds=one_chunk_of_24_concrete_ramp_keys;one_arbitrary_inserted_key(thorough_two)
func VerifC11InsertSplit() {
	ramp := vramp(0x10, 24, 100)
	ib := vbuild(ramp)
	frees := []ventry{vfree("a")}
	if rt.Thorough() {
		frees = append(frees, vfree("b"))
	}
	hist := [][]ventry{ramp}
	for _, e := range frees {
		hist = append(hist, []ventry{e})
	}
	for _, e := range frees {
		k, _ := vfold(hist, e.key)
		rt.Assume(k != vBad)
	}
	for _, e := range frees {
		ib.Insert(e.key, e.off)
	}
	rt.Reach("inserted")
	rt.Assert("split/check", !rt.Try(func() { ib.Check() }))
	cnt := 0
	for _, c := range ib.chunks {
		rt.Assert("split/chunk-within-goal", len(c) > 0 && len(c) <= goal(ib.size))
		cnt += len(c)
	}
	rt.Assert("split/size", ib.Len() == cnt)
	p := rt.Str("probe", 1)
	kind, off := vfold(hist, p)
	got := ib.Lookup(p)
	if kind == vNone {
		rt.Assert("split/absent", got == 0)
	} else {
		rt.Assert("split/lookup", got == off|vflags(kind))
	}
}
