package db19

import (
	"github.com/apmckinlay/gsuneido/db19/meta/schema"
	"github.com/apmckinlay/gsuneido/db19/stor"
	rt "github.com/apmckinlay/gsuneido/zzverifrt"
)

// C04 state record: writeState then readState returns the same metadata offsets, for all offsets
// below the record's own offset; a record whose offsets are not below it is rejected.
//
//symgo:harness prop=C04 tier=quick timeout=300 bounds=all_40-bit_metadata_offsets;state_record_after_an_arbitrary_amount_(1..200_bytes)_of_earlier_data
func VerifC04State() {
	store := stor.HeapStor(8192)
	pad := rt.IntRange("pad", 1, 200)
	pad = rt.Concrete(pad%8*25 + 1) // 8 representative paddings
	store.Alloc(pad)
	offSchema := rt.U64("offSchema")
	offInfo := rt.U64("offInfo")
	rt.Assume(offSchema <= stor.MaxSmallOffset && offInfo <= stor.MaxSmallOffset)
	off := writeState(store, offSchema, offInfo)
	rt.Reach("written")
	s, i, t := readState(store, off)
	if offSchema < off && offInfo < off {
		rt.Assert("state/roundtrip", s == offSchema && i == offInfo && t != 0)
	} else {
		rt.Assert("state/offsets-not-before-the-record-rejected", s == 0 && i == 0 && t == 0)
	}
}

// C04 scenario: a database with table t(a,b) key(a) index(b) and one of five schema histories
// (plain; a second table created, persisted and dropped again; a view; a column and an index
// added; the table renamed), 1..2 committed rows with arbitrary 1-byte values (merged at once or only just before
// the shutdown, persisted in between or not), and an uncommitted transaction in flight. Clean Close, reopen from
// the same storage, twice: the tables, schema text, views, both indexes, rows and counts are
// exactly those visible before closing; the dropped table and the uncommitted row do not appear.
//
//symgo:harness prop=C04 tier=quick shards=16 timeout=500 ttimeout=1700 bounds=1_table_+_5_schema_histories;1..2_committed_rows;1-byte_values;merge/persist_points_chosen;an_uncommitted_transaction;close_and_reopen_twice outside=the_mmap_file_layer;process_exit
func VerifC04Reopen() {
	db := vnewdb()
	vcreateT(db)
	table := "t"
	history := rt.Pick("history", 5)
	wantView, wantU := "", false
	switch history {
	case 1:
		db.Create(&schema.Schema{Table: "u", Columns: []string{"x"}, Indexes: []schema.Index{vkey("x")}})
		if rt.Pick("persist-u", 2) == 1 {
			vpersist(db)
		}
		db.Drop("u")
	case 2:
		db.AddView("v", "t")
		wantView = "t"
	case 3:
		db.AlterCreate(&schema.Schema{Table: "t", Columns: []string{"c"},
			Indexes: []schema.Index{{Mode: 'i', Columns: []string{"c"}}}})
	}
	var rows []vrow
	ut := db.NewUpdateTran()
	vapply("T1", ut, &rows, 0, "r0")
	if rt.Pick("two-rows", 2) == 1 {
		vapply("T1", ut, &rows, 0, "r1")
	}
	for _, r := range rows {
		rt.Assume(r.a != "\xfe") // the key of the uncommitted row below
	}
	ok, pending := vcommit2(db, ut)
	rt.Assert("setup/commit", ok)
	mergeEarly := rt.Pick("merge", 2) == 1
	if mergeEarly {
		vmerge(db, pending)
	}
	if rt.Pick("persist", 2) == 1 {
		vpersist(db)
	}
	if history == 4 {
		db.RenameTable("t", "t2")
		table = "t2"
	}
	// in flight, never committed
	inflight := db.NewUpdateTran()
	vtry(func() { inflight.Output(nil, table, vmkrec("\xfe", "zz")) })
	if !mergeEarly {
		// the merger goroutine always merges a commit's layers before the final persist of a
		// clean shutdown; here it happens as late as possible
		if history == 4 {
			pending = []string{"t2"}
		}
		vmerge(db, pending)
	}
	schemaBefore := db.Schema(table)
	rt.Observe("schema", schemaBefore)
	rt.Reach("before-close")

	for round := 0; round < 2; round++ {
		db.Close()
		db2, err := OpenDbStor(db.Store, stor.Update, false)
		rt.Assert("reopen/opens", err == nil && db2 != nil)
		if db2 == nil {
			return
		}
		rtx := db2.NewReadTran()
		rt.Assert("reopen/schema-text", db2.Schema(table) == schemaBefore)
		rt.Assert("reopen/view", db2.GetView("v") == wantView)
		rt.Assert("reopen/dropped-table-stays-dropped", (rtx.meta.GetRoSchema("u") != nil) == wantU)
		if table == "t" {
			vagree("reopen", rtx, rows)
		} else {
			rt.Assert("reopen/renamed-old-name-gone", rtx.meta.GetRoSchema("t") == nil && rtx.meta.GetRoInfo("t") == nil)
			rt.Assert("reopen/renamed-nrows", rtx.GetInfo("t2") != nil && rtx.GetInfo("t2").Nrows == vlive(rows))
			for _, r := range rows {
				rec := rtx.Lookup("t2", 0, vpk(r.a))
				rt.Assert("reopen/renamed-row", rec != nil && rec.Record.GetStr(1) == r.b)
			}
		}
		rt.Assert("reopen/uncommitted-absent", rtx.Lookup(table, 0, vpk("\xfe")) == nil)
		db = db2
		db.CheckerSync()
	}
}
