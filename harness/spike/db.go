package db19

import (
	"github.com/apmckinlay/gsuneido/core"
	"github.com/apmckinlay/gsuneido/db19/meta/schema"
	"github.com/apmckinlay/gsuneido/db19/stor"
	rt "github.com/apmckinlay/gsuneido/zzverifrt"
)

func vmkrec(args ...string) core.Record {
	var b core.RecordBuilder
	for _, a := range args {
		b.Add(core.SuStr(a))
	}
	return b.Build()
}

func VerifDbConcrete() {
	MakeSuTran = func(ut *UpdateTran) *core.SuTran { return nil }
	db := CreateDb(stor.HeapStor(8192))
	db.CheckerSync()
	db.Create(&schema.Schema{Table: "hdr", Columns: []string{"k"},
		Indexes: []schema.Index{{Mode: 'k', Columns: []string{"k"}}}})
	rt.Reach("created")
	ut := db.NewUpdateTran()
	ut.Output(nil, "hdr", vmkrec("a"))
	rt.Reach("output")
	db.CommitMerge(ut)
	rt.Reach("committed")
	rtx := db.NewReadTran()
	rt.Assert("nrows", rtx.GetInfo("hdr").Nrows == 1)
}

func vtry(f func()) (panicked bool) {
	defer func() {
		if e := recover(); e != nil {
			panicked = true
		}
	}()
	f()
	return false
}

// C08 scenario: target hdr(k), source lin(id,k) with fk mode chosen symbolically.
func VerifC08Fk() {
	MakeSuTran = func(ut *UpdateTran) *core.SuTran { return nil }
	mode := byte(rt.Pick("mode", 4)) // 0 block, 1 cascade update, 2 cascade delete, 3 cascade
	db := CreateDb(stor.HeapStor(8192))
	db.CheckerSync()
	db.Create(&schema.Schema{Table: "hdr", Columns: []string{"k"},
		Indexes: []schema.Index{{Mode: 'k', Columns: []string{"k"}}}})
	db.Create(&schema.Schema{Table: "lin", Columns: []string{"id", "k"},
		Indexes: []schema.Index{{Mode: 'k', Columns: []string{"id"}},
			{Mode: 'i', Columns: []string{"k"}, Fk: schema.Fkey{Table: "hdr", Columns: []string{"k"}, Mode: mode}}}})
	k1 := rt.Str("k1", 1)
	k2 := rt.Str("k2", 1)
	ut := db.NewUpdateTran()
	ut.Output(nil, "hdr", vmkrec(k1))
	if vtry(func() { ut.Output(nil, "lin", vmkrec("1", k2)) }) {
		// refused: must be because k2 has no target
		rt.Assert("refused-only-without-target", k2 != k1)
		return
	}
	rt.Assert("accepted-only-with-target", k2 == k1)
	db.CommitMerge(ut)
	rt.Reach("inserted")
	ut = db.NewUpdateTran()
	rec := ut.Lookup("hdr", 0, string(vmkrec(k1).GetRaw(0)))
	rt.Assert("lookup", rec != nil)
	refused := vtry(func() { ut.Delete(nil, "hdr", rec.Off) })
	if !refused {
		db.CommitMerge(ut)
	}
	rtx := db.NewReadTran()
	nh, nl := rtx.GetInfo("hdr").Nrows, rtx.GetInfo("lin").Nrows
	// referential integrity: a lin row implies its hdr row exists
	rt.Assert("no-orphan", !(nl == 1 && nh == 0))
	if mode&2 == 0 {
		rt.Assert("delete-refused-unless-cascade-deletes", refused)
	} else {
		rt.Assert("cascade-not-refused", !refused)
		rt.Assert("cascade-nh0", nh == 0)
		rt.Assert("cascade-nl0", nl == 0)
	}
}
