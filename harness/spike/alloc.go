package stor

import (
	"sync"

	rt "github.com/apmckinlay/gsuneido/zzverifrt"
)

type vrng struct {
	off uint64
	n   int
	ok  bool
}

func valloc(s *Stor, n int, out *vrng) {
	defer func() {
		if e := recover(); e != nil {
			out.ok = false // failed loudly
		}
	}()
	off, buf := s.Alloc(n)
	rt.Assert("buflen", len(buf) == n && cap(buf) == n)
	*out = vrng{off, n, true}
}

// C18: two concurrent allocators; chunk size 16
func VerifC18Alloc() {
	const chunk = 16
	st := HeapStor(chunk)
	pre := rt.IntRange("pre", 1, chunk)
	st.Alloc(pre) // symbolic initial fill (single threaded)
	n1 := rt.IntRange("n1", 1, chunk)
	n2 := rt.IntRange("n2", 1, chunk)
	var r1, r2 vrng
	var wg sync.WaitGroup
	wg.Add(2)
	go func() { valloc(st, n1, &r1); wg.Done() }()
	go func() { valloc(st, n2, &r2); wg.Done() }()
	wg.Wait()
	rt.Reach("joined")
	size := st.Size()
	check := func(r vrng) {
		if r.ok {
			rt.Assert("nostraddle", r.off/chunk == (r.off+uint64(r.n)-1)/chunk)
			rt.Assert("within-size", r.off+uint64(r.n) <= size)
		}
	}
	check(r1)
	check(r2)
	if r1.ok && r2.ok {
		rt.Assert("disjoint", r1.off+uint64(r1.n) <= r2.off || r2.off+uint64(r2.n) <= r1.off)
	}
}
