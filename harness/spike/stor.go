package stor

import rt "github.com/apmckinlay/gsuneido/zzverifrt"

func VerifPutGet() {
	n5 := rt.I64("n5")
	rt.Assume(0 <= n5 && n5 < 1<<40)
	n4 := rt.Int("n4")
	rt.Assume(0 <= n4 && n4 < 1<<32)
	n3 := rt.Int("n3")
	rt.Assume(0 <= n3 && n3 < 1<<24)
	buf := make([]byte, 32)
	w := NewWriter(buf)
	w.Put5(n5).Put4(n4).Put3(n3)
	rt.Reach("written")
	r := NewReader(w.buf)
	rt.Assert("get5", r.Get5() == n5)
	rt.Assert("get4", r.Get4() == n4)
	rt.Assert("get3", r.Get3() == n3)
	rt.Assert("remaining", r.Remaining() == 0)
}

func VerifSmallOffset() {
	off := rt.U64("off")
	rt.Assume(off <= MaxSmallOffset)
	var b [SmallOffsetLen]byte
	WriteSmallOffset(b[:], off)
	rt.Assert("roundtrip", ReadSmallOffset(b[:]) == off)
	b2 := AppendSmallOffset(nil, off)
	rt.Assert("append", ReadSmallOffset(b2) == off && len(b2) == 5)
}

func VerifPut4Range() {
	n := rt.Int("n")
	w := NewWriter(make([]byte, 8))
	w.Put4(n) // should panic when out of range
	rt.Assert("inrange", 0 <= n && n < 1<<32)
}
