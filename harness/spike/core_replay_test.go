package core

import (
	"os"
	"testing"

	rt "github.com/apmckinlay/gsuneido/zzverifrt"
)

var verifHarnesses = map[string]func(){"VerifC26Add": VerifC26Add}

func TestVerifReplay(t *testing.T) {
	name := os.Getenv("VERIF_HARNESS")
	func() {
		defer func() {
			if e := recover(); e != nil {
				rt.Failed = append(rt.Failed, "panic")
				t.Log("panic:", e)
			}
		}()
		verifHarnesses[name]()
	}()
	t.Log("FAILED-LABELS", rt.Failed)
	if len(rt.Failed) > 0 {
		t.Fail()
	}
}
