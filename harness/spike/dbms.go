package dbms

import (
	"github.com/apmckinlay/gsuneido/core"
	"github.com/apmckinlay/gsuneido/dbms/mux"
	rt "github.com/apmckinlay/gsuneido/zzverifrt"
)

// C41: one fully symbolic request on an unauthenticated connection must leave it unauthenticated
// and (for commands outside the allowed set) must be answered with an error.
func VerifC41OneRequest() {
	p := &mux.VerifPipe{}
	wb := mux.VerifNewWriteBuf(p)
	sc := &serverConn{dbms: &DbmsUnauth{dbms: &DbmsLocal{}}, id: 7,
		sessions: make(map[uint32]*serverSession), remoteAddr: "1.2.3.4"}
	serverConns[sc.id] = sc
	th := core.NewThread(nil)
	id := uint64(sc.id)<<32 | 1
	cmd := rt.Byte("cmd")
	n := rt.Pick("arglen", 3)
	req := append([]byte{cmd}, rt.Bytes("arg", n)...)
	doRequest(wb, th, id, req)
	rt.Reach("handled")
	_, still := sc.dbms.(*DbmsUnauth)
	rt.Assert("still-unauth", still)
	out := p.Out
	if len(out) > mux.HeaderSize {
		ok := out[mux.HeaderSize] == 1
		allowed := cmd == 2 /*Auth*/ || cmd == 22 /*Nonce*/ || cmd == 30 /*SessionId?*/
		if ok && !allowed {
			rt.Assert("refused-unless-allowed", false)
		}
	}
}
