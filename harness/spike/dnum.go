package dnum

import rt "github.com/apmckinlay/gsuneido/zzverifrt"

func anyDnum(name string) Dnum {
	sign := int8(rt.Pick(name+"_sign", 3)) - 1 // -1,0,1 (infinities separately)
	if sign == 0 {
		return Zero
	}
	coef := rt.U64(name + "_coef")
	rt.Assume(coefMin <= coef && coef <= coefMax)
	exp := int8(rt.Int(name + "_exp"))
	return Dnum{coef, sign, exp}
}

func VerifCompareAntisym() {
	x, y := anyDnum("x"), anyDnum("y")
	c1, c2 := Compare(x, y), Compare(y, x)
	rt.Assert("antisym", c1 == -c2)
	rt.Assert("eq-iff-0", (c1 == 0) == Equal(x, y))
}

// New(sign, coef, exp) normalisation: result value within half ulp of coef*10^exp-ish (check coef range only)
func VerifNewNormal() {
	coef := rt.U64("coef")
	rt.Assume(coef > 0)
	exp := rt.Int("exp")
	rt.Assume(-100 < exp && exp < 100)
	d := New(signPos, coef, exp)
	rt.Reach("new")
	rt.Assert("normalized", d.coef >= coefMin && d.coef <= coefMax)
}

// Add with equal exponents and same sign: exact sum then rounding by New
func VerifAddSameExp() {
	a := rt.U64Range("a", coefMin, coefMax)
	b := rt.U64Range("b", coefMin, coefMax)
	e := int8(rt.IntRange("e", -99, 99))
	x, y := Dnum{a, signPos, e}, Dnum{b, signPos, e}
	r := Add(x, y)
	rt.Reach("added")
	// exact sum s = a+b in [2e15, 2e16); result coef*10^(r.exp-e) within 1 unit of s
	s := a + b
	if r.exp == e {
		rt.Assert("exact-nocarry", r.coef == s)
	} else {
		rt.Assert("carry-exp", r.exp == e+1)
		// r.coef*10 within 5 of s  (rounded)
		rt.Assert("carry-rounded", r.coef*10 <= s+5 && s <= r.coef*10+5)
	}
}
