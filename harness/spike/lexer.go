package lexer

import (
	tok "github.com/apmckinlay/gsuneido/compile/tokens"
	rt "github.com/apmckinlay/gsuneido/zzverifrt"
)

func VerifC32Lex() {
	n := rt.Pick("len", 3) + 1 // 1..3
	src := rt.Str("s", n)
	lxr := NewLexer(src)
	pos := int32(-1)
	for i := 0; i < n+2; i++ {
		it := lxr.Next()
		if it.Token == tok.Eof {
			rt.Reach("eof")
			return
		}
		rt.Assert("pos-increasing", it.Pos > pos)
		rt.Assert("pos-in-range", int(it.Pos) < n)
		pos = it.Pos
	}
	rt.Assert("terminates", false)
}
