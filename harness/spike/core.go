package core

import (
	"math"

	rt "github.com/apmckinlay/gsuneido/zzverifrt"
)

// C26: OpAdd on two int64-represented values: exact when fits, else must not wrap
func VerifC26Add() {
	a := rt.IntRange("a", math.MinInt64, math.MaxInt64)
	b := rt.IntRange("b", math.MinInt64, math.MaxInt64)
	x, y := Value(SuInt64{int64: int64(a)}), Value(SuInt64{int64: int64(b)})
	r := OpAdd(x, y)
	rt.Reach("added")
	ri, ok := SuIntToInt(r)
	// fits iff no overflow: a+b in range  (expressed without overflow: compare via halves)
	fits := (b >= 0 && a <= math.MaxInt64-b) || (b < 0 && a >= math.MinInt64-b)
	if fits {
		rt.Assert("exact-when-fits", ok && ri == a+b)
	} else {
		rt.Assert("no-wrap", !ok) // result must be a decimal, not a wrapped integer
	}
}
