package ordset

import rt "github.com/apmckinlay/gsuneido/zzverifrt"

// history of n inserts of 1-byte keys, then AnyInRange/Contains vs model (association list)
func VerifOrdsetHistory() {
	const n = 6
	var set Set
	var keys [n]string
	for i := 0; i < n; i++ {
		keys[i] = rt.Str("k", 1)
		ok := set.Insert(keys[i])
		rt.Assert("insert-ok", ok)
	}
	rt.Reach("built")
	from, to := rt.Str("from", 1), rt.Str("to", 1)
	rt.Assume(from <= to)
	want := false
	for i := 0; i < n; i++ {
		if from <= keys[i] && keys[i] <= to {
			want = true
		}
	}
	rt.Assert("anyinrange", set.AnyInRange(from, to) == want)
	p := rt.Str("p", 1)
	wantc := false
	for i := 0; i < n; i++ {
		if keys[i] == p {
			wantc = true
		}
	}
	rt.Assert("contains", set.Contains(p) == wantc)
}
