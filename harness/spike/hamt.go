package hamt

import (
	"github.com/apmckinlay/gsuneido/db19/stor"
	rt "github.com/apmckinlay/gsuneido/zzverifrt"
)

type vItem struct {
	key, val int
	tomb     bool
	lastMod  int
}

var vhash [4]uint64

func (f *vItem) Key() int             { return f.key }
func (*vItem) Hash(key int) uint64    { return vhash[key] }
func (f *vItem) StorSize() int        { return 9 }
func (f *vItem) Cksum() uint32        { return uint32(f.key*31 + f.val) }
func (f *vItem) IsTomb() bool         { return f.tomb }
func (f *vItem) LastMod() int         { return f.lastMod }
func (f *vItem) SetLastMod(m int)     { f.lastMod = m }
func (f *vItem) Write(w *stor.Writer) { w.Put4(f.key).Put4(f.val).Put1(0) }

// symbolic hashes restricted to two digits {0,1} at levels 0 and 1 (others 0): collisions reachable
func VerifC15Map() {
	for k := 0; k < 3; k++ {
		d0 := uint64(rt.IntRange("d0", 0, 1))
		d1 := uint64(rt.IntRange("d1", 0, 1))
		vhash[k] = d0 | d1<<5
	}
	ht := Hamt[int, *vItem]{}.Mutable()
	var model [3]int // 0 = absent
	for step := 0; step < 4; step++ {
		k := rt.Pick("k", 3)
		if rt.Pick("op", 2) == 0 {
			v := step + 1
			ht.Put(&vItem{key: k, val: v})
			model[k] = v
		} else {
			got := ht.Delete(k)
			rt.Assert("delete-result", got == (model[k] != 0))
			model[k] = 0
		}
		for j := 0; j < 3; j++ {
			it, ok := ht.Get(j)
			rt.Assert("get-present", ok == (model[j] != 0))
			if ok {
				rt.Assert("get-value", it.val == model[j])
			}
		}
	}
	n := 0
	for it := range ht.All() {
		n++
		rt.Assert("all-member", model[it.key] == it.val)
	}
	cnt := 0
	for j := 0; j < 3; j++ {
		if model[j] != 0 {
			cnt++
		}
	}
	rt.Assert("all-count", n == cnt)
	rt.Reach("done")
}
