package ixkey

import (
	"strings"

	. "github.com/apmckinlay/gsuneido/core"
	rt "github.com/apmckinlay/gsuneido/zzverifrt"
)

func vfield(name string) string {
	n := rt.Pick(name+"_len", 3) // 0..2
	return rt.Str(name, n)
}

func vsign(n int) int {
	if n < 0 {
		return -1
	} else if n > 0 {
		return 1
	}
	return 0
}

// two records of 2 fields, spec on both fields: key order == field-wise order
func VerifC12Order2() {
	a0, a1 := vfield("a0"), vfield("a1")
	b0, b1 := vfield("b0"), vfield("b1")
	var ra, rb RecordBuilder
	ra.AddRaw(a0).AddRaw(a1)
	rb.AddRaw(b0).AddRaw(b1)
	r1, r2 := ra.Build(), rb.Build()
	spec := &Spec{Fields: []int{0, 1}}
	k1, k2 := spec.Key(r1), spec.Key(r2)
	rt.Reach("keys")
	want := vsign(strings.Compare(a0, b0))
	if want == 0 {
		want = vsign(strings.Compare(a1, b1))
	}
	rt.Assert("key-order", vsign(strings.Compare(k1, k2)) == want)
	rt.Assert("spec-compare", vsign(spec.Compare(r1, r2)) == want)
	// decode
	d := Decode(k1)
	exp := []string{a0, a1}
	for len(exp) > 0 && exp[len(exp)-1] == "" {
		exp = exp[:len(exp)-1]
	}
	rt.Assert("decode-len", len(d) == len(exp))
	for i := range exp {
		if i < len(d) {
			rt.Assert("decode-field", d[i] == exp[i])
		}
	}
}
